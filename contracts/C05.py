"""C05 — directional estimators return valid distributions (non-negative, unit integral), batch independence."""
from fractions import Fraction
from pyvc.api import *
from pyvc.api import CalleeContract
from pyvc.loops import LoopContract
from pyvc.run import Lemma, Bounded

PROPERTY = "C05"
LEVEL = "other"
E = "wavespectra/estimators/"


def _n(x):
    return x.n if hasattr(x, "n") else len(x)


# ------------------------------------------------------------------ the distribution builder
def _p_dist(mk):
    N = mk.size("N")
    return {"lagrange_multiplier": mk.carray("lam", 4), "direction_increment": mk.array("dtheta", (N,)),
            "twiddle_factors": mk.array("tw", (4, N))}


def valid_distribution(D, dtheta, rtol=1e-9):
    n = _n(dtheta)
    return And(forall(0, n, lambda j: D[j] >= 0),
               eq(Sum(0, n, lambda j: D[j] * dtheta[j]), 1, rtol=rtol, atol=rtol))


DIST_REQ = [("grid", lambda a: And(_n(a.direction_increment) >= 1,
                                   forall(0, _n(a.direction_increment), lambda j: a.direction_increment[j] > 0)))]

distribution = Contract(
    E + "mem2.py::mem2_directional_distribution",
    params=_p_dist,
    requires=DIST_REQ,
    ensures=[("nonneg", lambda a, r: forall(0, _n(a.direction_increment), lambda j: r[j] >= 0)),
             ("unit", lambda a, r: eq(Sum(0, _n(a.direction_increment), lambda j: r[j] * a.direction_increment[j]), 1))],
    options={"result": lambda mk, a: mk.array("D", mk.st.deref(a.direction_increment).shape)},
)

# ------------------------------------------------------------------ Cholesky: the only abnormal exit is the explicit ValueError
cholesky = Contract(
    E + "mem2.py::solve_cholesky",
    params=lambda mk: {"matrix": mk.array("A", (4, 4)), "rhs": mk.array("b", (4,))},
    ensures=[("shape", lambda a, r: _n(r) == 4)],
    raises={"ValueError": lambda a: True},
    # at call sites: returns a length-4 vector or raises ValueError (exactly what is verified above)
    options={"result": lambda mk, a: mk.array("x", (4,)), "may_raise": ["ValueError"]},
)


# ------------------------------------------------------------------ Newton solver: every return path is a valid distribution
def _fresh_vec(name, n):
    return lambda mk, a: mk.array(name, (n,))


MOMENT_CONSTRAINTS = CalleeContract(E + "mem2.py::moment_constraints", _fresh_vec("F", 4),
                                    note="only the shape of the residual vector is used here (its value is the subject of C06)")
JACOBIAN = CalleeContract(E + "mem2.py::mem2_jacobian", lambda mk, a: mk.array("J", (4, 4)),
                          note="only the shape of the Jacobian is used here")
NUMBA_MEM = CalleeContract(E + "mem.py::numba_mem", lambda mk, a: mk.array("Dmem", mk.st.deref(a.directions_radians).shape),
                           assumed=True, note="returns an array of the grid's length without raising (bounded on compiled code); its value is overwritten")

CONFIG_FIELDS = {"max_iter": "int", "rcond": "real", "atol": "real", "max_line_search_depth": "int",
                 "use_mem_when_failing_to_converge": "real"}


def _p_solver(inst):
    def p(mk):
        N = mk.size("N")
        d = {"moments": mk.carray("m", 4), "guess": mk.carray("g", 4), "direction_increment": mk.array("dtheta", (N,)),
             "twiddle_factors": mk.array("tw", (4, N)), "config": None, "approximate": inst == "approximate"}
        if inst == "config":
            d["config"] = mk.record("config", CONFIG_FIELDS)
        return d
    return p


def _native_solver(kw, inst):
    import numpy as np
    out = dict(kw)
    for k in ("moments", "guess", "direction_increment", "twiddle_factors"):
        out[k] = np.ascontiguousarray(out[k], dtype="float64")
    out["approximate"] = bool(out.get("approximate", False))
    cfg = out.get("config")
    if isinstance(cfg, dict) and not hasattr(cfg, "_numba_type_"):
        import numba
        d = numba.typed.Dict.empty(key_type=numba.core.types.unicode_type, value_type=numba.core.types.float64)
        for k, v in cfg.items():
            d[k] = float(v)
        out["config"] = d
    return out


def _grid(N, rng=None):
    import numpy as np
    th = np.linspace(0, 2 * np.pi, N, endpoint=False)
    if rng is not None:
        th = (th + rng.uniform(0, 2 * np.pi)) % (2 * np.pi)
    tw = np.array([np.cos(th), np.sin(th), np.cos(2 * th), np.sin(2 * th)])
    return th, np.full(N, 2 * np.pi / N), tw


def von_mises_moments(rng, nlobes=None):
    """moments of a mixture of 1-2 von-Mises lobes plus an isotropic background (realisable)"""
    import numpy as np
    nlobes = nlobes or int(rng.integers(1, 3))
    th = np.linspace(0, 2 * np.pi, 7200, endpoint=False)
    D = np.full_like(th, rng.uniform(0, 0.3) / (2 * np.pi))
    for _ in range(nlobes):
        kappa = 10 ** rng.uniform(-1, np.log10(400))
        mu = rng.uniform(0, 2 * np.pi)
        lobe = np.exp(kappa * (np.cos(th - mu) - 1))
        D = D + rng.uniform(0.2, 1) * lobe / lobe.sum() * len(th) / (2 * np.pi)
    D = D / (D.sum() * (th[1] - th[0]))
    dth = th[1] - th[0]
    return tuple(float((D * f).sum() * dth) for f in (np.cos(th), np.sin(th), np.cos(2 * th), np.sin(2 * th)))


def unrealisable_moments(rng):
    import numpy as np
    r = np.sqrt(rng.uniform(0, 0.98))
    ph = rng.uniform(0, 2 * np.pi)
    a2, b2 = rng.uniform(-0.9, 0.9, 2)
    return float(r * np.cos(ph)), float(r * np.sin(ph)), float(a2), float(b2)


def _samples_solver(rng, tier):
    import numpy as np
    from ocean_science_utilities.wavespectra.estimators.mem2 import initial_value, NUMERICS
    out = []
    for k in range(24 if tier == "quick" else 240):
        N = int(rng.choice([8, 24, 36, 72]))
        th, dth, tw = _grid(N, rng)
        m = von_mises_moments(rng) if k % 2 == 0 else unrealisable_moments(rng)
        g = initial_value(*[np.array([v]) for v in m])[0]
        inst = ["default", "approximate", "config"][k % 3]
        kw = {"moments": np.array(m), "guess": g, "direction_increment": dth, "twiddle_factors": tw,
              "config": None, "approximate": inst == "approximate"}
        if inst == "config":
            kw["config"] = {k_: float(v) for k_, v in NUMERICS.items()}
        out.append((inst, _native_solver(kw, inst)))
    return out


def _raise_allowed(a):
    if a.config is None:
        return False
    return a.config["use_mem_when_failing_to_converge"] <= 0


solver = Contract(
    E + "mem2.py::mem2_newton_solver",
    instances=[(i, _p_solver(i)) for i in ("default", "approximate", "config")],
    requires=DIST_REQ + [("config", lambda a: True if a.config is None else And(a.config["max_iter"] >= 0, a.config["max_line_search_depth"] >= 0))],
    ensures=[("nonneg", lambda a, r: forall(0, _n(a.direction_increment), lambda j: r[j] >= 0)),
             ("unit", lambda a, r: eq(Sum(0, _n(a.direction_increment), lambda j: r[j] * a.direction_increment[j]), 1, rtol=1e-7, atol=1e-7))],
    raises={"ValueError": _raise_allowed},
    callees={distribution.target: distribution, MOMENT_CONSTRAINTS.target: MOMENT_CONSTRAINTS, JACOBIAN.target: JACOBIAN,
             NUMBA_MEM.target: NUMBA_MEM, cholesky.target: cholesky},
    loops={1: LoopContract(invariant=[]), 2: LoopContract(invariant=[])},
    native=_native_solver,
    options={"samples": _samples_solver},
)

# ------------------------------------------------------------------ bounded: the four variants on compiled code
VARIANTS = [("mem", {}), ("mem2", {"solution_method": "scipy"}), ("mem2", {"solution_method": "newton"}),
            ("mem2", {"solution_method": "approximate"})]


def _bounded_variants(tier, seed):
    import numpy as np
    from ocean_science_utilities.wavespectra.estimators.estimate import estimate_directional_distribution as est
    rng = np.random.default_rng(seed + 5)
    reps = 1 if tier == "quick" else 8
    shapes = [(6,), (3, 5), (2, 2, 4)]
    failures, nfail, evals = [], {}, 0

    def fail(kind, **kw):
        nfail[kind] = nfail.get(kind, 0) + 1
        if sum(1 for f in failures if f["kind"] == kind) < 3:
            failures.append({"kind": kind, **kw})

    for method, kwargs in VARIANTS:
        vname = method + ("/" + kwargs["solution_method"] if kwargs else "")
        for N in (8, 24, 36, 72):
            direction = np.linspace(0, 360, N, endpoint=False)
            for shape in shapes * reps:
                n = int(np.prod(shape))
                quads = np.array([von_mises_moments(rng) if rng.random() < 0.5 else unrealisable_moments(rng) for _ in range(n)])
                a1, b1, a2, b2 = (quads[:, k].reshape(shape).copy() for k in range(4))
                evals += n
                try:
                    D = est(a1, b1, a2, b2, direction, method, **kwargs)
                except Exception as e:
                    fail(f"{vname}.raises", N=N, shape=list(shape), error=repr(e)[:160], moments=quads.tolist()[:8])
                    continue
                if D.shape != tuple(shape) + (N,):
                    fail(f"{vname}.shape", N=N, shape=list(shape), got=list(D.shape))
                    continue
                Df = D.reshape(n, N)
                integral = Df.sum(axis=-1) * (360.0 / N)
                neg = ~(Df >= 0).all(axis=-1)
                off = ~(np.abs(integral - 1) <= 1e-6)
                for r in np.nonzero(neg)[0][:2]:
                    fail(f"{vname}.negative", N=N, moments=quads[r].tolist(), minimum=float(np.nanmin(Df[r])))
                for r in np.nonzero(off)[0][:2]:
                    fail(f"{vname}.unit_integral_degrees", N=N, moments=quads[r].tolist(), integral=float(integral[r]))
                # batch independence: every spectrum alone gives the same row
                for r in range(n):
                    try:
                        alone = est(*[np.array([quads[r, k]]) for k in range(4)], direction, method, **kwargs)[0]
                    except Exception as e:
                        fail(f"{vname}.raises_alone", N=N, error=repr(e)[:160], moments=quads[r].tolist())
                        continue
                    if not np.allclose(alone, Df[r], rtol=1e-9, atol=1e-12, equal_nan=True):
                        fail(f"{vname}.batch_independence", N=N, shape=list(shape), row=int(r), moments=quads[r].tolist(),
                             max_abs_difference=float(np.nanmax(np.abs(alone - Df[r]))))
    for f in failures:
        f["count_of_this_kind"] = nfail[f["kind"]]
    return {"evaluations": int(evals), "distinct": int(evals), "failures": failures,
            "domain": ("estimate_directional_distribution on compiled code: variants mem, mem2/scipy, mem2/newton, mem2/approximate; N in {8,24,36,72} "
                       "uniform directions; leading batch shapes (), (nt,), (nt,nx); seeded von-Mises mixtures (kappa 0.1..400, 1-2 lobes + background) and "
                       "unrealisable quadruples with a1^2+b1^2<0.98; oracle: no exception, D>=0, sum D*360/N = 1 (1e-6), each row equals the result computed alone")}


BOUNDED = [Bounded("estimators.compiled", _bounded_variants, "validity, returns-without-raising and batch independence of the four variants as they run")]

CONTRACTS = [distribution, cholesky, solver]
TRUSTED = []
EXPLANATION = ("mem2_directional_distribution proved non-negative with unit integral for any finite multipliers; every return path of the MEM2 Newton solver proved to return such a distribution; "
               "MEM, scipy, estimate.py normalisation, batch independence and no-raise on compiled code are a bounded check over seeded moment quadruples")
