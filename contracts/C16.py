"""C16 — synthetic time series: length/spacing proved on surface_timeseries; variance identities and reproducibility bounded
(they rest on Parseval for numpy's irfft and on the random generator: library facts)."""
from pyvc.api import *
from pyvc.run import Lemma, Bounded
from pyvc.api import CalleeContract
import pyvc.terms as T
import pyvc.lib as lib
from pyvc.values import Arr, Obj, LibFunc

PROPERTY = "C16"
LEVEL = "other"
TS = "wavespectra/timeseries.py::"


# library contract: np.fft.irfft(a, n=None) returns a real array of length n, or 2*(len(a)-1) when n is not given
def _irfft(interp, st, args, kwargs):
    a = st.deref(args[0])
    if not (isinstance(a, Obj) and a.cls == "complex_array"):
        raise T.Unsupported("irfft of a non-abstract array")
    m = a.fields["n"]
    n = st.deref(kwargs["n"]) if "n" in kwargs else (st.deref(args[1]) if len(args) > 1 else None)
    length = T.mul(2, T.sub(m, 1)) if n is None else n
    from pyvc.values import sym_array
    return st.alloc(sym_array(T.Fresh.name("irfft"), (length,)), "irfft")


lib.REG["numpy.fft.irfft"] = LibFunc("numpy.fft.irfft", lib._wrap("numpy.fft.irfft", _irfft))
lib.REG["numpy.fft"] = __import__("pyvc.values", fromlist=["ModVal"]).ModVal("numpy.fft")


def _amp_result(mk, a):
    fr = mk.st.deref(a.frequencies)
    mk.st.ghost["amp_args"] = (mk.st.deref(a.component), getattr(a.spectrum, "id", None), getattr(a.frequencies, "id", None), mk.st.deref(a.seed))
    mk.st.ghost["amp_nfreq"] = fr.shape[0]
    return mk.st.alloc(Obj("complex_array", {"n": fr.shape[0]}), "amplitudes")


AMPS = CalleeContract(TS + "create_fourier_amplitudes", _amp_result, assumed=True,
                      note="one complex amplitude per requested frequency (its values are the bounded part)")


def _p_ts(mk):
    sp = mk.st.alloc(Obj("SpectrumStub", {}), "spectrum")
    mk.st.ghost["spectrum_ref"] = sp.id
    return {"component": "z", "sampling_frequency": mk.real("fs"), "signal_length": mk.int("n"), "spectrum": sp, "seed": mk.int("seed")}


def _len(x):
    return x.n if hasattr(x, "n") else len(x)


def _nfft(n):
    return floordiv(n, 2) * 2


def _native_ts(kw, inst):
    import numpy as np
    from ocean_science_utilities.wavespectra.spectrum import create_2d_spectrum
    out = dict(kw)
    if not hasattr(kw.get("spectrum"), "dataset"):
        f = np.linspace(0.02, 0.6, 30)
        d = np.linspace(0, 360, 12, endpoint=False)
        E = np.zeros((30, 12))
        E[:, 3] = np.exp(-((f - 0.15) / 0.05) ** 2)
        out["spectrum"] = create_2d_spectrum(f, d, E[None, :, :], 0.0, 0.0, 0.0, depth=np.inf).isel(time=0)
    out["signal_length"] = int(kw["signal_length"])
    out["seed"] = abs(int(kw["seed"])) if kw.get("seed") is not None else None
    return out


surface_timeseries = Contract(
    TS + "surface_timeseries", params=_p_ts,
    requires=[("length", lambda a: a.signal_length >= 8), ("rate", lambda a: a.sampling_frequency > 0)],
    ensures=[
        ("as_many_samples_as_time_stamps", lambda a, r: And(_len(r[0]) == _nfft(a.signal_length), _len(r[1]) == _nfft(a.signal_length))),
        ("spacing_is_the_sampling_interval", lambda a, r: forall(0, _nfft(a.signal_length), lambda k: eq(r[0][k], k / a.sampling_frequency, rtol=1e-12, atol=1e-12), "k")),
        ("amplitudes_requested_on_the_fft_grid", lambda a, r: (And(a._ghost["amp_nfreq"] == floordiv(_nfft(a.signal_length), 2), a._ghost["amp_args"][0] == a.component,
                                                               a._ghost["amp_args"][1] == a._ghost["spectrum_ref"], eq(a._ghost["amp_args"][3], a.seed))
                                                             if hasattr(a, "_ghost") else True)),
    ],
    callees={AMPS.target: AMPS}, native=_native_ts,
    witness=[lambda c=c, fs=fs, n=n: ("", _native_ts({"component": c, "sampling_frequency": fs, "signal_length": n, "spectrum": None, "seed": 3}, "")) for c, fs, n in
             (("z", 2.0, 64), ("w", 0.5, 9), ("x", 10.0, 2000))],
)


def _bounded_variance(tier, seed):
    """variance identities (Parseval for irfft), reproducibility, sqrt(c) scaling, cos^2/sin^2 split on the real functions"""
    import numpy as np
    from ocean_science_utilities.wavespectra.spectrum import create_1d_spectrum, create_2d_spectrum
    from ocean_science_utilities.wavespectra.timeseries import surface_timeseries as st_
    rng = np.random.default_rng(seed + 31)
    n = 5 if tier == "quick" else 40
    fails, samples, evals = [], [], 0

    def var_check(spec, fs, nlen, comp, sd, theta=None):
        t, z = st_(comp, fs, nlen, spec, seed=sd)
        nfft = (nlen // 2) * 2
        fgrid = np.linspace(0, 0.5 * fs, nfft // 2, endpoint=False)
        rs = spec.interpolate_frequency(fgrid)
        if theta is None:
            E = rs.variance_density.values
            area = rs.frequency_step.values
            e = E * area
        else:
            e = (rs.variance_density.values * rs.frequency_step.values[:, None] * rs.direction_step.values[None, :]).sum(axis=-1)
        w = 2 * np.pi * fgrid
        e[0] = 0.0
        target = {"z": e.sum(), "w": (w ** 2 * e).sum()}
        if theta is not None:
            c2, s2 = np.cos(theta) ** 2, np.sin(theta) ** 2
            target.update({"x": c2 * e.sum(), "y": s2 * e.sum(), "u": c2 * (w ** 2 * e).sum(), "v": s2 * (w ** 2 * e).sum()})
        ok = len(t) == len(z) == nfft and np.allclose(np.diff(t), 1.0 / fs)
        if comp in target:
            ok = ok and np.isclose(np.var(z), target[comp], rtol=2e-3, atol=1e-12)
        return ok, z
    for k in range(n):
        fs = float(rng.uniform(0.5, 10))
        nlen = int(rng.choice([8, 9, 64, 257, 1000, 4001, 20000]))
        nf = 40
        f = np.linspace(0.01, 0.45 * fs, nf)
        E1 = rng.random(nf) * np.exp(-((f - 0.15 * fs) / (0.08 * fs)) ** 2) + 1e-4
        s1 = create_1d_spectrum(f, E1[None, :], 0.0, 0.0, 0.0, depth=np.inf)
        s1 = s1.isel(time=0) if "time" in s1.dims else s1
        nd = 12
        d = np.linspace(0, 360, nd, endpoint=False) if k % 2 == 0 else np.array([0.0, 10, 20, 40, 80, 120, 180, 200, 260, 300, 330, 350])
        jb = int(rng.integers(0, nd))
        E2 = np.zeros((nf, nd))
        width = ((np.roll(d, -1) - d + 180.0) % 360.0 - 180.0)[jb]      # the spectrum's own bin width (uniform or not)
        E2[:, jb] = E1 / width
        s2 = create_2d_spectrum(f, d, E2[None, :, :], 0.0, 0.0, 0.0, depth=np.inf)
        s2 = s2.isel(time=0) if "time" in s2.dims else s2
        sd = int(rng.integers(0, 2 ** 32))
        for comp in ("z", "w"):
            evals += 1
            try:
                ok, z = var_check(s1, fs, nlen, comp, sd)
            except Exception as e:
                ok, z = False, None
                fails.append({"case": k, "kind": "1d", "component": comp, "what": f"raised {type(e).__name__}: {e}"[:200]})
                continue
            if not ok:
                fails.append({"case": k, "kind": "1d", "component": comp, "fs": fs, "n": nlen, "what": "length / spacing / variance mismatch"})
        theta = np.radians(d[jb])
        for comp in ("z", "w", "x", "y", "u", "v"):
            evals += 1
            try:
                ok, z = var_check(s2, fs, nlen, comp, sd, theta)
            except Exception as e:
                fails.append({"case": k, "kind": "2d", "component": comp, "what": f"raised {type(e).__name__}: {e}"[:200]})
                continue
            if not ok:
                fails.append({"case": k, "kind": "2d", "component": comp, "fs": fs, "n": nlen, "bin": jb, "what": "length / spacing / variance mismatch"})
        # energy at and beyond the Nyquist frequency fs/2, short records: the FFT grid k fs/nfft, k < nfft/2, excludes fs/2, so the
        # series must carry exactly the variance of the bins below it (added after seeded change C16-3 was first missed)
        fn = np.linspace(0.01, 0.75 * fs, nf)
        sn = create_1d_spectrum(fn, (1.0 + rng.random(nf))[None, :], 0.0, 0.0, 0.0, depth=np.inf)
        sn = sn.isel(time=0) if "time" in sn.dims else sn
        for nshort in (8, 9, 64):
            for comp in ("z", "w"):
                evals += 1
                try:
                    ok, z = var_check(sn, fs, nshort, comp, sd)
                except Exception as e:
                    fails.append({"case": k, "kind": "1d-nyquist", "component": comp, "what": f"raised {type(e).__name__}: {e}"[:200]})
                    continue
                if not ok:
                    fails.append({"case": k, "kind": "1d-nyquist", "component": comp, "fs": fs, "n": nshort, "what": "length / spacing / variance mismatch with energy at fs/2"})
        # reproducibility and scaling
        evals += 1
        for sdx in (0, 1, sd):
            _, z1 = st_("z", fs, nlen, s2, seed=sdx)
            _, z2 = st_("z", fs, nlen, s2, seed=sdx)
            _, z3 = st_("z", fs, nlen, s2, seed=sdx + 1)
            if not np.array_equal(z1, z2):
                fails.append({"case": k, "what": f"seed {sdx} is not reproducible"})
            if np.array_equal(z1, z3):
                fails.append({"case": k, "what": f"seeds {sdx} and {sdx + 1} give the same series"})
        s4 = s2.multiply(np.full(s2.shape(), 4.0))
        _, z4 = st_("z", fs, nlen, s4, seed=sd)
        _, z1 = st_("z", fs, nlen, s2, seed=sd)
        if not np.allclose(z4, 2.0 * z1, rtol=1e-9, atol=1e-12):
            fails.append({"case": k, "what": "scaling the spectrum by 4 does not scale the series by 2"})
        if len(samples) < 2:
            samples.append({"case": k, "fs": fs, "n": nlen, "bin": jb, "seed": sd})
    return {"evaluations": evals, "distinct": evals, "failures": fails[:6], "samples": samples,
            "domain": f"{n} random spectra x (1D: z,w; 2D single bin: all six components), sampling rates 0.5..10 Hz, lengths 8..20000 even and odd, seeds 0,1,random"}


BOUNDED = [Bounded("variance_reproducibility_scaling", _bounded_variance)]
CONTRACTS = [surface_timeseries]
TRUSTED = ["np.fft.irfft(a, n) returns n real samples, 2(len(a)-1) when n is omitted; np.linspace(start, stop, num, endpoint=False)[k] = start + k (stop-start)/num",
           "Parseval's identity for irfft and the purity of numpy's default_rng(seed) are library facts: the variance / reproducibility clauses are bounded only"]
EXPLANATION = ("surface_timeseries proved to return as many samples as time stamps (nfft = 2 floor(n/2)), spaced 1/fs, with the amplitudes requested on the FFT grid k fs/nfft for the caller's component, spectrum and seed; "
               "variance identities, cos^2/sin^2 split, seed reproducibility and sqrt(c) scaling are bounded checks on the real functions")
