"""Contract language: the vocabulary used inside contract clauses.

Every function here is dual-mode: applied to symbolic (z3) values it builds a term, applied to
concrete Python / numpy values it computes a bool / number (the *executable twin* used for
witness checks, replay and the bounded tier).  One clause text therefore serves both the proof
and the run-time evaluation (DESIGN §2.4)."""
from fractions import Fraction
import math
import z3
from . import terms as T
from .terms import is_sym

RTOL, ATOL = 1e-9, 1e-12


def _anysym(*xs):
    for x in xs:
        if is_sym(x) or isinstance(x, T.XR):
            return True
        if isinstance(x, (tuple, list)) and _anysym(*x):
            return True
    return False


def _f(x):
    if isinstance(x, Fraction):
        return float(x)
    return x


def And(*xs):
    if _anysym(*xs):
        return T.land(*xs)
    return all(bool(x) for x in xs)


def Or(*xs):
    if _anysym(*xs):
        return T.lor(*xs)
    return any(bool(x) for x in xs)


def Not(x):
    if is_sym(x):
        return z3.Not(x)
    return not bool(x)


def iff(a, b):
    return And(implies(a, b), implies(b, a))


def implies(a, b):
    if _anysym(a, b):
        return T.implies(a, b)
    return (not bool(a)) or bool(b)


def If(c, a, b):
    if _anysym(c, a, b):
        return T.ite(c, a, b)
    return a if c else b


def eq(a, b, rtol=RTOL, atol=ATOL):
    """Equality of reals (exact in the proof, within tolerance in the executable twin)."""
    if isinstance(a, T.XR) or isinstance(b, T.XR):
        # same convention as the executable twin below: two missing values are equal
        na, nb = T.xnan(a), T.xnan(b)
        return T.lor(T.land(na, nb), T.land(T.lnot(na), T.lnot(nb), T.cmp("==", T.xval(a), T.xval(b))))
    if _anysym(a, b):
        return T.cmp("==", a, b)
    a, b = _f(a), _f(b)
    if isinstance(a, float) or isinstance(b, float):
        if math.isnan(a) and math.isnan(b):
            return True
        if math.isinf(a) or math.isinf(b):
            return a == b
        return abs(a - b) <= atol + rtol * max(abs(a), abs(b))
    return a == b


def le(a, b, rtol=RTOL, atol=ATOL):
    if _anysym(a, b):
        return T.cmp("<=", a, b)
    a, b = _f(a), _f(b)
    return a <= b + atol + rtol * max(abs(a), abs(b))


def ge(a, b, rtol=RTOL, atol=ATOL):
    return le(b, a, rtol, atol)


def lt(a, b):
    if _anysym(a, b):
        return T.cmp("<", a, b)
    return _f(a) < _f(b)


def gt(a, b):
    return lt(b, a)


def absv(a):
    if is_sym(a) or isinstance(a, T.XR):
        return T.absv(a)
    return abs(a)


def isnan(a):
    """is the value missing (NaN)?  Plain symbolic reals are never NaN."""
    if isinstance(a, T.XR):
        return a.nan
    if is_sym(a) or isinstance(a, (int, Fraction)):
        return False
    return math.isnan(a)


def notnan(a):
    return Not(isnan(a))


def valof(a):
    """the real value of a possibly-NaN quantity (meaningful only under notnan(a))"""
    return a.v if isinstance(a, T.XR) else a


def forall(lo, hi, fn, name="q"):
    """forall i in [lo,hi). fn(i)"""
    if _anysym(lo, hi):
        i = T.Fresh.int(name)
        body = fn(i)
        if isinstance(body, bool):
            return body or T.lnot(T.cmp("<", lo, hi))
        return z3.ForAll([i], z3.Implies(z3.And(i >= T.to_z3(lo), i < T.to_z3(hi)), body))
    res = True
    for i in range(int(lo), int(hi)):
        r = fn(i)
        if is_sym(r):
            res = T.land(res, r)
        elif not r:
            return False
    return res


def forall2(r1, r2, fn):
    return forall(r1[0], r1[1], lambda i: forall(r2[0], r2[1], lambda j: fn(i, j)))


def exists(lo, hi, fn, name="e"):
    return Not(forall(lo, hi, lambda i: Not(fn(i)), name))


def Sum(lo, hi, fn):
    """Sum_{i=lo}^{hi-1} fn(i)"""
    if _anysym(lo, hi):
        bv = T.Fresh.int("k")
        return T.make_sum(lo, hi, bv, T.to_real(T.to_z3(fn(bv))))
    acc = 0
    for i in range(int(lo), int(hi)):
        acc = acc + fn(i) if not _anysym(acc) else T.add(acc, fn(i))
    return acc


class SumOf:
    """one Sum definition applied to several ranges: S = SumOf(lambda i: body); S(lo, hi).
    (different applications of the same definition are related by the split-last lemma schema)"""

    def __init__(self, fn):
        self.fn = fn
        self.bv = T.Fresh.int("k")
        body = T.to_real(T.to_z3(fn(self.bv)))
        params = [c for c in T.free_consts(body) if not c.eq(self.bv)]
        params.sort(key=lambda c: c.decl().name())
        self.d = T.SumDef(self.bv, body, params)

    def __call__(self, lo, hi):
        return self.d.app(lo, hi)


def _u(name, cf):
    def f(x):
        if is_sym(x) or isinstance(x, Fraction):
            return T.uf(name, x)
        return cf(x)
    f.__name__ = name
    return f


exp = _u("exp", math.exp)
log = _u("log", math.log)
sqrt = _u("sqrt", math.sqrt)
sin = _u("sin", math.sin)
cos = _u("cos", math.cos)
tanh = _u("tanh", math.tanh)
sinh = _u("sinh", math.sinh)


def arctan2(a, b):
    if _anysym(a, b):
        return T.uf2("arctan2", a, b)
    return math.atan2(a, b)


def powr(a, b):
    if _anysym(a, b):
        return T.power(a, b)
    return a ** b


def pi_of(x=None):
    return T.PI


class _Pi:
    """pi usable in both modes: `PI.of(x)` returns the symbolic constant when x is symbolic."""
    @staticmethod
    def like(x):
        return T.PI if _anysym(x) else math.pi


PI = _Pi


def floordiv(a, b):
    if _anysym(a, b):
        return T.floordiv(a, b)
    return a // b


def mod(a, b):
    if _anysym(a, b):
        return T.mod(a, b)
    return a % b


def is_symbolic(*xs):
    return _anysym(*xs)


class NS:
    """attribute namespace"""

    def __init__(self, d):
        self.__dict__.update(d)

    def __getitem__(self, k):
        return self.__dict__[k]

    def __contains__(self, k):
        return k in self.__dict__


# --------------------------------------------------------------------------- contracts
class Contract:
    """Sidecar contract of one repository function (DESIGN §2.4).

    target    'relative/file.py::qualname'
    instances list of (label, params_builder); params_builder(mk) -> dict name -> symbolic value
              (one verification run per instance: e.g. one per concrete string option)
    requires  [(label, fn(a))]                 a: namespace of wrapped arguments
    ensures   [(label, fn(a, result))]
    raises    {ExcTypeName: fn(a) -> condition under which the exception is allowed}
    loops     {ordinal: LoopContract}  (ordinal = position of the loop in a pre-order walk of the
              function body, starting at 1)
    callees   {target: CalleeContract or 'inline'} contracts used at call sites
    witness   list of callables () -> dict of native arguments (executable twin / replay)
    native    optional fn(model_inputs) -> native kwargs for the real function
    """

    def __init__(self, target, requires=(), ensures=(), raises=None, loops=None, params=None,
                 instances=None, callees=None, witness=(), native=None, call=None, notes="",
                 options=None, post_native=None, lemmas=(), label=None):
        self.target = target
        self.label = label
        self.requires = list(requires)
        self.ensures = list(ensures)
        self.raises = dict(raises or {})
        self.loops = dict(loops or {})
        self.instances = instances if instances is not None else [("", params)]
        self.callees = dict(callees or {})
        self.witness = list(witness)
        self.native = native
        self.call = call
        self.notes = notes
        self.options = dict(options or {})
        self.post_native = post_native
        self.lemmas = list(lemmas)

    @property
    def short(self):
        return self.label or self.target.split("::")[1]


class CalleeContract:
    """Contract assumed/used at call sites: result(mk, args) builds the symbolic result,
    requires are asserted (obligations), ensures are assumed.  `assumed=True` marks a contract
    that is not itself verified against the callee's body (listed in the trusted base)."""

    def __init__(self, target, result, requires=(), ensures=(), assumed=False, binds=None, note=""):
        self.target, self.result = target, result
        self.requires, self.ensures = list(requires), list(ensures)
        self.assumed = assumed
        self.note = note
