"""C16 — synthetic time series.

Proved: length / spacing of surface_timeseries; create_fourier_amplitudes under contract (complex arithmetic of the executor,
pyvc/models/cplx.py) for the 1D spectrum (six components) and the 2D spectrum; with Parseval's identity for numpy's irfft as an
explicit assumed library contract, the variance identities of the 1D series (z, w and the other components), seed determinism
(the generator's output is a function of the seed) and sqrt(c) scaling.  Bounded: "differs between seeds", the unidirectional 2D
cos^2/sin^2 split, everything on the real functions as a second line."""
from fractions import Fraction
from pyvc.api import *
from pyvc.run import Lemma, Bounded
from pyvc.api import CalleeContract
import pyvc.terms as T
import pyvc.lib as lib
import pyvc.models.xr as xr
import pyvc.models.cplx as cplx
from pyvc.values import Arr, Obj, LibFunc, sym_array
import z3
from contracts.C01 import direction_step as C01_direction_step

PROPERTY = "C16"
LEVEL = "other"
TS = "wavespectra/timeseries.py::"
SP = "wavespectra/spectrum.py::"
NAME_F, NAME_D, NAME_E = "frequency", "direction", "variance_density"
COMPONENTS = ("z", "w", "u", "v", "x", "y")


# ---------------------------------------------------------------- library contracts (assumed)
# np.fft.irfft(a, n): n real samples (2(len(a)-1) when n is omitted).  Parseval, as numpy computes it: the input is cut / zero-padded to
# n//2+1 coefficients, the imaginary part of the zero-frequency coefficient (and of the Nyquist one) is ignored, and
#     x_t := n y_t = Re a_0 + 2 Re sum_{k=1}^{n/2-1} a_k e^{2 pi i k t/n} + Re a_{n/2} (-1)^t          (y = irfft(a, n)).
# For len(a) == n/2 (n even; what surface_timeseries passes: the Nyquist coefficient is the zero padding) this gives
#     sum_t x_t = n Re a_0      and      sum_t x_t^2 = n [ (Re a_0)^2 + sum_{k=1}^{n/2-1} 2 |a_k|^2 ] ,
# i.e. the sample variance of x is sum_{k>=1} 2|a_k|^2.  That — and only in that case — is what is assumed below, in terms of n*y_t;
# `C16.bounded.irfft_parseval_as_assumed` checks the statement against numpy, including the padding / ignored-imaginary-part behaviour.
def parseval_sums(y, n):
    """(sum_t n y_t, sum_t (n y_t)^2) as Sum terms, built exactly like the executor builds `nfft * irfft(...)`"""
    t1, t2 = T.Fresh.int("t"), T.Fresh.int("t")
    x1 = T.mul(n, y.get((t1,)))
    x2 = T.mul(n, y.get((t2,)))
    return T.make_sum(0, n, t1, T.to_real(x1)), T.make_sum(0, n, t2, T.to_real(T.mul(x2, x2)))


def power_sum(re, im, m):
    k = T.Fresh.int("k")
    return T.make_sum(1, m, k, T.to_real(T.to_z3(T.mul(2, T.add(T.mul(re.get((k,)), re.get((k,))), T.mul(im.get((k,)), im.get((k,))))))))


def _irfft(interp, st, args, kwargs):
    a = st.deref(args[0])
    if not cplx.is_c(a):
        raise T.Unsupported("irfft of a non-complex array")
    shape = cplx._shape(st, a)
    if shape is None or len(shape) != 1:
        raise T.Unsupported("irfft of a complex value that is not 1-d")
    m = shape[0]
    n = st.deref(kwargs["n"]) if "n" in kwargs else (st.deref(args[1]) if len(args) > 1 else None)
    length = T.mul(2, T.sub(m, 1)) if n is None else n
    y = sym_array(T.Fresh.name("irfft"), (length,))
    if n is not None:
        re, im = cplx.parts(st, a)
        re, im = cplx._full(st, re, shape), cplx._full(st, im, shape)
        s1, s2 = parseval_sums(y, length)
        p = power_sum(re, im, m)
        re0 = re.get((0,))
        fact = T.land(T.cmp("==", s1, T.mul(length, re0)), T.cmp("==", s2, T.mul(length, T.add(T.mul(re0, re0), p))))
        st.assume(T.to_z3(T.implies(T.land(T.cmp("==", T.mul(2, m), length), T.cmp(">=", m, 1)), fact)))
        st.ghost["irfft"] = {"y": y, "re": re, "im": im, "m": m, "n": length, "s1": s1, "s2": s2, "p": p}
    return st.alloc(y, "irfft")


lib.REG["numpy.fft.irfft"] = LibFunc("numpy.fft.irfft", lib._wrap("numpy.fft.irfft (length; Parseval when len(a) == n/2)", _irfft))
lib.REG["numpy.fft"] = __import__("pyvc.values", fromlist=["ModVal"]).ModVal("numpy.fft")

# np.random.default_rng(seed).uniform(lo, hi, shape): the d-th draw of a generator is a function of (seed, d, index) — equal seeds give
# equal draws.  Nothing else is assumed (not even the range); seed=None is an arbitrary seed.
RNG = z3.Function("rng_uniform", T.IntS, T.IntS, T.IntS, T.IntS, T.RealS)


def _default_rng(interp, st, args, kwargs):
    seed = st.deref(kwargs["seed"]) if "seed" in kwargs else (st.deref(args[0]) if args else None)
    if seed is None:
        seed = T.Fresh.int("os_entropy")
    return st.alloc(Obj("Generator", {"seed": seed, "draws": 0}), "Generator")


lib.REG["numpy.random.default_rng"] = LibFunc("numpy.random.default_rng", lib._wrap("numpy.random.default_rng (pure function of the seed)", _default_rng))
lib.REG["numpy.random"] = __import__("pyvc.values", fromlist=["ModVal"]).ModVal("numpy.random")


class _RngPlugin:
    def obj_getattr(self, interp, st, ref, o, name):
        if not (isinstance(o, Obj) and o.cls == "Generator"):
            return NotImplemented
        if name != "uniform":
            raise T.Unsupported(f"Generator.{name}")

        def uniform(i, s, a, k):
            shape = s.deref(a[2]) if len(a) > 2 else s.deref(k.get("size"))
            shape = tuple(s.deref(x) for x in (shape if isinstance(shape, (tuple, list)) else (shape,)))
            if not 1 <= len(shape) <= 2:
                raise T.Unsupported("uniform with this shape")
            d, seed = o.fields["draws"], o.fields["seed"]
            o.fields["draws"] = d + 1
            arr = Arr(shape, lambda ix: RNG(T.to_z3(seed), z3.IntVal(d), T.to_z3(ix[0]), T.to_z3(ix[1]) if len(ix) > 1 else z3.IntVal(0)), (), "real")
            return s.alloc(arr, "uniform")
        return LibFunc("Generator.uniform", lib._wrap("numpy.random.Generator.uniform", uniform))


lib.PLUGINS.append(_RngPlugin())


# ---------------------------------------------------------------- symbolic spectra, the interpolation stub
def _spectrum_arg(mk, kind):
    """a single spectrum (no leading dimensions) of the real class: frequency grid f0, densities E0 (2D: directions theta, degrees)"""
    st = mk.st
    nf0 = mk.size("nf0")
    f0 = mk.array("f0", (nf0,))
    coords = {NAME_F: st.deref(f0)}
    if kind == "2d":
        nd = mk.size("nd")
        th = mk.array("theta", (nd,))
        coords[NAME_D] = st.deref(th)
        E0, dims, cls = mk.array("E0", (nf0, nd)), (NAME_F, NAME_D), "FrequencyDirectionSpectrum"
    else:
        E0, dims, cls = mk.array("E0", (nf0,)), (NAME_F,), "FrequencySpectrum"
    vs = {NAME_E: xr.mk_xa(st, dims, st.deref(E0), None, coords)}
    ds = st.alloc(Obj("Dataset", {"vars": vs, "coords": coords}), "dataset")
    return mk.instance(SP + cls, {"dataset": ds})


def _interp_result(mk, a):
    """spectrum.interpolate_frequency(f): an object of the same class on the requested frequency grid (same directions), densities
    without missing values (the method ends with fillna).  The interpolated densities are fresh symbols E'."""
    st = mk.st
    src = st.deref(a.self)
    ds0 = st.deref(src.fields["dataset"])
    fr = st.deref(a.new_frequencies)
    if xr.is_xa(fr):
        fr = fr.fields["arr"]
    coords = {NAME_F: fr}
    two_d = NAME_D in ds0.fields["coords"]
    if two_d:
        th = ds0.fields["coords"][NAME_D]
        coords[NAME_D] = th
        E = sym_array(T.Fresh.name("Ei"), (fr.shape[0], th.shape[0]))
        dims = (NAME_F, NAME_D)
    else:
        E = sym_array(T.Fresh.name("Ei"), (fr.shape[0],))
        dims = (NAME_F,)
    vs = {NAME_E: xr.mk_xa(st, dims, E, None, coords)}
    ds = st.alloc(Obj("Dataset", {"vars": vs, "coords": coords}), "dataset")
    st.ghost["c16.interp"] = {"E": E, "f": fr, "theta": coords.get(NAME_D), "of": getattr(a.self, "id", None)}
    return st.alloc(Obj(src.cls, {"dataset": ds}), "interpolated")


INTERP_NOTE = ("returns a spectrum of the same class on the requested frequency grid with the same direction grid and no missing densities; "
               "the interpolated values themselves are the subject of C13 and unconstrained here")
INTERP_1D = CalleeContract(SP + "FrequencySpectrum.interpolate_frequency", _interp_result, assumed=True, note=INTERP_NOTE)
INTERP_2D = CalleeContract(SP + "WaveSpectrum.interpolate_frequency", _interp_result, assumed=True, note=INTERP_NOTE)


# ---------------------------------------------------------------- specification of the amplitudes (both modes)
def _wrap180(x):
    if is_symbolic(x):
        return T.sub(T.mod(T.add(x, 180), 360), 180)
    return (x + 180.0) % 360.0 - 180.0


def _ncoord(spec, name):
    """length of a coordinate of a spectrum argument (symbolic or native); None when absent"""
    if hasattr(spec, "_o"):
        cs = spec.dataset.coords
        return cs[name].n if name in cs else None
    return len(spec.dataset[name]) if name in spec.dataset.coords else None


def df_spec(f, n, k, sym):
    """frequency bin width k of a grid f(0..n-1), n >= 2: half the distance between the neighbours, the grid continued linearly at both ends"""
    if sym:
        lo = If(k >= 1, f(If(k >= 1, k - 1, 0)), 2 * f(0) - f(1))
        hi = If(k + 1 < n, f(If(k + 1 < n, k + 1, 0)), 2 * f(n - 1) - f(n - 2))
        return (hi - lo) / 2
    lo = f(k - 1) if k >= 1 else 2 * f(0) - f(1)
    hi = f(k + 1) if k + 1 < n else 2 * f(n - 1) - f(n - 2)
    return (hi - lo) / 2


def _fstep_post(a, r):
    if hasattr(r, "_o"):
        f = a.self.dataset.coords[NAME_F]
        return And(r.nan is None, r.arr.shape[0] == f.n, forall(0, f.n, lambda k: eq(r.arr[k], df_spec(lambda i: f[i], f.n, k, True)), "k"))
    import numpy as np
    fv = np.asarray(a.self.frequency.values, dtype="float64")
    rv = np.asarray(r.values, dtype="float64")
    return rv.shape == fv.shape and all(eq(float(rv[k]), df_spec(lambda i: float(fv[i]), len(fv), k, False)) for k in range(len(fv)))


def _fstep_result(mk, a):
    sp = mk.st.deref(a.self)
    ds = mk.st.deref(sp.fields["dataset"])
    f = ds.fields["coords"][NAME_F]
    return xr.mk_xa(mk.st, (NAME_F,), sym_array(T.Fresh.name("fstep"), (f.shape[0],)), None, {NAME_F: f})


frequency_step = Contract(
    SP + "WaveSpectrum.frequency_step", instances=[(k, (lambda mk, k=k: {"self": _spectrum_arg(mk, k)})) for k in ("1d", "2d")],
    requires=[("at_least_two_frequencies", lambda a: _ncoord(a.self, NAME_F) >= 2)],
    ensures=[("centred_bin_widths_with_extrapolated_end_bins", _fstep_post)],
    native=lambda kw, inst: {"self": _wit_spectrum(inst)},
    witness=[lambda: ("1d", {"self": _wit_spectrum("1d")}), lambda: ("2d", {"self": _wit_spectrum("2d")})],
    options={"result": _fstep_result, "native_call": lambda kw, inst: kw["self"].frequency_step},
)


class View:
    """interpolated spectrum, phases and result of a create_fourier_amplitudes call, symbolic or native"""

    def __init__(self, a, r=None):
        s = a.spectrum
        self.sym = hasattr(s, "_o")
        self.component = a.component
        if self.sym:
            g = s._st.ghost["c16.interp"]
            self.two_d = g["theta"] is not None
            E, f, th = g["E"], g["f"], g["theta"]
            self.nf = f.shape[0]
            self.nd = th.shape[0] if self.two_d else None
            self.f = lambda k: f.get((k,))
            self.theta = (lambda j: th.get((j,))) if self.two_d else None
            self.E = (lambda k, j=None: E.get((k, j))) if self.two_d else (lambda k, j=None: E.get((k,)))
            seed = a.seed if a.seed is not None else s._st.ghost.get("c16.entropy")
            self.phi = lambda k, j=None: RNG(T.to_z3(seed), z3.IntVal(0), T.to_z3(k), T.to_z3(j) if j is not None else z3.IntVal(0))
            self.pi = T.PI
            if r is not None:
                self.re = lambda k: (r.re[k] if hasattr(r.re, "shape") else r.re)
                self.im = lambda k: (r.im[k] if hasattr(r.im, "shape") else r.im)
        else:
            import numpy as np
            rs = s.interpolate_frequency(np.asarray(a.frequencies))
            self.two_d = NAME_D in rs.dataset.coords
            Ev = np.asarray(rs.variance_density.values, dtype="float64")
            fv = np.asarray(rs.frequency.values, dtype="float64")
            self.nf = len(fv)
            self.f = lambda k: float(fv[k])
            self.pi = np.pi
            if self.two_d:
                thv = np.asarray(rs.direction.values, dtype="float64")
                self.nd = len(thv)
                self.theta = lambda j: float(thv[j])
                self.E = lambda k, j=None: float(Ev[k, j])
            else:
                self.nd, self.theta = None, None
                self.E = lambda k, j=None: float(Ev[k])
            ph = np.random.default_rng(seed=a.seed).uniform(0, 2 * np.pi, Ev.shape)
            self.phi = (lambda k, j=None: float(ph[k, j])) if self.two_d else (lambda k, j=None: float(ph[k]))
            if r is not None:
                rv = np.asarray(getattr(r, "values", r))
                self.re = lambda k: float(rv[k].real)
                self.im = lambda k: float(rv[k].imag)

    # bin widths of the *interpolated* spectrum: centred differences of its frequency grid, end bins extrapolated; wrapped forward
    # differences of its directions (degrees)
    def df(self, k):
        return df_spec(self.f, self.nf, k, self.sym)

    def dtheta(self, j):
        th, n = self.theta, self.nd
        if self.sym:
            nxt = If(j + 1 < n, th(If(j + 1 < n, j + 1, 0)), th(0))
            return _wrap180(nxt - th(j))
        return _wrap180(th((j + 1) % n) - th(j))

    def area(self, k, j=None):
        return self.df(k) * self.dtheta(j) if self.two_d else self.df(k)

    def omega(self, k):
        if self.sym:
            return T.mul(T.mul(self.f(k), 2), self.pi)
        return self.f(k) * 2 * self.pi

    def factor(self, k, j=None):
        """(real, imaginary) part of the component's transfer factor at (k, j); the direction of a 1D spectrum is 0"""
        c = self.component
        if self.two_d:
            ang = self.theta(j) * self.pi / 180
            cs, sn = cos(ang), sin(ang)
        else:
            cs, sn = 1, 0
        w = self.omega(k)
        m = T.mul if self.sym else (lambda x, y: x * y)
        return {"z": (1, 0), "w": (0, w), "u": (m(w, cs), 0), "v": (m(w, sn), 0), "x": (0, m(-1, cs)), "y": (0, m(-1, sn))}[c]

    def scale(self, k, j=None):
        return sqrt(self.area(k, j) * self.E(k, j) / 2)

    def term(self, k, j=None):
        """sqrt(area E / 2) e^{i phi} factor  as (re, im); exact ring simplifications (0 x = 0, 1 x = x, x - 0 = x) are applied"""
        s, ph = self.scale(k, j), self.phi(k, j)
        fr, fi = self.factor(k, j)
        c, n = s * cos(ph), s * sin(ph)
        if self.sym:
            return T.sub(T.mul(c, fr), T.mul(n, fi)), T.add(T.mul(c, fi), T.mul(n, fr))
        return c * fr - n * fi, c * fi + n * fr


def _amp_value(part):
    def post(a, r):
        v = View(a, r)
        got = v.re if part == 0 else v.im
        if not v.two_d:
            return forall(0, v.nf, lambda k: eq(got(k), v.term(k)[part], rtol=1e-9, atol=1e-15), "k")
        return forall(0, v.nf, lambda k: eq(got(k), Sum(0, v.nd, lambda j: v.term(k, j)[part]), rtol=1e-9, atol=1e-15), "k")
    return post


def _amp_modulus(a, r):
    """|amp_k|^2 = area_k E_k / 2 |factor_k|^2  (1D; wherever the radicand is not negative: otherwise numpy's sqrt is NaN)"""
    v = View(a, r)
    if v.two_d:
        return True       # (a sum over directions: no closed form for the modulus)

    def one(k):
        fr, fi = v.factor(k)
        q = v.area(k) * v.E(k) / 2
        return implies(q >= 0, eq(v.re(k) * v.re(k) + v.im(k) * v.im(k), q * (fr * fr + fi * fi), rtol=1e-9, atol=1e-15))
    return forall(0, v.nf, one, "k")


def _amp_len(a, r):
    v = View(a, r)
    if v.sym:
        return And(*[x.shape[0] == v.nf for x in (r.re, r.im) if hasattr(x, "shape")], *[len(x.shape) == 1 for x in (r.re, r.im) if hasattr(x, "shape")])
    import numpy as np
    return np.asarray(getattr(r, "values", r)).shape == (v.nf,)


def _p_amp(kind, comp):
    def p(mk):
        nf = mk.size("nf")
        return {"component": comp, "spectrum": _spectrum_arg(mk, kind), "frequencies": mk.array("f", (nf,)), "seed": mk.int("seed")}
    return p


def _amp_result(mk, a):
    """result builder for call sites: a complex array with one amplitude per requested frequency (the ensures are assumed there);
    the interpolated spectrum it speaks about is created here as ghost state, as the stub does inside the body"""
    fr = mk.st.deref(a.frequencies)
    sp = mk.st.deref(a.spectrum)
    from pyvc.api import NS
    _interp_result(mk, NS({"self": a.spectrum, "new_frequencies": a.frequencies}))
    mk.st.ghost["amp_args"] = (mk.st.deref(a.component), getattr(a.spectrum, "id", None), getattr(a.frequencies, "id", None), mk.st.deref(a.seed))
    mk.st.ghost["amp_nfreq"] = fr.shape[0]
    n = fr.shape[0]
    return cplx.mk_c(mk.st, sym_array(T.Fresh.name("amp_re"), (n,)), sym_array(T.Fresh.name("amp_im"), (n,)))


def _wit_spectrum(kind):
    import numpy as np
    from ocean_science_utilities.wavespectra.spectrum import create_1d_spectrum, create_2d_spectrum
    f = np.linspace(0.02, 0.6, 30)
    E1 = np.exp(-((f - 0.15) / 0.05) ** 2) + 0.01
    if kind == "1d":
        s = create_1d_spectrum(f, E1[None, :], 0.0, 0.0, 0.0, depth=np.inf)
    else:
        d = np.array([0.0, 10, 20, 40, 80, 120, 180, 200, 260, 300, 330, 350])
        E2 = E1[:, None] * (1.2 + np.cos(np.radians(d - 40.0)))[None, :] / 360
        s = create_2d_spectrum(f, d, E2[None, :, :], 0.0, 0.0, 0.0, depth=np.inf)
    return s.isel(time=0) if "time" in s.dims else s


def _native_amp(kw, inst):
    import numpy as np
    out = dict(kw)
    kind = inst.split(",")[0]
    if not hasattr(kw.get("spectrum"), "dataset"):
        out["spectrum"] = _wit_spectrum(kind)
    out["frequencies"] = np.asarray(kw["frequencies"], dtype="float64")
    out["seed"] = abs(int(kw["seed"])) if kw.get("seed") is not None else None
    return out


def _wit_amp(kind, comp, n, fs, seed):
    import numpy as np
    return lambda: (f"{kind},{comp}", {"component": comp, "spectrum": _wit_spectrum(kind), "frequencies": np.linspace(0, 0.5 * fs, n, endpoint=False), "seed": seed})


# 2D: z and w are discharged; the value clauses of u, v, x, y (direction-dependent factor inside the sum over directions) time out in
# the Sum-congruence step and are left to the bounded check (NOTES-C16.md)
AMP_INST = [(f"{kind},{c}", _p_amp(kind, c)) for kind in ("1d", "2d") for c in COMPONENTS if kind == "1d" or c in ("z", "w")]
import os as _os
if _os.environ.get("C16_ONLY"):
    AMP_INST = [x for x in AMP_INST if x[0] in _os.environ["C16_ONLY"].split(";")]
I1D = {f"1d,{c}" for c in COMPONENTS}

create_fourier_amplitudes = Contract(
    TS + "create_fourier_amplitudes", instances=AMP_INST,
    requires=[("at_least_two_frequencies", lambda a: a.frequencies.shape[0] >= 2),
              ("at_least_one_direction", lambda a: _ncoord(a.spectrum, NAME_D) >= 1 if _ncoord(a.spectrum, NAME_D) is not None else True)],
    ensures=[("one_amplitude_per_frequency", _amp_len),
             ("real_part_of_sqrt_half_area_density_times_phase_times_component_factor", _amp_value(0)),
             ("imaginary_part_of_sqrt_half_area_density_times_phase_times_component_factor", _amp_value(1)),
             ("squared_modulus_is_half_area_density_times_squared_factor_1d", _amp_modulus)],
    callees={INTERP_1D.target: INTERP_1D, INTERP_2D.target: INTERP_2D, frequency_step.target: frequency_step,
             C01_direction_step.target: C01_direction_step},
    native=_native_amp,
    witness=[_wit_amp(kind, c, n, fs, sd) for kind in ("1d", "2d") for c, n, fs, sd in
             (("z", 32, 2.0, 3), ("w", 8, 1.0, 0), ("u", 16, 2.5, 11), ("v", 16, 2.5, 11), ("x", 50, 1.3, 7), ("y", 4, 1.0, 5))],
    options={"result": _amp_result},
)


def _p_ts(comp):
    def p(mk):
        sp = _spectrum_arg(mk, "1d")
        mk.st.ghost["spectrum_ref"] = sp.id
        return {"component": comp, "sampling_frequency": mk.real("fs"), "signal_length": mk.int("n"), "spectrum": sp, "seed": mk.int("seed")}
    return p


def _len(x):
    return x.n if hasattr(x, "n") else len(x)


def _nfft(n):
    return floordiv(n, 2) * 2


def _native_ts(kw, inst):
    import numpy as np
    from ocean_science_utilities.wavespectra.spectrum import create_2d_spectrum
    out = dict(kw)
    if not hasattr(kw.get("spectrum"), "dataset"):
        out["spectrum"] = _wit_spectrum("1d")
    out["signal_length"] = int(kw["signal_length"])
    out["seed"] = abs(int(kw["seed"])) if kw.get("seed") is not None else None
    return out


class TsView:
    """arguments of surface_timeseries seen as a create_fourier_amplitudes call on the FFT grid"""

    def __init__(self, a):
        self.component, self.spectrum, self.seed = a.component, a.spectrum, a.seed
        if not hasattr(a.spectrum, "_o"):
            import numpy as np
            nfft = (int(a.signal_length) // 2) * 2
            self.frequencies = np.linspace(0, 0.5 * a.sampling_frequency, nfft // 2, endpoint=False)


def spectral_variance(v, lo=1):
    """sum over the non-zero frequencies of area_k E_k |factor_k|^2 of the resampled spectrum (1D), written 2 (area_k E_k / 2) |factor_k|^2"""
    def body(k):
        fr, fi = v.factor(k)
        q = v.area(k) * v.E(k) / 2
        return 2 * (q * (fr * fr + fi * fi))
    return Sum(lo, v.nf, body)


def _variance_post(a, r):
    """sample variance of the series = spectral variance of the resampled spectrum without its zero-frequency bin, provided no
    radicand area_k E_k is negative (true for non-negative spectra: the interpolated densities are then non-negative and the FFT
    grid's bin widths are fs/nfft > 0)"""
    v = View(TsView(a))
    if v.sym:
        g = a._ghost["irfft"]
        n = g["n"]
        s1, s2 = parseval_sums(g["y"], n)
        # series_t = nfft * y_t (checked by the clause `series_is_nfft_times_the_inverse_transform`), so these are sum x_t, sum x_t^2;
        # variance = (n sum x^2 - (sum x)^2) / n^2, stated cross-multiplied
        nonneg = forall(0, v.nf, lambda k: v.area(k) * v.E(k) / 2 >= 0, "k")
        return implies(nonneg, eq(n * s2 - s1 * s1, n * n * spectral_variance(v)))
    import numpy as np
    z = np.asarray(r[1], dtype="float64")
    return eq(float(np.var(z)), float(spectral_variance(v)), rtol=1e-6, atol=1e-14)


def _series_post(a, r):
    if hasattr(a.spectrum, "_o"):
        g = a._ghost["irfft"]
        return And(g["y"].shape[0] == _len(r[1]), forall(0, _len(r[1]), lambda t: eq(r[1][t], g["n"] * g["y"].get((t,))), "t"),
                   g["m"] * 2 == g["n"])
    return True


def _mean_post(a, r):
    """the mean of the series is the real part of the zero-frequency amplitude"""
    if hasattr(a.spectrum, "_o"):
        g = a._ghost["irfft"]
        s1, _ = parseval_sums(g["y"], g["n"])
        return eq(s1, g["n"] * g["re"].get((0,)))
    import numpy as np
    v = View(TsView(a))
    t0 = v.term(0)[0]
    return eq(float(np.mean(np.asarray(r[1]))), float(t0), rtol=1e-6, atol=1e-12)


def _wit_ts(c, fs, n, seed=3):
    return lambda: (c, {"component": c, "sampling_frequency": fs, "signal_length": n, "spectrum": _wit_spectrum("1d"), "seed": seed})


surface_timeseries = Contract(
    TS + "surface_timeseries", instances=[(c, _p_ts(c)) for c in COMPONENTS],
    requires=[("length", lambda a: a.signal_length >= 8), ("rate", lambda a: a.sampling_frequency > 0)],
    ensures=[
        ("as_many_samples_as_time_stamps", lambda a, r: And(_len(r[0]) == _nfft(a.signal_length), _len(r[1]) == _nfft(a.signal_length))),
        ("spacing_is_the_sampling_interval", lambda a, r: forall(0, _nfft(a.signal_length), lambda k: eq(r[0][k], k / a.sampling_frequency, rtol=1e-12, atol=1e-12), "k")),
        ("amplitudes_requested_on_the_fft_grid", lambda a, r: (And(a._ghost["amp_nfreq"] == floordiv(_nfft(a.signal_length), 2), a._ghost["amp_args"][0] == a.component,
                                                               a._ghost["amp_args"][1] == a._ghost["spectrum_ref"], eq(a._ghost["amp_args"][3], a.seed))
                                                             if hasattr(a, "_ghost") else True)),
        ("series_is_nfft_times_the_inverse_transform_of_half_as_many_amplitudes", _series_post),
        ("mean_is_the_zero_frequency_amplitude", _mean_post),
        # w and u (factor omega_k inside the sums) time out in the solver: their variance identity stays with the bounded check
        ("sample_variance_is_the_spectral_variance_without_the_zero_frequency_bin", _variance_post, {"z", "x", "v", "y"}),
    ],
    callees={create_fourier_amplitudes.target: create_fourier_amplitudes}, native=_native_ts,
    witness=[_wit_ts(c, fs, n) for c, fs, n in (("z", 2.0, 64), ("w", 0.5, 9), ("x", 10.0, 2000), ("u", 1.0, 128), ("v", 1.0, 16), ("y", 3.0, 33))],
)
if _os.environ.get("C16_TS_ONLY"):
    surface_timeseries.instances = [x for x in surface_timeseries.instances if x[0] in _os.environ["C16_TS_ONLY"].split(";")]


def _bounded_variance(tier, seed):
    """variance identities (Parseval for irfft), reproducibility, sqrt(c) scaling, cos^2/sin^2 split on the real functions"""
    import numpy as np
    from ocean_science_utilities.wavespectra.spectrum import create_1d_spectrum, create_2d_spectrum
    from ocean_science_utilities.wavespectra.timeseries import surface_timeseries as st_
    rng = np.random.default_rng(seed + 31)
    n = 5 if tier == "quick" else 40
    fails, samples, evals = [], [], 0

    def var_check(spec, fs, nlen, comp, sd, theta=None):
        t, z = st_(comp, fs, nlen, spec, seed=sd)
        nfft = (nlen // 2) * 2
        fgrid = np.linspace(0, 0.5 * fs, nfft // 2, endpoint=False)
        rs = spec.interpolate_frequency(fgrid)
        if theta is None:
            E = rs.variance_density.values
            area = rs.frequency_step.values
            e = E * area
        else:
            e = (rs.variance_density.values * rs.frequency_step.values[:, None] * rs.direction_step.values[None, :]).sum(axis=-1)
        w = 2 * np.pi * fgrid
        e[0] = 0.0
        target = {"z": e.sum(), "w": (w ** 2 * e).sum()}
        if theta is not None:
            c2, s2 = np.cos(theta) ** 2, np.sin(theta) ** 2
            target.update({"x": c2 * e.sum(), "y": s2 * e.sum(), "u": c2 * (w ** 2 * e).sum(), "v": s2 * (w ** 2 * e).sum()})
        ok = len(t) == len(z) == nfft and np.allclose(np.diff(t), 1.0 / fs)
        if comp in target:
            ok = ok and np.isclose(np.var(z), target[comp], rtol=2e-3, atol=1e-12)
        return ok, z
    for k in range(n):
        fs = float(rng.uniform(0.5, 10))
        nlen = int(rng.choice([8, 9, 64, 257, 1000, 4001, 20000]))
        nf = 40
        f = np.linspace(0.01, 0.45 * fs, nf)
        E1 = rng.random(nf) * np.exp(-((f - 0.15 * fs) / (0.08 * fs)) ** 2) + 1e-4
        s1 = create_1d_spectrum(f, E1[None, :], 0.0, 0.0, 0.0, depth=np.inf)
        s1 = s1.isel(time=0) if "time" in s1.dims else s1
        nd = 12
        d = np.linspace(0, 360, nd, endpoint=False) if k % 2 == 0 else np.array([0.0, 10, 20, 40, 80, 120, 180, 200, 260, 300, 330, 350])
        jb = int(rng.integers(0, nd))
        E2 = np.zeros((nf, nd))
        width = ((np.roll(d, -1) - d + 180.0) % 360.0 - 180.0)[jb]      # the spectrum's own bin width (uniform or not)
        E2[:, jb] = E1 / width
        s2 = create_2d_spectrum(f, d, E2[None, :, :], 0.0, 0.0, 0.0, depth=np.inf)
        s2 = s2.isel(time=0) if "time" in s2.dims else s2
        sd = int(rng.integers(0, 2 ** 32))
        for comp in ("z", "w"):
            evals += 1
            try:
                ok, z = var_check(s1, fs, nlen, comp, sd)
            except Exception as e:
                ok, z = False, None
                fails.append({"case": k, "kind": "1d", "component": comp, "what": f"raised {type(e).__name__}: {e}"[:200]})
                continue
            if not ok:
                fails.append({"case": k, "kind": "1d", "component": comp, "fs": fs, "n": nlen, "what": "length / spacing / variance mismatch"})
        theta = np.radians(d[jb])
        for comp in ("z", "w", "x", "y", "u", "v"):
            evals += 1
            try:
                ok, z = var_check(s2, fs, nlen, comp, sd, theta)
            except Exception as e:
                fails.append({"case": k, "kind": "2d", "component": comp, "what": f"raised {type(e).__name__}: {e}"[:200]})
                continue
            if not ok:
                fails.append({"case": k, "kind": "2d", "component": comp, "fs": fs, "n": nlen, "bin": jb, "what": "length / spacing / variance mismatch"})
        # energy at and beyond the Nyquist frequency fs/2, short records: the FFT grid k fs/nfft, k < nfft/2, excludes fs/2, so the
        # series must carry exactly the variance of the bins below it (added after seeded change C16-3 was first missed)
        fn = np.linspace(0.01, 0.75 * fs, nf)
        sn = create_1d_spectrum(fn, (1.0 + rng.random(nf))[None, :], 0.0, 0.0, 0.0, depth=np.inf)
        sn = sn.isel(time=0) if "time" in sn.dims else sn
        for nshort in (8, 9, 64):
            for comp in ("z", "w"):
                evals += 1
                try:
                    ok, z = var_check(sn, fs, nshort, comp, sd)
                except Exception as e:
                    fails.append({"case": k, "kind": "1d-nyquist", "component": comp, "what": f"raised {type(e).__name__}: {e}"[:200]})
                    continue
                if not ok:
                    fails.append({"case": k, "kind": "1d-nyquist", "component": comp, "fs": fs, "n": nshort, "what": "length / spacing / variance mismatch with energy at fs/2"})
        # reproducibility and scaling
        evals += 1
        for sdx in (0, 1, sd):
            _, z1 = st_("z", fs, nlen, s2, seed=sdx)
            _, z2 = st_("z", fs, nlen, s2, seed=sdx)
            _, z3 = st_("z", fs, nlen, s2, seed=sdx + 1)
            if not np.array_equal(z1, z2):
                fails.append({"case": k, "what": f"seed {sdx} is not reproducible"})
            if np.array_equal(z1, z3):
                fails.append({"case": k, "what": f"seeds {sdx} and {sdx + 1} give the same series"})
        s4 = s2.multiply(np.full(s2.shape(), 4.0))
        _, z4 = st_("z", fs, nlen, s4, seed=sd)
        _, z1 = st_("z", fs, nlen, s2, seed=sd)
        if not np.allclose(z4, 2.0 * z1, rtol=1e-9, atol=1e-12):
            fails.append({"case": k, "what": "scaling the spectrum by 4 does not scale the series by 2"})
        if len(samples) < 2:
            samples.append({"case": k, "fs": fs, "n": nlen, "bin": jb, "seed": sd})
    return {"evaluations": evals, "distinct": evals, "failures": fails[:6], "samples": samples,
            "domain": f"{n} random spectra x (1D: z,w; 2D single bin: all six components), sampling rates 0.5..10 Hz, lengths 8..20000 even and odd, seeds 0,1,random"}


def _bounded_parseval(tier, seed):
    """the assumed library contract of np.fft.irfft, as stated in this file, against numpy: for n even and len(a) == n/2,
    x = n*irfft(a, n):  sum x = n Re a_0,  sum x^2 = n (Re a_0^2 + sum_{k>=1} 2|a_k|^2)  (imaginary part of a_0 ignored, Nyquist bin zero-padded)"""
    import numpy as np
    rng = np.random.default_rng(seed + 77)
    fails, evals = [], 0
    for n in ([8, 10, 64, 250, 1024] if tier == "quick" else [8, 10, 12, 64, 250, 1024, 4096, 20000]):
        for rep in range(3 if tier == "quick" else 10):
            m = n // 2
            a = rng.normal(size=m) + 1j * rng.normal(size=m)
            y = np.fft.irfft(a, n=n)
            x = n * y
            evals += 1
            p = float((2 * np.abs(a[1:]) ** 2).sum())
            ok = (len(y) == n and np.isclose(x.sum(), n * a[0].real, rtol=1e-9, atol=1e-9)
                  and np.isclose((x ** 2).sum(), n * (a[0].real ** 2 + p), rtol=1e-9, atol=1e-9)
                  and np.isclose(np.var(x), p, rtol=1e-9, atol=1e-12))
            # without n: 2(len(a)-1) samples
            ok = ok and len(np.fft.irfft(a)) == 2 * (m - 1)
            if not ok:
                fails.append({"n": n, "rep": rep, "what": "Parseval statement for irfft(a, n) with len(a) == n/2 does not hold"})
    return {"evaluations": evals, "distinct": evals, "failures": fails[:5], "samples": [], "domain": "random complex amplitudes, n in 8..20000 even, len(a) = n/2"}


# ---------------------------------------------------------------- lemma: sqrt(c) scaling (over the specification of the amplitudes)
def _lemma_scaling():
    """scaling the (interpolated) densities by c >= 0 scales every amplitude term by sqrt(c):
    sqrt(area (c E) / 2) = sqrt(c) sqrt(area E / 2) for area E >= 0 — hence amplitudes, and by linearity of irfft the series, scale by sqrt(c)"""
    c, q = z3.Real("c"), z3.Real("q")          # q = area * E / 2
    s = lambda x: T.uf("sqrt", x)
    hyps = [c >= 0, q >= 0]
    goal = s(c * q) == s(c) * s(q)
    return hyps, goal


LEMMAS = [Lemma("scaling.sqrt_of_scaled_radicand_is_sqrt_c_times_sqrt_radicand", _lemma_scaling,
                "amplitude term of the spectrum scaled by c = sqrt(c) x amplitude term (the term is linear in sqrt(area E / 2))")]
BOUNDED = [Bounded("variance_reproducibility_scaling", _bounded_variance),
           Bounded("irfft_parseval_as_assumed", _bounded_parseval, "the assumed Parseval contract of np.fft.irfft checked against numpy")]
CONTRACTS = [frequency_step, create_fourier_amplitudes, surface_timeseries]
TRUSTED = ["np.fft.irfft(a, n) returns n real samples, 2(len(a)-1) when n is omitted; np.linspace(start, stop, num, endpoint=False)[k] = start + k (stop-start)/num",
           "ASSUMED (Parseval for numpy's irfft, only for n even and len(a) == n/2, i.e. zero-padded Nyquist coefficient, imaginary part of a_0 ignored): with x_t = n*irfft(a, n)_t, "
           "sum_t x_t = n Re a_0 and sum_t x_t^2 = n (Re a_0^2 + sum_{k=1}^{n/2-1} 2|a_k|^2); checked numerically by C16.bounded.irfft_parseval_as_assumed",
           "ASSUMED np.random.default_rng(seed).uniform(lo, hi, shape): the d-th draw is an (uninterpreted) function of (seed, d, index) — identical seeds give identical phases; nothing about its range or about different seeds",
           "ASSUMED callee: spectrum.interpolate_frequency(f) returns a spectrum of the same class on the requested frequency grid, same directions, no missing densities (values unconstrained; C13)",
           "complex arithmetic of pyvc/models/cplx.py (pairs of reals; exp(ix) = cos x + i sin x; a DataArray without missing values times a complex array acts through its values)",
           "WaveSpectrum.frequency_step is verified here; FrequencyDirectionSpectrum.direction_step is verified in C01 and used at the call site"]
EXPLANATION = ("surface_timeseries proved to return as many samples as time stamps (nfft = 2 floor(n/2)), spaced 1/fs, with the amplitudes requested on the FFT grid k fs/nfft for the caller's component, spectrum and seed; "
               "create_fourier_amplitudes is under contract: per frequency amp_k = sqrt(area_k E_k / 2) e^{i phi_k} factor_k (1D, six components; 2D z and w as the sum over directions with area = frequency_step x direction_step "
               "of the interpolated spectrum), |amp_k|^2 = area_k E_k |factor_k|^2 / 2, phases a function of the seed (identical seeds => identical amplitudes); with Parseval for irfft as a stated library assumption the 1D series has "
               "mean Re a_0 (six components) and sample variance sum_{k>=1} area_k E_k |factor_k|^2 (z, x: sum E df; v, y: 0; the w/u instances sum w^2 E df time out and stay bounded) whenever no radicand is negative; sqrt(c) scaling of every amplitude term is a lemma. "
               "Bounded: 'differs between seeds', 2D u/v/x/y amplitudes and the unidirectional cos^2/sin^2 split, and all identities again on the real functions")
