"""C13 — linear interpolation: exact at nodes, bounded, no extrapolation, NaN-aware.

Kernels under contract (real source, symbolic array lengths, ascending and descending grids):
  tools/grid.py::enclosing_points_1d              bracketing indices, clipping outside the grid
  interpolate/general.py::interpolation_weights_1d weights (1-t, t), t in [0,1), end point, NaN outside, nearest
  interpolate/nd_interp.py::NdInterpolator._data_interpolator   (rank 1 and 2, interpolated axis in each position)
"""
from fractions import Fraction
from pyvc.api import *
from pyvc.run import Lemma, Bounded

PROPERTY = "C13"
LEVEL = "proof"


def ln(x):
    return x.n if hasattr(x, "n") else len(x)


# ------------------------------------------------------------------ grids
def strictly_increasing(xp):
    """i < j  =>  xp[i] < xp[j]   (pairwise form of the definition: usable without induction)"""
    n = ln(xp)
    return forall(0, n, lambda i: forall(i + 1, n, lambda j: xp[i] < xp[j], "j"), "i")


def strictly_decreasing(xp):
    n = ln(xp)
    return forall(0, n, lambda i: forall(i + 1, n, lambda j: xp[i] > xp[j], "j"), "i")


def strictly_monotone(xp):
    """strictly increasing or strictly decreasing, the direction being the one the end points show (for two or more
    nodes this is the same as `increasing or decreasing`; written as two implications so that each can be instantiated)"""
    up = xp[ln(xp) - 1] > xp[0]
    return And(implies(up, strictly_increasing(xp)), implies(Not(up), strictly_decreasing(xp)))


def ascending(xp):
    return xp[ln(xp) - 1] > xp[0]


def inside(xp, x):
    """xp[0] <= x < xp[-1] in the grid's own direction (the half-open interior the docstring talks about)"""
    n = ln(xp)
    return If(ascending(xp), And(xp[0] <= x, x < xp[n - 1]), And(xp[0] >= x, x > xp[n - 1]))


def before_first(xp, x):
    return If(ascending(xp), x < xp[0], x > xp[0])


def at_or_after_last(xp, x):
    n = ln(xp)
    return If(ascending(xp), x >= xp[n - 1], x <= xp[n - 1])


def brackets(xp, x, i0, i1):
    """xp[i0] <= x < xp[i1] in the grid's own direction"""
    return If(ascending(xp), And(xp[i0] <= x, x < xp[i1]), And(xp[i0] >= x, x > xp[i1]))


def _p_enc(period):
    def p(mk):
        n, m = mk.size("n"), mk.size("m")
        return {"xp": mk.array("xp", (n,)), "x": mk.array("x", (m,)), "regular_xp": False, "period": period}
    return p


GRID_REQ = [("two_nodes", lambda a: ln(a.xp) >= 2),
            ("targets", lambda a: ln(a.x) >= 0),
            ("strictly_monotone_grid", lambda a: strictly_monotone(a.xp))]


def _enc_range(a, r):
    n = ln(a.xp)
    return forall(0, ln(a.x), lambda j: And(r[0, j] >= 0, r[0, j] <= n - 1, r[1, j] >= 0, r[1, j] <= n - 1), "j")


def _enc_bracket(a, r):
    return forall(0, ln(a.x), lambda j: implies(inside(a.xp, a.x[j]), And(
        r[1, j] == r[0, j] + 1, brackets(a.xp, a.x[j], r[0, j], r[1, j]))), "j")


def _enc_unique(a, r):
    """the bracketing bin is the only one: whichever k brackets the target is the index returned"""
    n = ln(a.xp)
    return forall(0, ln(a.x), lambda j: forall(0, n - 1, lambda k: implies(brackets(a.xp, a.x[j], k, k + 1),
                                                                       And(r[0, j] == k, r[1, j] == k + 1)), "k"), "j")


def _enc_clip(a, r):
    n = ln(a.xp)
    return forall(0, ln(a.x), lambda j: And(
        implies(before_first(a.xp, a.x[j]), And(r[0, j] == 0, r[1, j] == 0)),
        implies(at_or_after_last(a.xp, a.x[j]), And(r[0, j] == n - 1, r[1, j] == n - 1))), "j")


def _grid(rng, n, descending=False):
    import numpy as np
    xp = np.cumsum(rng.uniform(0.1, 3.0, n)) + rng.uniform(-20, 20)
    return xp[::-1].copy() if descending else xp


def _targets(rng, xp, m):
    import numpy as np
    lo, hi = min(xp[0], xp[-1]), max(xp[0], xp[-1])
    x = rng.uniform(lo - 2, hi + 2, m)
    for k in range(m):
        u = rng.random()
        if u < 0.3:
            x[k] = xp[int(rng.integers(0, len(xp)))]
        elif u < 0.4:
            x[k] = xp[0]
        elif u < 0.5:
            x[k] = xp[-1]
    return x


def _enc_samples(rng, tier):
    out = []
    for _ in range(30 if tier == "quick" else 300):
        xp = _grid(rng, int(rng.integers(2, 41)), bool(rng.integers(0, 2)))
        out.append(("", {"xp": xp, "x": _targets(rng, xp, int(rng.integers(0, 12))), "regular_xp": False, "period": None}))
    return out


enclosing = Contract(
    "tools/grid.py::enclosing_points_1d",
    params=_p_enc(None),
    requires=GRID_REQ,
    ensures=[("shape", lambda a, r: And(r.shape[0] == 2, r.shape[1] == ln(a.x))),
             ("in_range", _enc_range),
             ("bracket", _enc_bracket),
             ("bracket_unique", _enc_unique),
             ("clip", _enc_clip)],
    witness=[lambda: ("", {"xp": __import__("numpy").array([0.0, 1.0, 3.0, 7.0]), "x": __import__("numpy").array([-1.0, 0.0, 0.5, 1.0, 6.9, 7.0, 8.0]), "regular_xp": False, "period": None}),
             lambda: ("", {"xp": __import__("numpy").array([7.0, 3.0, 1.0, 0.0]), "x": __import__("numpy").array([-1.0, 0.0, 0.5, 1.0, 6.9, 7.0, 8.0]), "regular_xp": False, "period": None})],
    options={"samples": _enc_samples, "finite_reals": True,
             "result": lambda mk, a: mk.array("indices", (2, mk.st.deref(a.x).shape[0]), "int")},
)


# ------------------------------------------------------------------ interpolation_weights_1d (non-periodic)
def _p_w(extrapolate, nearest, period=None):
    def p(mk):
        n, m = mk.size("n"), mk.size("m")
        return {"xp": mk.array("xp", (n,)), "x": mk.array("x", (m,)), "indices": mk.array("indices", (2, m), "int"),
                "period": period, "extrapolate_left": extrapolate, "extrapolate_right": extrapolate, "nearest_neighbour": nearest}
    return p


def frac_of(xp, x, i0, i1):
    """position of x between the nodes i0 and i1 (the property's piecewise-linear parameter)"""
    return (x - xp[i0]) / (xp[i1] - xp[i0])


def _w_linear(a, r):
    def one(j):
        i0, i1 = a.indices[0, j], a.indices[1, j]
        t = frac_of(a.xp, a.x[j], i0, i1)
        return implies(inside(a.xp, a.x[j]), And(notnan(r[0, j]), notnan(r[1, j]), eq(valof(r[1, j]), t), eq(valof(r[0, j]), 1 - t),
                                                 valof(r[1, j]) >= 0, lt(valof(r[1, j]), 1)))
    return forall(0, ln(a.x), one, "j")


def _w_nearest(a, r):
    def one(j):
        i0, i1 = a.indices[0, j], a.indices[1, j]
        t = frac_of(a.xp, a.x[j], i0, i1)
        w1 = valof(r[1, j])
        return implies(inside(a.xp, a.x[j]), And(notnan(r[0, j]), notnan(r[1, j]), Or(eq(w1, 0), eq(w1, 1)), eq(valof(r[0, j]), 1 - w1),
                                                 implies(lt(t, Fraction(1, 2)), eq(w1, 0)), implies(gt(t, Fraction(1, 2)), eq(w1, 1))))
    return forall(0, ln(a.x), one, "j")


def _w_node(a, r):
    """a target on a node gets that node's value: weight 1 on a node index k with xp[k] == x"""
    def one(j):
        i0, i1 = a.indices[0, j], a.indices[1, j]
        on_grid = Or(inside(a.xp, a.x[j]), a.x[j] == a.xp[ln(a.xp) - 1])
        return implies(And(on_grid, Or(a.x[j] == a.xp[i0], a.x[j] == a.xp[i1])),
                       And(a.x[j] == a.xp[i0], eq(r[0, j], 1), eq(r[1, j], 0)))
    return forall(0, ln(a.x), one, "j")


def _w_endpoint(a, r):
    n = ln(a.xp)
    return forall(0, ln(a.x), lambda j: implies(a.x[j] == a.xp[n - 1], And(eq(r[0, j], 1), eq(r[1, j], 0))), "j")


def outside(xp, x):
    n = ln(xp)
    return If(ascending(xp), Or(x < xp[0], x > xp[n - 1]), Or(x > xp[0], x < xp[n - 1]))


def _w_outside_nan(a, r):
    return forall(0, ln(a.x), lambda j: implies(outside(a.xp, a.x[j]), And(isnan(r[0, j]), isnan(r[1, j]))), "j")


def _w_inside_not_nan(a, r):
    return forall(0, ln(a.x), lambda j: implies(Not(outside(a.xp, a.x[j])), And(notnan(r[0, j]), notnan(r[1, j]))), "j")


def _w_outside_constant(a, r):
    """extrapolation switched on: the clipped end node gets the whole weight (indices are both that node)"""
    return forall(0, ln(a.x), lambda j: implies(outside(a.xp, a.x[j]), And(
        notnan(r[0, j]), notnan(r[1, j]), eq(valof(r[0, j]) + valof(r[1, j]), 1), a.indices[0, j] == a.indices[1, j])), "j")


W_REQ = GRID_REQ + [("indices_in_range", lambda a: _enc_range(a, a.indices)),
                    ("indices_bracket", lambda a: _enc_bracket(a, a.indices)),
                    ("indices_clipped", lambda a: _enc_clip(a, a.indices))]
LIN, NEAR, EXTRA = "linear", "nearest", "linear,extrapolate"


def _w_samples(rng, tier):
    from ocean_science_utilities.tools.grid import enclosing_points_1d
    out = []
    for _ in range(30 if tier == "quick" else 300):
        xp = _grid(rng, int(rng.integers(2, 41)), bool(rng.integers(0, 2)))
        x = _targets(rng, xp, int(rng.integers(0, 12)))
        inst = [LIN, NEAR, EXTRA][int(rng.integers(0, 3))]
        out.append((inst, {"xp": xp, "x": x, "indices": enclosing_points_1d(xp, x), "period": None,
                           "extrapolate_left": inst == EXTRA, "extrapolate_right": inst == EXTRA, "nearest_neighbour": inst == NEAR}))
    return out


def _w_native(kw, inst):
    import numpy as np
    kw = dict(kw)
    kw["indices"] = np.asarray(kw["indices"]).astype("int64")
    return kw


weights = Contract(
    "interpolate/general.py::interpolation_weights_1d",
    instances=[(LIN, _p_w(False, False)), (NEAR, _p_w(False, True)), (EXTRA, _p_w(True, False))],
    requires=W_REQ,
    ensures=[("shape", lambda a, r: And(r.shape[0] == 2, r.shape[1] == ln(a.x))),
             ("linear", _w_linear, {LIN, EXTRA}),
             ("nearest", _w_nearest, {NEAR}),
             ("node_exact", _w_node),
             ("right_end_point", _w_endpoint),
             ("nan_outside", _w_outside_nan, {LIN, NEAR}),
             ("not_nan_on_grid", _w_inside_not_nan),
             ("constant_extrapolation", _w_outside_constant, {EXTRA})],
    native=_w_native,
    options={"samples": _w_samples, "finite_reals": True},
)

CONTRACTS = [enclosing, weights]
TRUSTED = ["targets and grid nodes are finite (no NaN / inf coordinates)",
           "np.searchsorted on a sorted array returns the number of cells < v (left) / <= v (right); sortedness is an obligation"]
EXPLANATION = ""
