"""C03 — mean/peak direction and spread follow their definitions."""
from pyvc.api import *
from pyvc.run import Lemma, Bounded
from contracts.spec_common import *
import contracts.C01 as C01
from contracts.C01 import (e_of, moment_spec, frequency_moment, e_2d, direction_step, _result_xa, _shape_e, _shape_p, _native,
                           _wit_spectra, REQ, _p_band, BAND_INST, _wit_band)
from contracts.C02 import a1_c, b1_c, a2_c, b2_c, moment_num, MOMENTS
import pyvc.models.xr   # noqa

PROPERTY = "C03"
LEVEL = "proof"
DEG = lambda x: x * 180 / T.PI


def _xa_param(mk, name, shape, dims):
    return xr.mk_xa(mk.st, dims, mk.st.deref(mk.array(name, shape)), None, {})


def _p_ab(mk):
    n, m = mk.size("np"), mk.size("nf")
    return {"a1": _xa_param(mk, "a1", (n, m), (P, NAME_F)), "b1": _xa_param(mk, "b1", (n, m), (P, NAME_F))}


def _vals2(x):
    if hasattr(x, "_o"):
        return lambda p, i: x.arr[p, i]
    import numpy as np
    v = np.asarray(x.values if hasattr(x, "values") else x, dtype="float64")
    return lambda p, i: float(v[p, i])


def direction_of(a, b):
    if is_symbolic(a, b):
        return T.uf2("arctan2", b, a) * 180 / T.PI
    import math
    return math.atan2(b, a) * 180 / math.pi


def spread_of(a, b):
    if is_symbolic(a, b):
        return T.uf("sqrt", 2 - 2 * T.uf("sqrt", a * a + b * b)) * 180 / T.PI
    import math
    return math.sqrt(max(2 - 2 * math.sqrt(a * a + b * b), 0.0)) * 180 / math.pi


def _shape2(a):
    x = a.a1
    if hasattr(x, "_o"):
        return x.arr.shape
    return x.shape


def _wit_ab():
    import numpy as np
    import xarray
    rng = np.random.default_rng(2)
    r = np.sqrt(rng.random((3, 5)))
    t = rng.uniform(-np.pi, np.pi, (3, 5))
    return ("", {"a1": xarray.DataArray(r * np.cos(t), dims=["time", "frequency"]), "b1": xarray.DataArray(r * np.sin(t), dims=["time", "frequency"])})


mean_direction_static = Contract(
    S + "WaveSpectrum._mean_direction", params=_p_ab,
    requires=[("dims", lambda a: And(_shape2(a)[0] >= 0, _shape2(a)[1] >= 0))],
    ensures=[("atan2_in_degrees", lambda a, r: forall2((0, _shape2(a)[0]), (0, _shape2(a)[1]), lambda p, i: eq(
                 _vals2(r)(p, i), direction_of(_vals2(a.a1)(p, i), _vals2(a.b1)(p, i)), rtol=1e-9, atol=1e-9))),
             ("range", lambda a, r: forall2((0, _shape2(a)[0]), (0, _shape2(a)[1]), lambda p, i: And(_vals2(r)(p, i) >= -180, _vals2(r)(p, i) <= 180)))],
    witness=[_wit_ab],
    options={"native_call": lambda kw, inst: __import__("ocean_science_utilities.wavespectra.spectrum", fromlist=["x"]).WaveSpectrum._mean_direction(**kw)},
)

spread_static = Contract(
    S + "WaveSpectrum._spread", params=_p_ab,
    requires=[("dims", lambda a: And(_shape2(a)[0] >= 0, _shape2(a)[1] >= 0)),
              ("unit_disc", lambda a: forall2((0, _shape2(a)[0]), (0, _shape2(a)[1]), lambda p, i:
                                             _vals2(a.a1)(p, i) * _vals2(a.a1)(p, i) + _vals2(a.b1)(p, i) * _vals2(a.b1)(p, i) <= 1))],
    ensures=[("definition", lambda a, r: forall2((0, _shape2(a)[0]), (0, _shape2(a)[1]), lambda p, i: eq(
                 _vals2(r)(p, i), spread_of(_vals2(a.a1)(p, i), _vals2(a.b1)(p, i)), rtol=1e-9, atol=1e-9))),
             ("range", lambda a, r: forall2((0, _shape2(a)[0]), (0, _shape2(a)[1]), lambda p, i: And(_vals2(r)(p, i) >= 0, _vals2(r)(p, i) <= Fraction(8103, 100))))],
    witness=[_wit_ab],
    options={"native_call": lambda kw, inst: __import__("ocean_science_utilities.wavespectra.spectrum", fromlist=["x"]).WaveSpectrum._spread(**kw)},
)


# ---- band averages
def moment_of(sp, name, p, i):
    """the directional moment at frequency i: a stored variable (1D) or the weighted directional sum over e (2D)"""
    if not sp.two_d:
        return sp.var(name, p, i), sp.var_nan(name, p, i)
    fn, mult = MOMENTS[name]
    return moment_num(sp, p, i, fn, mult) / e_of(sp, p, i), False


def weighted_spec(sp, name, p, fmin, fmax):
    """trapezoid of fill0(moment)*e over the band, divided by m0 of the band"""
    f = sp.f

    def g(i):
        m, n = moment_of(sp, name, p, i)
        return fill0(m, n) * e_of(sp, p, i)

    def term(i):
        t = (g(i) + g(i + 1)) / 2 * (f[i + 1] - f[i])
        return If(And(in_band(f, i, fmin, fmax), in_band(f, i + 1, fmin, fmax)), t, 0)
    return Sum(0, sp.nf - 1, term) / moment_spec(sp, p, 0, fmin, fmax)


def _p_band1d(fmax_inf=False):
    def p(mk):
        return {"self": spectrum(mk, "1d", nan=False), "fmin": mk.real("fmin"), "fmax": T.INF if fmax_inf else mk.real("fmax")}
    return p


def _mean_moment_contract(name):
    def post(a, r):
        sp = Spec(a.self)
        val, isnan = result_values(r)
        return forall(0, sp.np_, lambda p: implies(Not(eq(moment_spec(sp, p, 0, a.fmin, a.fmax), 0, rtol=0, atol=0)),
                                                 eq(val(p), weighted_spec(sp, name, p, a.fmin, a.fmax), rtol=1e-9, atol=1e-12)), "p")
    return Contract(S + "WaveSpectrum.mean_" + name, instances=[("1d,band", _p_band1d(False)), ("1d,fmax=inf", _p_band1d(True))], requires=REQ,
                    ensures=[("energy_weighted_band_average", post)], native=_native,
                    callees={frequency_moment.target: frequency_moment},
                    witness=[lambda: ("1d,band", {"self": _wit_clean(), "fmin": 0.04, "fmax": 0.46})],
                    options={"result": _result_xa("mean_" + name, (P,), _shape_p)})


def _wit_clean():
    import numpy as np
    from ocean_science_utilities.wavespectra.spectrum import create_1d_spectrum
    rng = np.random.default_rng(11)
    f = np.array([0.03, 0.05, 0.08, 0.1, 0.15, 0.22, 0.3, 0.45, 0.5, 0.8])
    E = rng.random((3, len(f))) + 0.01
    r = np.sqrt(rng.random(E.shape)) * 0.9
    t = rng.uniform(-np.pi, np.pi, E.shape)
    return create_1d_spectrum(f, E, np.arange(3) * 3600, np.zeros(3), np.zeros(3), a1=r * np.cos(t), b1=r * np.sin(t),
                              a2=rng.uniform(-0.5, 0.5, E.shape), b2=rng.uniform(-0.5, 0.5, E.shape), depth=np.array([10.0, np.nan, np.inf]))


mean_a1, mean_b1, mean_a2, mean_b2 = (_mean_moment_contract(n) for n in ("a1", "b1", "a2", "b2"))


# mean direction / spread are _mean_direction / _spread applied to the band averages: stated against the
# callees' results (modular); together with the contracts of mean_a1 / mean_b1 and of the two static
# functions this is the statement's formula
_LAST = {}


def _capturing(contract, key):
    import copy
    c = copy.copy(contract)
    c.options = dict(contract.options)
    inner = contract.options["result"]

    def res(mk, a):
        r = inner(mk, a)
        mk.st.ghost["mean_" + key] = mk.st.deref(r).fields["arr"]
        mk.st.ghost["mean_" + key + "_band"] = (mk.st.deref(a.fmin), mk.st.deref(a.fmax))
        return r
    c.options["result"] = res
    return c


def _dir_post(fn):
    def post(a, r):
        sp = Spec(a.self)
        val, isnan = result_values(r)
        if hasattr(r, "_o"):
            A, B = a._ghost["mean_a1"], a._ghost["mean_b1"]

            def same(x, y):
                if T._is_inf(x) or T._is_inf(y):
                    return T._is_inf(x) and T._is_inf(y)
                return eq(x, y)
            bands = And(*[And(same(a._ghost[k][0], a.fmin), same(a._ghost[k][1], a.fmax)) for k in ("mean_a1_band", "mean_b1_band")])
            return And(bands, forall(0, sp.np_, lambda p: eq(val(p), fn(A.get((p,)), B.get((p,)))), "p"))
        return forall(0, sp.np_, lambda p: implies(Not(eq(moment_spec(sp, p, 0, a.fmin, a.fmax), 0, rtol=0, atol=0)), eq(
            val(p), fn(weighted_spec(sp, "a1", p, a.fmin, a.fmax), weighted_spec(sp, "b1", p, a.fmin, a.fmax)), rtol=1e-9, atol=1e-9)), "p")
    return post


BAND1D = [("1d,band", _p_band1d(False)), ("1d,fmax=inf", _p_band1d(True))]
_ma1, _mb1 = _capturing(mean_a1, "a1"), _capturing(mean_b1, "b1")
MEAN_CALLEES = {mean_a1.target: _ma1, mean_b1.target: _mb1, frequency_moment.target: frequency_moment}
mean_direction = Contract(S + "WaveSpectrum.mean_direction", instances=BAND1D, requires=REQ, ensures=[("atan2_of_band_averages", _dir_post(direction_of))],
                          native=_native, callees=MEAN_CALLEES, witness=[lambda: ("1d,band", {"self": _wit_clean(), "fmin": 0.04, "fmax": 0.46})])
mean_spread = Contract(S + "WaveSpectrum.mean_directional_spread", instances=BAND1D, requires=REQ, ensures=[("spread_of_band_averages", _dir_post(spread_of))],
                       native=_native, callees=MEAN_CALLEES, witness=[lambda: ("1d,band", {"self": _wit_clean(), "fmin": 0.04, "fmax": 0.46})])


# ---- per-frequency variants
def _perfreq(name, fn):
    def post(a, r):
        sp = Spec(a.self)
        get = _vals2(r)
        return forall(0, sp.np_, lambda p: forall(0, sp.nf, lambda i: implies(
            And(Not(sp.var_nan("a1", p, i)), Not(sp.var_nan("b1", p, i))), eq(get(p, i), fn(sp.var("a1", p, i), sp.var("b1", p, i)), rtol=1e-9, atol=1e-9)), "i"), "p")
    return Contract(S + "WaveSpectrum." + name, params=lambda mk: {"self": spectrum(mk, "1d")}, requires=REQ[1:],
                    ensures=[("definition_at_every_frequency", post)], native=_native,
                    witness=[lambda: ("", {"self": _wit_clean()})],
                    options={"native_call": lambda kw, inst, name=name: getattr(kw["self"], name)})


dir_per_f = _perfreq("mean_direction_per_frequency", direction_of)
spread_per_f = _perfreq("mean_spread_per_frequency", spread_of)

def _bounded_rotation_laws(tier, seed):
    """rotation by whole bins shifts every direction parameter by that angle (mod 360), mirroring negates it; spread, Hm0,
    periods and peak frequency are unchanged (the cyclic-shift lemmas over the directional sums are not mechanised)"""
    import numpy as np
    from ocean_science_utilities.wavespectra.spectrum import create_2d_spectrum
    rng = np.random.default_rng(seed + 17)
    fails, samples, evals = [], [], 0
    Ns = [8, 36] if tier == "quick" else [8, 12, 24, 36, 72, 144]
    f = np.array([0.04, 0.06, 0.09, 0.12, 0.16, 0.22, 0.3, 0.41, 0.55])

    def wrapd(x):
        return (x + 180.0) % 360.0 - 180.0
    for N in Ns:
        d = np.linspace(0, 360, N, endpoint=False)
        E = rng.random((2, len(f), N)) * (rng.random((2, len(f), N)) > 0.3)
        E[:, 3, :] += 2.0 * np.cos(np.radians(d - rng.uniform(0, 360)) / 2) ** 6      # a dominant peak

        def spec(Ea):
            return create_2d_spectrum(f, d, Ea, np.arange(2) * 3600.0, np.zeros(2), np.zeros(2), depth=np.full(2, np.inf))

        def params(s):
            return {"md": s.mean_direction().values, "pd": s.peak_direction().values, "mdb": s.mean_direction(0.05, 0.35).values,
                    "ms": s.mean_directional_spread().values, "ps": s.peak_directional_spread().values, "hm0": s.hm0().values,
                    "tm01": s.tm01().values, "tm02": s.tm02().values, "fp": s.peak_frequency().values}
        base = params(spec(E))
        ks = list(range(N)) if (tier != "quick" or N <= 8) else [0, 1, 5, N // 2, N - 1]
        for k in ks + ["mirror"]:
            evals += 1
            if k == "mirror":
                idx, sgn, shift = (-np.arange(N)) % N, -1.0, 0.0
            else:
                idx, sgn, shift = (np.arange(N) - k) % N, 1.0, k * 360.0 / N
            cur = params(spec(E[:, :, idx]))
            ok = all(np.all(np.abs(wrapd(cur[q] - (sgn * base[q] + shift))) < 1e-6) for q in ("md", "pd", "mdb"))
            ok = ok and all(np.allclose(cur[q], base[q], rtol=1e-9, atol=1e-9) for q in ("ms", "ps", "hm0", "tm01", "tm02", "fp"))
            ok = ok and np.all(cur["md"] >= -180 - 1e-9) and np.all(cur["md"] <= 180 + 1e-9) and np.all(cur["ms"] >= 0) and np.all(cur["ms"] <= 81.03)
            if not ok:
                fails.append({"N": N, "k": k, "what": "direction parameters do not rotate / mirror with the sea, or an invariant parameter changed"})
        if len(samples) < 2:
            samples.append({"N": N, "rotations": [str(x) for x in ks[:6]]})
    return {"evaluations": evals, "distinct": evals, "failures": fails[:6], "samples": samples,
            "domain": f"uniform direction grids N in {Ns}, random non-negative 2D spectra with zero bins, rotations k and the mirror image; mean/peak/band direction, spread, Hm0, Tm01, Tm02, fp"}


BOUNDED = [Bounded("rotation_and_mirror_laws", _bounded_rotation_laws)]

# ---- rotation / mirror laws as spec-level lemmas (contracts/rotation_lemmas.py, built on the finite-sum permutation lemmas of
# contracts/sum_lemmas.py): they speak about the spec functions e_of / moment_num / direction_of / spread_of that the contracts of
# C01-C03 prove the code to compute; the bounded check above stays as a second line on the real code
from contracts.rotation_lemmas import rotation_theory
ROTATION = rotation_theory(direction_of, spread_of)
LEMMAS = ROTATION["lemmas"]

CONTRACTS = [mean_direction_static, spread_static, mean_a1, mean_b1, mean_a2, mean_b2, mean_direction, mean_spread, dir_per_f, spread_per_f]
TRUSTED = ["xarray library contracts of pyvc/models/xr.py; np.trapezoid = trapezoid rule along the last axis",
           "arctan2 in [-pi, pi] and sqrt facts of the A-table; pi between 3.14159265 and 3.14159266",
           "induction over the integers (each induction lemma is a base / step pair of obligations; the principle itself is the meta-level step)",
           "instantiation of a proved lemma (substitution of terms for its constants and of lambda bodies for its function symbols: contracts/sum_lemmas.py::inst_subst)"] + \
          ["trusted identity (A-table, second part; used only in the rotation / mirror lemmas): " + t for t in ROTATION["trusted"]]
EXPLANATION = ("direction = atan2(B,A) and spread = sqrt(2-2 sqrt(A^2+B^2)) in degrees with their ranges, the energy-weighted band averages of a1,b1,a2,b2 and the "
               "per-frequency variants proved from the real methods. Rotation / mirror laws: proved as spec-level lemmas about the spec functions the contracts of "
               "C01-C03 tie the code to (e_of, C02's moment sums, direction_of, spread_of) on a uniform direction grid theta_j = theta_0 + j D, N D = 360: for "
               "E'[f,j] = E[f,(j-k) mod N], e'(f) = e(f), A' = A cos(kD) - B sin(kD), B' = A sin(kD) + B cos(kD) for the directional sums A, B at every frequency, hence "
               "A'^2 + B'^2 = A^2 + B^2 (spread unchanged) and direction' = direction + kD + 360 n; mirror image (theta_0 = 0): e' = e, A' = A, B' = -B, direction' = -direction "
               "modulo 360, spread unchanged. They rest on a cyclic-shift and a mirror lemma for finite sums proved by induction over the Sum operator's schemas "
               "(contracts/sum_lemmas.py: range split, index shift, reversal, split-first, linearity) and on trusted cos/sin/arctan2 identities listed in the trusted base. "
               "Not mechanised: the step from the per-frequency sums to the band averages (linearity of the trapezoid in (A(f), B(f)) -- every quantity that reads only e(f): "
               "m0, Hm0, periods, peak frequency, is unchanged because e' = e pointwise) and the code-level composition for a rotated *input object*; the bounded check on "
               "the real code stays as the second line")
