import json
props = {}
for l in open('/verif/properties.jsonl'):
    p = json.loads(l); props[p['id']] = p
import importlib, sys, os
sys.path.insert(0, '/verif')
claimed = json.load(open('/verif/claims.json'))
checks = []
for pid, c in sorted(claimed["claimed"].items()):
    checks.append({
        "property_id": pid,
        "quick_cmd": f"./check {pid} --tier quick",
        "thorough_cmd": f"./check {pid} --tier thorough",
        "evidence_file": f"/verif/evidence/{pid}.json",
        "replay_cmd_template": f"./check {pid} --replay {{path}}",
        "engine": "pyvc",
        "level_claimed": {"category": c["category"], "text": c["text"], "design_ref": c.get("design_ref", "DESIGN.md §3 " + pid)},
        "level_note": c["note"],
        "technique": c["technique"],
    })
na = [{"property_id": pid, "reason": claimed["not_applicable"].get(pid, "not yet brought under contract in this build; see DESIGN.md §8 (status)")}
      for pid in sorted(props) if pid not in claimed["claimed"]]
m = {
 "version": 1,
 "setup_cmd": "./setup.sh",
 "hooks": {"guard": "OSU_VERIF", "enable": "no source hooks: contracts are sidecar files under /verif/contracts, the real source is parsed from $OSU_REPO on every run", "baseline_off_cmd": "cd /repo && /venv/bin/python -m pytest -ra -q -p no:cacheprovider --timeout=900 --continue-on-collection-errors", "source_commits": [], "add_only": True},
 "engines": [{"name": "pyvc", "path": "/verif/pyvc", "serves_properties": sorted(claimed["claimed"]), "kind_free_text": "contract-based deductive verification: VC generation by symbolic execution of the real Python source (ast) against sidecar contracts, obligations discharged by z3 5.1 (cvc5 for z3's unknowns); counterexamples replayed on the real code"}],
 "checks": checks,
 "notes": claimed.get("notes", ""),
 "not_applicable": na,
}
json.dump(m, open('/verif/MANIFEST.json', 'w'), indent=1)
import jsonschema
jsonschema.validate(m, json.load(open('/root/.vp/MANIFEST.schema.json')))
print("manifest ok", len(checks), "claimed", len(na), "not applicable")
