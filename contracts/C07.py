"""C07 — dispersion relation, phase/group velocity, conditional contract of the Newton inverse.

Proved (for all array lengths, all k>0, finite depth d>0, g>0; floats as reals):
  * intrinsic_dispersion_relation / phase_velocity compute sqrt(g k tanh(k d)) (/k);
  * the group/phase ratio lies in [1/2, 1] and is within 2e-3 (relative) of 1/2 + kd/sinh(2kd), the
    ratio of d(omega)/dk to omega/k; hence |cg - d(omega)/dk| <= 2e-3 d(omega)/dk and c/2 <= cg <= c;
  * inverse_intrinsic_dispersion_relation: whenever the Newton loop is left through its convergence exit,
    every element of the returned k satisfies |sqrt(g k tanh(k d)) - w| < tolerance*w (the residual is the
    residual *of the returned estimate*, normalised by the element's own w).
Bounded (never counted as proved): that the convergence exit is always taken (a convergence theorem about
tanh), positivity, monotonicity and the two limits, on the compiled function over a stated grid."""
from fractions import Fraction
from pyvc.api import *
from pyvc.run import Lemma, Bounded
import pyvc.models.numba_types  # noqa: F401  (model of numba.types.number_domain used by atleast_1d)

PROPERTY = "C07"
LEVEL = "other"
F = "wavetheory/lineardispersion.py::"
GRAV = 9.81
TIMEOUT_MS = {"quick": 12000, "thorough": 60000}   # pristine tree: every obligation < 4 s


def _n(x):
    return x.n if hasattr(x, "n") else len(x)


def _q(p, q, *like):
    """rational constant: exact in the proof, float in the executable twin"""
    return Fraction(p, q) if is_symbolic(*like) else p / q


def _sinh(x):
    if is_symbolic(x):
        return sinh(x)
    import numpy as np
    with np.errstate(over="ignore"):
        return float(np.sinh(np.float64(x)))


def omega(k, d, g):
    """the dispersion relation of the statement"""
    if not is_symbolic(k, d, g):
        import numpy as np
        return float(np.sqrt(g * k * np.tanh(k * d)))
    return sqrt(g * k * tanh(k * d))


def exact_ratio(kd):
    """(d omega / dk) / (omega / k) = 1/2 + kd / sinh(2 kd)"""
    return _q(1, 2, kd) + kd / _sinh(2 * kd)


def _p_kd(kname="k", dname="depth"):
    def p(mk):
        n = mk.size("n")
        return {kname: mk.array("k", (n,)), dname: mk.real("depth"), "grav": mk.real("grav")}
    return p


def _pos(kname="k", dname="depth"):
    return [("positive", lambda a: And(_n(a[kname]) >= 0, a[dname] > 0, a.grav > 0,
                                       forall(0, _n(a[kname]), lambda i: a[kname][i] > 0)))]


def _res_like(name, argname):
    return lambda mk, a: mk.array(name, mk.st.deref(a[argname]).shape)


def _native_kd(kw, inst):
    import numpy as np
    out = dict(kw)
    for key in ("k", "angular_frequency"):
        if key in out:
            out[key] = np.atleast_1d(np.asarray(out[key], dtype="float64"))
    for key in ("dep", "depth", "grav"):
        if key in out:
            out[key] = float(out[key])
    return out


def _samples_kd(kname="k", dname="depth"):
    def f(rng, tier):
        import numpy as np
        out = []
        for _ in range(20 if tier == "quick" else 200):
            n = int(rng.integers(1, 9))
            d = float(10 ** rng.uniform(-2, 4))
            kd = 10 ** rng.uniform(-5, 3, n)
            if rng.random() < 0.3:
                kd[int(rng.integers(0, n))] = rng.uniform(4.9, 5.1)     # around the derivative switch
            out.append(("", {kname: kd / d, dname: d, "grav": float(rng.choice([9.81, 9.81, 1.62, 24.8]))}))
        return out
    return f


dispersion = Contract(
    F + "intrinsic_dispersion_relation",
    params=_p_kd("k", "dep"),
    requires=_pos("k", "dep"),
    ensures=[("value", lambda a, r: forall(0, _n(a.k), lambda i: eq(r[i], omega(a.k[i], a.dep, a.grav))))],
    native=_native_kd,
    options={"samples": _samples_kd("k", "dep"), "result": _res_like("omega", "k")},
)

phase = Contract(
    F + "phase_velocity",
    params=_p_kd(),
    requires=_pos(),
    ensures=[("value", lambda a, r: forall(0, _n(a.k), lambda i: eq(r[i], omega(a.k[i], a.depth, a.grav) / a.k[i]))),
             ("nonneg", lambda a, r: forall(0, _n(a.k), lambda i: r[i] >= 0))],
    native=_native_kd,
    options={"samples": _samples_kd(), "result": _res_like("c", "k")},
)

ratio = Contract(
    F + "ratio_group_velocity_to_phase_velocity",
    params=_p_kd(),
    requires=_pos(),
    ensures=[("range", lambda a, r: forall(0, _n(a.k), lambda i: And(r[i] >= _q(1, 2, r[i]), r[i] <= 1))),
             ("derivative", lambda a, r: forall(0, _n(a.k), lambda i: le(
                 absv(r[i] - exact_ratio(a.k[i] * a.depth)), _q(2, 1000, r[i]) * exact_ratio(a.k[i] * a.depth))))],
    native=_native_kd,
    options={"samples": _samples_kd(), "result": _res_like("n", "k")},
)


def _dwdk(a, i):
    return omega(a.k[i], a.depth, a.grav) / a.k[i] * exact_ratio(a.k[i] * a.depth)


def _c(a, i):
    return omega(a.k[i], a.depth, a.grav) / a.k[i]


group = Contract(
    F + "intrinsic_group_velocity",
    params=_p_kd(),
    requires=_pos(),
    ensures=[("derivative", lambda a, r: forall(0, _n(a.k), lambda i: le(absv(r[i] - _dwdk(a, i)), _q(2, 1000, r[i]) * _dwdk(a, i)))),
             ("ratio_range", lambda a, r: forall(0, _n(a.k), lambda i: And(ge(r[i], _q(1, 2, r[i]) * _c(a, i)), le(r[i], _c(a, i)))))],
    callees={ratio.target: ratio, phase.target: phase},
    native=_native_kd,
    options={"samples": _samples_kd(), "result": _res_like("cg", "k")},
)


# ------------------------------------------------------------------ the Newton inverse (conditional contract)
def _p_inverse(mk):
    n = mk.size("n")
    return {"angular_frequency": mk.array("w", (n,)), "dep": mk.real("dep"), "grav": mk.real("grav")}


def _inverse_result(a, r):
    """-> (k array, exhausted?)  symbolic: ghost print counter; native: (k, printed) from the harness"""
    if isinstance(r, tuple):
        return r
    return r, a._ghost.get("printed", 0) > 0


def _post_converged(a, r, tol=(1, 1000)):
    k, exhausted = _inverse_result(a, r)
    w = a.angular_frequency
    if exhausted:
        return True       # the exit after maximum_number_of_iterations promises nothing (bounded stand-in speaks for it)
    return forall(0, _n(w), lambda i: lt(absv(omega(k[i], a.dep, a.grav) - w[i]), _q(*tol, w[i]) * w[i]))


def _call_inverse_py(kw, inst):
    """executable twin: the Python source of the function (the text that is verified), with the
    'no convergence' message captured so that the exhausted exit can be told apart"""
    import contextlib
    import io
    from ocean_science_utilities.wavetheory.lineardispersion import inverse_intrinsic_dispersion_relation as f
    buf = io.StringIO()
    with contextlib.redirect_stdout(buf):
        k = getattr(f, "py_func", f)(**kw)
    return k, ("No convergence" in buf.getvalue())


def _samples_inverse(rng, tier):
    import numpy as np
    out = []
    for _ in range(30 if tier == "quick" else 300):
        n = int(rng.integers(1, 7))
        d = float(10 ** rng.uniform(-2, 4))
        w = 10 ** rng.uniform(np.log10(3e-3), np.log10(50), n)
        # one element in the intermediate regime (mu = w sqrt(d/g) ~ 1, where the first guess is ~20 % off) next to
        # much larger / smaller frequencies: the convergence test has to hold for that element on its own scale
        w[0] = min(50.0, max(3e-3, rng.uniform(0.5, 2.0) * np.sqrt(9.81 / d)))
        if n > 1:
            w[1] = 50.0
        out.append(("", {"angular_frequency": w, "dep": d, "grav": 9.81}))
    return out


inverse = Contract(
    F + "inverse_intrinsic_dispersion_relation",
    params=_p_inverse,
    requires=[("positive", lambda a: And(_n(a.angular_frequency) >= 0, a.dep > 0, a.grav > 0,
                                         forall(0, _n(a.angular_frequency), lambda i: a.angular_frequency[i] > 0)))],
    ensures=[("converged", _post_converged),
             ("shape", lambda a, r: _n(_inverse_result(a, r)[0]) == _n(a.angular_frequency))],
    native=_native_kd,
    options={"samples": _samples_inverse, "native_call": _call_inverse_py, "solver": "abstract-first"},
)


# ------------------------------------------------------------------ bounded stand-in (compiled function)
def _bounded_inverse(tier, seed):
    import numpy as np
    from ocean_science_utilities.wavetheory.lineardispersion import inverse_intrinsic_dispersion_relation as inv
    g = GRAV
    nw = 2001 if tier == "quick" else 20001
    w = np.logspace(np.log10(3e-3), np.log10(50.0), nw)
    depths = [1e-2, 0.3, 1.0, 30.0, 1e3, 1e4, float("inf")]
    failures, evals = [], 0

    def residual(k, ww, d):
        return np.abs(np.sqrt(g * k * np.tanh(k * d)) - ww)

    def fail(kind, **kw):
        if len(failures) < 20:
            failures.append({"kind": kind, **{a: (float(b) if np.ndim(b) == 0 else np.asarray(b).tolist()) for a, b in kw.items()}})

    def check(ww, d, k, label):
        nonlocal evals
        evals += ww.size
        if k.shape != ww.shape:
            fail("shape", depth=d)
            return
        bad = ~(k > 0)
        if bad.any():
            fail("positive." + label, w=ww[bad][0], depth=d, k=k[bad][0])
        r = residual(k, ww, d)
        bad = ~(r <= 1e-3 * ww)
        if bad.any():
            j = int(np.argmax(np.where(bad, r / ww, -1)))
            fail("residual." + label, w=ww[j], depth=d, k=k[j], relative_residual=r[j] / ww[j])

    ks = {}
    for d in depths:                                   # whole arrays mixing all regimes in one call
        k = inv(w, d)
        ks[d] = k
        check(w, d, k, "array")
        if not np.all(np.diff(k) > 0):
            j = int(np.argmin(np.diff(k)))
            fail("monotone_in_w", depth=d, w=w[j], k=k[j], k_next=k[j + 1])
        mu = w * np.sqrt(d / g) if np.isfinite(d) else np.full_like(w, np.inf)
        deep = mu > 10                                 # k d > 100: tanh = 1 to rounding
        if deep.any() and not np.allclose(k[deep], w[deep] ** 2 / g, rtol=2.1e-3, atol=0):
            fail("deep_limit", depth=d)
        shallow = mu < 1e-2                            # k = w/sqrt(g d) (1 + O(mu^2))
        if shallow.any() and not np.allclose(k[shallow], w[shallow] / np.sqrt(g * d), rtol=2.1e-3, atol=0):
            fail("shallow_limit", depth=d)
    for d1, d2 in zip(depths[:-1], depths[1:]):        # non-increasing in depth (both within 1e-3 of the root)
        if not np.all(ks[d2] <= ks[d1] * (1 + 2.1e-3)):
            j = int(np.argmax(ks[d2] / ks[d1]))
            fail("monotone_in_depth", w=w[j], d1=d1, d2=d2, k1=ks[d1][j], k2=ks[d2][j])
    rng = np.random.default_rng(seed + 7)
    step = max(1, nw // (200 if tier == "quick" else 2000))
    for d in depths:                                   # scalars and one-element arrays (each stops on its own test)
        for ww in w[::step]:
            k = inv(float(ww), d)
            check(np.array([ww]), d, np.asarray(k), "scalar")
    for _ in range(50 if tier == "quick" else 500):    # short random arrays mixing regimes
        n = int(rng.integers(2, 9))
        ww = 10 ** rng.uniform(np.log10(3e-3), np.log10(50.0), n)
        d = float(rng.choice(depths)) if rng.random() < 0.5 else float(10 ** rng.uniform(-2, 4))
        check(ww, d, inv(ww, d), "mixed")
    return {"evaluations": int(evals), "distinct": int(evals), "failures": failures,
            "domain": (f"compiled inverse_intrinsic_dispersion_relation: w = {nw} log-spaced points in [3e-3,50] rad/s x depth in "
                       f"{depths} m (mu = w sqrt(d/g) from 1e-4 to 1.6e3) as whole arrays, every {step}-th point as a scalar, random mixed arrays; "
                       "oracle |sqrt(g k tanh kd) - w| <= 1e-3 w, k>0, strictly increasing in w, non-increasing in d (2.1e-3 slack), deep/shallow limits")}


BOUNDED = [Bounded("inverse_dispersion.compiled", _bounded_inverse,
                   "unconditional residual bound, positivity, monotonicity and limits of the compiled solver on a grid")]

CONTRACTS = [dispersion, phase, ratio, group, inverse]
from contracts.C07_spectrum import SPECTRUM_CONTRACTS
CONTRACTS = CONTRACTS + SPECTRUM_CONTRACTS
TRUSTED = ["A-table (true facts about the real functions, ground instances only): sqrt(x)>=0, sqrt(x)^2=x for x>=0; -1<tanh<1, sign(tanh x)=sign x; "
           "sinh(y)>=y for y>=0; sinh(y)>=500*y for y>=10 (sinh(10)=11013.2, cosh>=500 beyond)",
           "numba compiles the source faithfully (witness samples call the compiled functions; the bounded stand-in calls the compiled solver)",
           "wavetheory_tools.atleast_1d: `type(x) in numba.types.number_domain` modelled as 'x is a Python/numpy scalar number'; np.atleast_1d / np.array([x]) give a 1-element array",
           "print() has no effect other than a ghost counter (used to tell the 'No convergence' exit apart)"]
EXPLANATION = ("formula contracts for all k>0, finite d>0, g>0 and all array lengths; the Newton inverse is proved only conditionally "
               "(convergence exit => per-element residual of the returned k below tolerance*w); depth=inf and the unconditional claim are bounded")
