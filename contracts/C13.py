"""C13 — linear interpolation: exact at nodes, bounded, no extrapolation, NaN-aware.

Kernels under contract (real source, symbolic array lengths, ascending and descending grids):
  tools/grid.py::enclosing_points_1d              bracketing indices, clipping outside the grid
  interpolate/general.py::interpolation_weights_1d weights (1-t, t), t in [0,1), end point, NaN outside, nearest
  interpolate/nd_interp.py::NdInterpolator._data_interpolator / interpolate   (rank 1, 2, 3 with the interpolated axis in each
                                                   position; rank 4 with the interpolated axis second; passive axes of length 2)
"""
from fractions import Fraction
from pyvc.api import *
from pyvc.run import Lemma, Bounded

PROPERTY = "C13"
LEVEL = "proof"


def ln(x):
    return x.n if hasattr(x, "n") else len(x)


# ------------------------------------------------------------------ grids
def strictly_increasing(xp):
    """i < j  =>  xp[i] < xp[j]   (pairwise form of the definition: usable without induction)"""
    n = ln(xp)
    return forall(0, n, lambda i: forall(i + 1, n, lambda j: xp[i] < xp[j], "j"), "i")


def strictly_decreasing(xp):
    n = ln(xp)
    return forall(0, n, lambda i: forall(i + 1, n, lambda j: xp[i] > xp[j], "j"), "i")


def strictly_monotone(xp):
    """strictly increasing or strictly decreasing, the direction being the one the end points show (for two or more
    nodes this is the same as `increasing or decreasing`; written as two implications so that each can be instantiated)"""
    up = xp[ln(xp) - 1] > xp[0]
    return And(implies(up, strictly_increasing(xp)), implies(Not(up), strictly_decreasing(xp)))


def ascending(xp):
    return xp[ln(xp) - 1] > xp[0]


def inside(xp, x):
    """xp[0] <= x < xp[-1] in the grid's own direction (the half-open interior the docstring talks about)"""
    n = ln(xp)
    return If(ascending(xp), And(xp[0] <= x, x < xp[n - 1]), And(xp[0] >= x, x > xp[n - 1]))


def before_first(xp, x):
    return If(ascending(xp), x < xp[0], x > xp[0])


def at_or_after_last(xp, x):
    n = ln(xp)
    return If(ascending(xp), x >= xp[n - 1], x <= xp[n - 1])


def brackets(xp, x, i0, i1):
    """xp[i0] <= x < xp[i1] in the grid's own direction"""
    return If(ascending(xp), And(xp[i0] <= x, x < xp[i1]), And(xp[i0] >= x, x > xp[i1]))


def _p_enc(period):
    def p(mk):
        n, m = mk.size("n"), mk.size("m")
        return {"xp": mk.array("xp", (n,)), "x": mk.array("x", (m,)), "regular_xp": False, "period": period}
    return p


GRID_REQ = [("two_nodes", lambda a: ln(a.xp) >= 2),
            ("targets", lambda a: ln(a.x) >= 0),
            ("strictly_monotone_grid", lambda a: strictly_monotone(a.xp))]


def _enc_range(a, r):
    n = ln(a.xp)
    return forall(0, ln(a.x), lambda j: And(r[0, j] >= 0, r[0, j] <= n - 1, r[1, j] >= 0, r[1, j] <= n - 1), "j")


def _enc_bracket(a, r):
    return forall(0, ln(a.x), lambda j: implies(inside(a.xp, a.x[j]), And(
        r[1, j] == r[0, j] + 1, brackets(a.xp, a.x[j], r[0, j], r[1, j]))), "j")


def _enc_unique(a, r):
    """the bracketing bin is the only one: whichever k brackets the target is the index returned"""
    n = ln(a.xp)
    return forall(0, ln(a.x), lambda j: forall(0, n - 1, lambda k: implies(brackets(a.xp, a.x[j], k, k + 1),
                                                                       And(r[0, j] == k, r[1, j] == k + 1)), "k"), "j")


def _enc_clip(a, r):
    n = ln(a.xp)
    return forall(0, ln(a.x), lambda j: And(
        implies(before_first(a.xp, a.x[j]), And(r[0, j] == 0, r[1, j] == 0)),
        implies(at_or_after_last(a.xp, a.x[j]), And(r[0, j] == n - 1, r[1, j] == n - 1))), "j")


def _grid(rng, n, descending=False):
    import numpy as np
    xp = np.cumsum(rng.uniform(0.1, 3.0, n)) + rng.uniform(-20, 20)
    return xp[::-1].copy() if descending else xp


def _targets(rng, xp, m):
    import numpy as np
    lo, hi = min(xp[0], xp[-1]), max(xp[0], xp[-1])
    x = rng.uniform(lo - 2, hi + 2, m)
    for k in range(m):
        u = rng.random()
        if u < 0.3:
            x[k] = xp[int(rng.integers(0, len(xp)))]
        elif u < 0.4:
            x[k] = xp[0]
        elif u < 0.5:
            x[k] = xp[-1]
    return x


def _enc_samples(rng, tier):
    out = []
    for _ in range(30 if tier == "quick" else 300):
        xp = _grid(rng, int(rng.integers(2, 41)), bool(rng.integers(0, 2)))
        out.append(("", {"xp": xp, "x": _targets(rng, xp, int(rng.integers(0, 12))), "regular_xp": False, "period": None}))
    return out


enclosing = Contract(
    "tools/grid.py::enclosing_points_1d",
    params=_p_enc(None),
    requires=GRID_REQ,
    ensures=[("shape", lambda a, r: And(r.shape[0] == 2, r.shape[1] == ln(a.x))),
             ("in_range", _enc_range),
             ("bracket", _enc_bracket),
             ("bracket_unique", _enc_unique),
             ("clip", _enc_clip)],
    witness=[lambda: ("", {"xp": __import__("numpy").array([0.0, 1.0, 3.0, 7.0]), "x": __import__("numpy").array([-1.0, 0.0, 0.5, 1.0, 6.9, 7.0, 8.0]), "regular_xp": False, "period": None}),
             lambda: ("", {"xp": __import__("numpy").array([7.0, 3.0, 1.0, 0.0]), "x": __import__("numpy").array([-1.0, 0.0, 0.5, 1.0, 6.9, 7.0, 8.0]), "regular_xp": False, "period": None})],
    options={"samples": _enc_samples, "finite_reals": True,
             "result": lambda mk, a: mk.array("indices", (2, mk.st.deref(a.x).shape[0]), "int")},
)


# ------------------------------------------------------------------ interpolation_weights_1d (non-periodic)
def _p_w(extrapolate, nearest, period=None):
    def p(mk):
        n, m = mk.size("n"), mk.size("m")
        return {"xp": mk.array("xp", (n,)), "x": mk.array("x", (m,)), "indices": mk.array("indices", (2, m), "int"),
                "period": period, "extrapolate_left": extrapolate, "extrapolate_right": extrapolate, "nearest_neighbour": nearest}
    return p


def frac_of(xp, x, i0, i1):
    """position of x between the nodes i0 and i1 (the property's piecewise-linear parameter)"""
    return (x - xp[i0]) / (xp[i1] - xp[i0])


def _w_linear(a, r):
    def one(j):
        i0, i1 = a.indices[0, j], a.indices[1, j]
        t = frac_of(a.xp, a.x[j], i0, i1)
        return implies(inside(a.xp, a.x[j]), And(notnan(r[0, j]), notnan(r[1, j]), eq(valof(r[1, j]), t), eq(valof(r[0, j]), 1 - t),
                                                 valof(r[1, j]) >= 0, lt(valof(r[1, j]), 1)))
    return forall(0, ln(a.x), one, "j")


def _w_nearest(a, r):
    def one(j):
        i0, i1 = a.indices[0, j], a.indices[1, j]
        t = frac_of(a.xp, a.x[j], i0, i1)
        w1 = valof(r[1, j])
        return implies(inside(a.xp, a.x[j]), And(notnan(r[0, j]), notnan(r[1, j]), Or(eq(w1, 0), eq(w1, 1)), eq(valof(r[0, j]), 1 - w1),
                                                 implies(lt(t, Fraction(1, 2)), eq(w1, 0)), implies(gt(t, Fraction(1, 2)), eq(w1, 1))))
    return forall(0, ln(a.x), one, "j")


def _w_node(a, r):
    """a target on a node gets that node's value: weight 1 on a node index k with xp[k] == x"""
    def one(j):
        i0, i1 = a.indices[0, j], a.indices[1, j]
        on_grid = Or(inside(a.xp, a.x[j]), a.x[j] == a.xp[ln(a.xp) - 1])
        return implies(And(on_grid, Or(a.x[j] == a.xp[i0], a.x[j] == a.xp[i1])),
                       And(a.x[j] == a.xp[i0], eq(r[0, j], 1), eq(r[1, j], 0)))
    return forall(0, ln(a.x), one, "j")


def _w_endpoint(a, r):
    n = ln(a.xp)
    return forall(0, ln(a.x), lambda j: implies(a.x[j] == a.xp[n - 1], And(eq(r[0, j], 1), eq(r[1, j], 0))), "j")


def outside(xp, x):
    n = ln(xp)
    return If(ascending(xp), Or(x < xp[0], x > xp[n - 1]), Or(x > xp[0], x < xp[n - 1]))


def _w_outside_nan(a, r):
    return forall(0, ln(a.x), lambda j: implies(outside(a.xp, a.x[j]), And(isnan(r[0, j]), isnan(r[1, j]))), "j")


def _w_inside_not_nan(a, r):
    return forall(0, ln(a.x), lambda j: implies(Not(outside(a.xp, a.x[j])), And(notnan(r[0, j]), notnan(r[1, j]))), "j")


def _w_outside_constant(a, r):
    """extrapolation switched on: the clipped end node gets the whole weight (indices are both that node)"""
    return forall(0, ln(a.x), lambda j: implies(outside(a.xp, a.x[j]), And(
        notnan(r[0, j]), notnan(r[1, j]), eq(valof(r[0, j]) + valof(r[1, j]), 1), a.indices[0, j] == a.indices[1, j])), "j")


W_REQ = GRID_REQ + [("indices_in_range", lambda a: _enc_range(a, a.indices)),
                    ("indices_bracket", lambda a: _enc_bracket(a, a.indices)),
                    ("indices_clipped", lambda a: _enc_clip(a, a.indices))]
LIN, NEAR, EXTRA = "linear", "nearest", "linear,extrapolate"


def _w_samples(rng, tier):
    from ocean_science_utilities.tools.grid import enclosing_points_1d
    out = []
    for _ in range(30 if tier == "quick" else 300):
        xp = _grid(rng, int(rng.integers(2, 41)), bool(rng.integers(0, 2)))
        x = _targets(rng, xp, int(rng.integers(0, 12)))
        inst = [LIN, NEAR, EXTRA][int(rng.integers(0, 3))]
        out.append((inst, {"xp": xp, "x": x, "indices": enclosing_points_1d(xp, x), "period": None,
                           "extrapolate_left": inst == EXTRA, "extrapolate_right": inst == EXTRA, "nearest_neighbour": inst == NEAR}))
    return out


def _w_native(kw, inst):
    import numpy as np
    kw = dict(kw)
    kw["indices"] = np.asarray(kw["indices"]).astype("int64")
    return kw


weights = Contract(
    "interpolate/general.py::interpolation_weights_1d",
    instances=[(LIN, _p_w(False, False)), (NEAR, _p_w(False, True)), (EXTRA, _p_w(True, False))],
    requires=W_REQ,
    ensures=[("shape", lambda a, r: And(r.shape[0] == 2, r.shape[1] == ln(a.x))),
             ("linear", _w_linear, {LIN, EXTRA}),
             ("nearest", _w_nearest, {NEAR}),
             ("node_exact", _w_node),
             ("right_end_point", _w_endpoint),
             ("nan_outside", _w_outside_nan, {LIN, NEAR}),
             ("not_nan_on_grid", _w_inside_not_nan),
             ("constant_extrapolation", _w_outside_constant, {EXTRA})],
    native=_w_native,
    options={"samples": _w_samples, "finite_reals": True},
)


def callee_of(contract, inst, fixed):
    """the verified contract of one instance of `contract`, in the form used at call sites: the instance's concrete
    parameters become call-site obligations, its requires are obligations, its ensures are assumed"""
    from pyvc.api import CalleeContract
    pick = lambda cl: [(c[0], c[1]) for c in cl if len(c) < 3 or inst in c[2]]

    def same(k, v):
        def f(a):
            got = getattr(a, k)
            if v is None or isinstance(v, bool) or got is None or isinstance(got, bool):
                return got is v
            return got == v
        return f
    checks = [(f"instance[{inst}].{k}", same(k, v)) for k, v in fixed.items()]

    def applicable(a):
        return all(c(a) is not False for _, c in checks)
    # a call that does not match the instance fails its `instance[...]` obligation; nothing else is asked or assumed about it
    guard = lambda fn: (lambda a, *rest: fn(a, *rest) if applicable(a) else True)
    reqs = checks + [(l, guard(f)) for l, f in pick(contract.requires)]
    return CalleeContract(contract.target, contract.options["result"], reqs, [(l, guard(f)) for l, f in pick(contract.ensures)], assumed=False,
                          note=f"verified in this property as {contract.short}[{inst}]")


weights.options["result"] = lambda mk, a: mk.array("weights", (2, mk.st.deref(a.x).shape[0]), "xreal")


# ------------------------------------------------------------------ NdInterpolator.interpolate (one interpolated coordinate)
ND = "interpolate/nd_interp.py::NdInterpolator."
LAYOUTS = {"rank1": ("t",), "rank2,axis0": ("t", "p"), "rank2,axis1": ("p", "t")}      # the rank-1/2 instances (also used by C14)
PASSIVE_NAMES = ("p", "q", "s")
NPASSIVE = 2     # length of every passive axis in the instances of rank >= 2 (all values symbolic)


def layout_name(rank, axis):
    return "rank1" if rank == 1 else f"rank{rank},axis{axis}"


def layout_dims(rank, axis):
    """dimension names of a layout: "t" at the interpolated position, p, q, s on the passive ones in order"""
    names = iter(PASSIVE_NAMES)
    return tuple("t" if k == axis else next(names) for k in range(rank))


RANK3 = {layout_name(3, ax): layout_dims(3, ax) for ax in range(3)}
RANK4 = {layout_name(4, 1): layout_dims(4, 1)}          # one rank-4 instance (cost): interpolated axis second
ALL_LAYOUTS = {**LAYOUTS, **RANK3, **RANK4}


def layout_shape(layout, n):
    return tuple(n if d == "t" else NPASSIVE for d in ALL_LAYOUTS[layout])


def layout_of(coord, name):
    """layout label of an interpolator with dimension names `coord` and interpolated dimension `name`"""
    coord = list(coord)
    return layout_name(len(coord), coord.index(name))


def _find_nested(fn_node, name):
    import ast
    for n in ast.walk(fn_node):
        if isinstance(n, ast.FunctionDef) and n.name == name and n is not fn_node:
            return n
    raise KeyError(name)


def _p_nd(layout, nearest):
    def p(mk):
        n, m = mk.size("n"), mk.size("m")
        return {"xp": mk.array("xp", (n,)), "x": mk.array("x", (m,)), "y": mk.array("y", layout_shape(layout, n), "xreal"),
                "layout": layout, "nearest": nearest}
    return p


def _nd_call(interp, st, fv, args):
    """builds the interpolator exactly as interpolate_dataset_along_axis does - the real `get_data` closure of
    dataset.py over the data array, the real __init__ - and calls the real `interpolate`"""
    obj, cname = _nd_object(interp, st, fv, args)
    return interp.call_function(st, fv, [obj, st.alloc({cname: args["x"]}, "dict")], {})


def _nd_object(interp, st, fv, args):
    from pyvc import source
    from pyvc.values import FuncVal, CArr
    from pyvc.interp import Env
    cname = args.get("coordinate_name", "t")       # C14 re-uses this with a periodic coordinate name
    dims = tuple(cname if d == "t" else d for d in ALL_LAYOUTS[args["layout"]])
    dsmod, outer, _ = source.locate("interpolate/dataset.py::interpolate_dataset_along_axis")
    clos = Env({"dimensions": st.alloc(list(dims), "list"), "data_set": st.alloc({"v": args["y"]}, "dict"), "variable": "v"}, module=dsmod)
    get_data = FuncVal(dsmod, _find_nested(outer, "get_data"), "get_data", closure=clos)
    passive = st.alloc(CArr((NPASSIVE,), {(k,): Fraction(k) for k in range(NPASSIVE)}), "passive_coordinate")
    coords = st.alloc([(d, args["xp"] if d == cname else passive) for d in dims], "list")
    shape = tuple(st.deref(args["y"]).shape)
    cls = interp.module_attr(st, fv.module, "NdInterpolator")
    obj = interp.instantiate(st, cls, [get_data, coords, shape, st.alloc([cname], "list"), cname, st.alloc({"longitude": 360, "direction": 360}, "dict"),
                                        None, None, args["nearest"]], {})
    return obj, cname


def _nd_native(kw, inst):
    """the same through the public entry point: a real xarray Dataset and interpolate_dataset_along_axis"""
    import numpy as np
    import xarray
    from ocean_science_utilities.interpolate.dataset import interpolate_dataset_along_axis
    cname = kw.get("coordinate_name", "t")
    dims = tuple(cname if d == "t" else d for d in ALL_LAYOUTS[kw["layout"]])
    coords = {cname: np.asarray(kw["xp"], dtype=float)}
    for d in dims:
        if d != cname:
            coords[d] = np.arange(NPASSIVE, dtype=float)
    ds = xarray.Dataset({"v": (dims, np.asarray(kw["y"], dtype=float)), "untouched": (("elsewhere",), np.array([1.0, 2.0, 3.0]))}, coords=coords)
    out = interpolate_dataset_along_axis(np.asarray(kw["x"], dtype=float), ds, coordinate_name=cname, nearest_neighbour=bool(kw["nearest"]))
    assert "untouched" in out and np.array_equal(out["untouched"].values, ds["untouched"].values), "variable without the coordinate must pass through"
    assert list(out["v"].dims) == list(dims) and np.array_equal(out["v"].coords[cname].values, np.asarray(kw["x"], dtype=float))
    return out["v"].values


def _cell(arr, layout, i, q):
    """data / result cell: position i on the interpolated axis, q = passive indices in axis order (a tuple; a bare int for
    one passive axis; ignored for rank 1)"""
    q = iter((q,) if isinstance(q, int) else tuple(q))
    ix = tuple(i if d == "t" else next(q) for d in ALL_LAYOUTS[layout])
    return arr[ix[0]] if len(ix) == 1 else arr[ix]


def _passive_range(layout):
    """every combination of passive indices of the layout (one empty combination for rank 1)"""
    import itertools
    return list(itertools.product(range(NPASSIVE), repeat=len(ALL_LAYOUTS[layout]) - 1))


def _slice_valid(y, layout, i):
    """node validity at slice level: every passive entry of the node's slice is present (see NOTES-C13: F12)"""
    return And(*[notnan(_cell(y, layout, i, q)) for q in _passive_range(layout)])


def renormalised(y0, y1, v0, v1, t):
    """the property's rule for one target between two nodes with weights (1-t, t): a missing neighbour is dropped and the
    weights renormalised when the valid weight exceeds one half, otherwise the result is missing.  -> (is_missing, value)"""
    w0, w1 = 1 - t, t
    wsum = If(v0, w0, 0) + If(v1, w1, 0)
    vsum = If(v0, w0 * valof(y0), 0) + If(v1, w1 * valof(y1), 0)
    ok = gt(wsum, Fraction(1, 2))
    return Not(ok), vsum / If(ok, wsum, 1)


def _nd_each(a, r, fn):
    """fn(j, k, q) for every target j, every node k < n-1 and passive index q"""
    n = ln(a.xp)
    return forall(0, ln(a.x), lambda j: forall(0, n - 1, lambda k: And(*[fn(j, k, q) for q in _passive_range(a.layout)]), "k"), "j")


def _nd_value(a, r):
    def one(j, k, q):
        t = frac_of(a.xp, a.x[j], k, k + 1)
        res = _cell(r, a.layout, j, q)

        def rule(tt):
            miss, val = renormalised(_cell(a.y, a.layout, k, q), _cell(a.y, a.layout, k + 1, q),
                                     _slice_valid(a.y, a.layout, k), _slice_valid(a.y, a.layout, k + 1), tt)
            return And(iff(isnan(res), miss), implies(Not(miss), eq(valof(res), val, rtol=1e-9, atol=1e-9)))
        if a.nearest:
            # nearest node: all the weight on the closer neighbour; exactly half way either neighbour is a nearest one
            half_way = eq(t, Fraction(1, 2), rtol=0, atol=0)
            body = And(implies(lt(t, Fraction(1, 2)), rule(0)), implies(gt(t, Fraction(1, 2)), rule(1)),
                       implies(half_way, Or(rule(0), rule(1))))
        else:
            body = rule(t)
        return implies(brackets(a.xp, a.x[j], k, k + 1), body)
    return _nd_each(a, r, one)


def _nd_linear_when_both_present(a, r):
    def one(j, k, q):
        t = frac_of(a.xp, a.x[j], k, k + 1)
        y0, y1 = _cell(a.y, a.layout, k, q), _cell(a.y, a.layout, k + 1, q)
        res = _cell(r, a.layout, j, q)
        return implies(And(brackets(a.xp, a.x[j], k, k + 1), _slice_valid(a.y, a.layout, k), _slice_valid(a.y, a.layout, k + 1)),
                       And(notnan(res), eq(valof(res), valof(y0) * (1 - t) + valof(y1) * t, rtol=1e-9, atol=1e-9)))
    return _nd_each(a, r, one)


def _nd_convex(a, r):
    def one(j, k, q):
        y0, y1 = _cell(a.y, a.layout, k, q), _cell(a.y, a.layout, k + 1, q)
        res = _cell(r, a.layout, j, q)
        lo = If(valof(y0) <= valof(y1), valof(y0), valof(y1))
        hi = If(valof(y0) <= valof(y1), valof(y1), valof(y0))
        return implies(And(brackets(a.xp, a.x[j], k, k + 1), _slice_valid(a.y, a.layout, k), _slice_valid(a.y, a.layout, k + 1)),
                       And(notnan(res), ge(valof(res), lo), le(valof(res), hi)))
    return _nd_each(a, r, one)


def _nd_nodes(a, r):
    """a target on a node whose slice is present returns the data at that node (whatever the neighbours hold)"""
    n = ln(a.xp)
    return forall(0, ln(a.x), lambda j: forall(0, n, lambda k: And(*[
        implies(And(a.x[j] == a.xp[k], _slice_valid(a.y, a.layout, k)),
                eq(_cell(r, a.layout, j, q), _cell(a.y, a.layout, k, q))) for q in _passive_range(a.layout)]), "k"), "j")


def _nd_outside(a, r):
    return forall(0, ln(a.x), lambda j: implies(outside(a.xp, a.x[j]), And(*[isnan(_cell(r, a.layout, j, q)) for q in _passive_range(a.layout)])), "j")


def _shape_is(r, layout, m):
    """the result has the data's shape with the interpolated axis replaced by the number of targets"""
    want = layout_shape(layout, m)
    return And(len(r.shape) == len(want), *[r.shape[k] == w for k, w in enumerate(want)])


def _nd_shape(a, r):
    return _shape_is(r, a.layout, ln(a.x))


def _nd_samples(nearest):
    def f(rng, tier):
        import numpy as np
        out = []
        for _ in range(30 if tier == "quick" else 300):
            lay = list(ALL_LAYOUTS)[int(rng.integers(0, len(ALL_LAYOUTS)))]
            xp = _grid(rng, int(rng.integers(2, 41)), bool(rng.integers(0, 2)))
            x = _targets(rng, xp, int(rng.integers(0, 10)))
            shape = layout_shape(lay, len(xp))
            y = rng.normal(size=shape) * 10
            y[rng.random(shape) < 0.15] = np.nan
            out.append((lay, {"xp": xp, "x": x, "y": y, "layout": lay, "nearest": nearest}))
        return out
    return f


# ------------------------------------------------------------------ NdInterpolator._data_interpolator (helper: combines the two neighbours)
def _p_di(layout):
    def p(mk):
        n, m = mk.size("n"), mk.size("m")
        return {"xp": mk.array("xp", (n,)), "y": mk.array("y", layout_shape(layout, n), "xreal"), "layout": layout, "nearest": False,
                "number_points": m, "indices_1d": mk.array("indices_1d", (1, 2, m), "int"), "weights_1d": mk.array("weights_1d", (1, 2, m), "xreal")}
    return p


def _di_call(interp, st, fv, args):
    obj, _ = _nd_object(interp, st, fv, args)
    return interp.call_function(st, fv, [obj, args["number_points"], args["indices_1d"], args["weights_1d"]], {})


def combined(y0, y1, v0, v1, w0, w1):
    """what the helper computes from two neighbours with weights w0, w1 (possibly NaN): -> (is_missing, value)"""
    use0 = And(v0, notnan(w0), gt(valof(w0), 0))
    use1 = And(v1, notnan(w1), gt(valof(w1), 0))
    wsum = If(use0, valof(w0), 0) + If(use1, valof(w1), 0)
    vsum = If(use0, valof(w0) * valof(y0), 0) + If(use1, valof(w1) * valof(y1), 0)
    ok = gt(wsum, Fraction(1, 2))
    return Not(ok), vsum / If(ok, wsum, 1)


def _di_layout(a):
    """layout of the interpolator object at a call site / of the instance"""
    if "layout" in a:
        return a.layout
    return layout_of(a.self.coord, a.self.interp_index_coord_name)


def _di_data(a):
    return a.y if "y" in a else a.self.get_data_array


def _di_value(a, r):
    lay = _di_layout(a)
    y = a.y

    def one(j):
        i0, i1 = a.indices_1d[0, 0, j], a.indices_1d[0, 1, j]
        w0, w1 = a.weights_1d[0, 0, j], a.weights_1d[0, 1, j]
        out = []
        for q in _passive_range(lay):
            miss, val = combined(_cell(y, lay, i0, q), _cell(y, lay, i1, q), _slice_valid(y, lay, i0), _slice_valid(y, lay, i1), w0, w1)
            res = _cell(r, lay, j, q)
            out.append(And(iff(isnan(res), miss), implies(Not(miss), eq(valof(res), val, rtol=1e-9, atol=1e-9))))
        return And(*out)
    return forall(0, a.number_points, one, "j")


def _di_shape(a, r):
    return _shape_is(r, _di_layout(a), a.number_points)


def _di_native(kw, inst):
    import numpy as np
    from ocean_science_utilities.interpolate.nd_interp import NdInterpolator
    dims = ALL_LAYOUTS[kw["layout"]]
    data = np.asarray(kw["y"], dtype=float)

    def get_data(indices, idims):
        index = [slice(None)] * len(dims)
        for interp_index, idim in zip(indices, idims):
            index[idim] = interp_index
        return data[tuple(index)]
    coords = [(d, np.asarray(kw["xp"], dtype=float) if d == "t" else np.arange(NPASSIVE, dtype=float)) for d in dims]
    obj = NdInterpolator(get_data, coords, data.shape, ["t"], "t", {}, None, None, False)
    return obj._data_interpolator(int(kw["number_points"]), np.asarray(kw["indices_1d"]).astype("int64"), np.asarray(kw["weights_1d"], dtype=float))


def _di_samples(rng, tier):
    import numpy as np
    out = []
    for _ in range(30 if tier == "quick" else 300):
        lay = list(ALL_LAYOUTS)[int(rng.integers(0, len(ALL_LAYOUTS)))]
        n, m = int(rng.integers(2, 20)), int(rng.integers(0, 8))
        shape = layout_shape(lay, n)
        y = rng.normal(size=shape) * 10
        y[rng.random(shape) < 0.2] = np.nan
        w1 = rng.choice([0.0, 1.0, 0.5, 0.25, 0.75, 0.3], m)
        wts = np.stack([1 - w1, w1])[None, :, :].copy()
        if m and rng.random() < 0.5:
            wts[0, :, int(rng.integers(0, m))] = np.nan
        idx = rng.integers(0, n, (1, 2, m))
        out.append((lay, {"xp": np.arange(n, dtype=float), "y": y, "layout": lay, "nearest": False, "number_points": m, "indices_1d": idx, "weights_1d": wts}))
    return out


def _di_result(mk, a):
    o = mk.st.deref(a.self)
    coord = [mk.st.deref(c) for c in mk.st.deref(o.fields["coord"])]
    shape = tuple(a.number_points if c == o.fields["interp_index_coord_name"] else o.fields["data_shape"][i] for i, c in enumerate(coord))
    return mk.array("interpolated", shape, "xreal")


data_interpolator = Contract(
    ND + "_data_interpolator",
    instances=[(lay, _p_di(lay)) for lay in ALL_LAYOUTS],
    requires=[("nodes", lambda a: ln(a.xp) >= 1), ("points", lambda a: a.number_points >= 0),
              ("indices_in_range", lambda a: forall(0, a.number_points, lambda j: And(a.indices_1d[0, 0, j] >= 0, a.indices_1d[0, 0, j] < ln(a.xp),
                                                                                      a.indices_1d[0, 1, j] >= 0, a.indices_1d[0, 1, j] < ln(a.xp)), "j"))],
    ensures=[("shape", _di_shape), ("combination_of_the_two_neighbours", _di_value)],
    call=_di_call,
    options={"samples": _di_samples, "finite_reals": True, "native_call": _di_native, "result": _di_result},
)


def _call_site_ns(a):
    """arguments of a call `self._data_interpolator(...)` in the vocabulary of the helper's contract: the data array is the
    one the object's get_data closure was built over, the grid is the interpolated coordinate"""
    from pyvc.verify import wrap
    o = a.self
    st = o._st
    ds = st.deref(o._o.fields["get_data"].closure.vars["data_set"])
    y = wrap(o._c, o._i, st, ds[o._o.fields["get_data"].closure.vars["variable"]])
    name = o.interp_index_coord_name
    xp = [c[1] for c in o.data_coordinates if c[0] == name][0]
    lay = layout_of(o.coord, name)
    return NS({"y": y, "xp": xp, "layout": lay, "number_points": a.number_points, "indices_1d": a.indices_1d, "weights_1d": a.weights_1d})


def data_interpolator_callee():
    """the helper's verified contract as used at the call site inside `interpolate`"""
    from pyvc.api import CalleeContract
    adapt = lambda fn: (lambda a, *rest: fn(_call_site_ns(a), *rest))
    return CalleeContract(data_interpolator.target, _di_result, [(l, adapt(f)) for l, f in data_interpolator.requires],
                          [(l, adapt(f)) for l, f in data_interpolator.ensures], assumed=False,
                          note="verified in C13 as NdInterpolator._data_interpolator (ranks 1-3 every axis position, rank 4 axis 1)")


def _nd_contract(nearest):
    mode = "nearest" if nearest else "linear"
    ens = [("shape", _nd_shape),
           ("value_with_nan_renormalisation", _nd_value),
           ("between_the_neighbouring_values", _nd_convex),
           ("exact_at_nodes", _nd_nodes),
           ("missing_outside_the_grid", _nd_outside)]
    if not nearest:
        ens.insert(2, ("linear_when_both_neighbours_present", _nd_linear_when_both_present))
    w_inst = NEAR if nearest else LIN
    return Contract(
        ND + "interpolate", label=f"NdInterpolator.interpolate.{mode}",
        instances=[(lay, _p_nd(lay, nearest)) for lay in ALL_LAYOUTS],
        requires=GRID_REQ, ensures=ens, call=_nd_call,
        callees={enclosing.target: callee_of(enclosing, "", {"period": None, "regular_xp": False}),
                 weights.target: callee_of(weights, w_inst, {"period": None, "extrapolate_left": False, "extrapolate_right": False,
                                                             "nearest_neighbour": nearest})},
        options={"samples": _nd_samples(nearest), "finite_reals": True, "native_call": _nd_native})


nd_linear, nd_nearest = _nd_contract(False), _nd_contract(True)

CONTRACTS = [enclosing, weights, data_interpolator, nd_linear, nd_nearest]
import contracts.C13_wiring as _W          # dataset- and spectrum-level wiring above the kernels
import contracts.C13_spectrum as _S
CONTRACTS = CONTRACTS + _W.CONTRACTS + _S.CONTRACTS
import contracts.C13_bounded as _B
BOUNDED = [Bounded("spectrum_interpolation", _B.spectrum_interpolation), Bounded("dataset_axes_rank_1_to_4", _B.dataset_axes,
                   "ranks 1..4, every axis position, passive sizes 1..3 (unequal), pass-through, operands unmodified - through interpolate_dataset_along_axis"),
           Bounded("time_axes_and_grid", _B.time_axes_and_grids,
                   "datetime64 axes (to_datetime64 of the targets), interpolate_dataset_grid applies the coordinates in order and forwards nearest_neighbour"),
           Bounded("dataset_storage_types", __import__("contracts.C13_dtype_bounded", fromlist=["x"]).dataset_storage_types,
                   "integer / unsigned / float32 variables give the float64 piecewise-linear value (the verifier reads every number as a real)")]
TRUSTED = ["targets and grid nodes are finite (no NaN / inf coordinates); infinite data values are outside the model (contract option finite_reals)",
           "possibly-NaN floats are pairs (real, flag) with IEEE propagation through + - * / and comparisons (pyvc.terms.XR)",
           "np.searchsorted on a sorted array returns the number of cells < v (left) / <= v (right); sortedness is an obligation",
           "boolean-mask selection / assignment x[m] op= y[m] acts cell by cell where m holds (masks proved identical, axis masks broadcast like numpy)",
           "a single integer index array among slices gathers along that axis in place (numpy advanced indexing with one index array)",
           "the generator _next_point is evaluated eagerly (it only reads indices_1d / weights_1d, which the consuming loop does not write)",
           "np.rint rounds half to even; np.all(axis=...) is the conjunction over the reduced axes",
           "wiring contracts (C13_wiring.py, C13_spectrum.py): xarray model entries used - iteration over a Dataset yields its data variables in order, `name in ds`, "
           "ds[name] / ds[name] = value (mutates only that mapping), DataArray.dims / .shape / .values / .coords (the coordinates of its dimensions), "
           "xarray.Dataset() / Dataset.assign, xarray.DataArray(data=, coords=, dims=), DataArray * DataArray and / (cell-wise, missing if either is), fillna(value)",
           "wiring contracts: NdInterpolator.interpolate at the call site of dataset.py is the kernel contract verified above for the call's layout (a call outside the "
           "verified layouts / modes fails `pre...kernel_contract_applies`); for angular data (data_period given) only the result shape is assumed (values: C14 bounded)",
           "spectrum level: the dataset-level functions are uninterpreted callees whose result has the operand's variables on their dimensions with unconstrained values; "
           "a quotient by an interpolated energy of exactly 0 is left unspecified (numpy gives NaN / inf there, NaN being filled with the extrapolation value)",
           "instances of rank 2, 3 (every position of the interpolated axis) and 4 (interpolated axis second): every passive axis has length 2 with symbolic "
           "values (value-complete, bounded in that length; equal passive lengths cannot tell the passive axes apart - unequal lengths 1..3 and the other "
           "rank-4 positions are in the bounded tier)"]
EXPLANATION = ("kernels proved for all grid lengths, target counts and values, ascending and descending: enclosing_points_1d (bracket, uniqueness, clipping), "
               "interpolation_weights_1d (linear / nearest / extrapolating), NdInterpolator._data_interpolator (combination of two neighbours with the NaN rule) and "
               "NdInterpolator.interpolate (ranks 1-3 with the interpolated axis in every position, rank 4 with it second) executed over the real get_data closure of dataset.py: value with slice-level NaN renormalisation, linear when both "
               "neighbours are present, between the neighbouring values, exact at nodes, missing outside; witnesses go through interpolate_dataset_along_axis on xarray data. "
               "Wiring above the kernels: interpolate_dataset_along_axis executed over the xarray model with NdInterpolator.interpolate as callee carrying the verified kernel contract - one "
               "interpolator per variable that has the coordinate over that variable's own values / coordinates / shape, targets along the named coordinate, periodic coordinates and "
               "periodic data = the defaults (longitude, *direction* any case; period 360) or the caller's, nearest_neighbour in its own slot (ghost-recorded arguments), variables without the "
               "coordinate passed through as the same object, output coordinate = targets, and the kernel's value clauses re-proved between the caller's data and the returned data set; "
               "interpolate_dataset_grid = fold of the axis function over the mapping in order; WaveSpectrum / FrequencySpectrum interpolate and interpolate_frequency relative to the "
               "dataset-level function: own data set (1D: E and E*a1..E*b2) handed over, mode and targets forwarded, missing values of the spectral variables replaced by the extrapolation "
               "value (default 0), 1D moments = interpolated product / interpolated E, operand unchanged")
