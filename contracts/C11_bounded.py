"""C11 bounded stand-in: the compiled wind inversion on parametric wind seas, through the public entry
point estimate_u10_from_source_terms.  Convergence of the root finder is outside what a contract can decide;
this check evaluates the balance at the returned wind with an independent quadrature.  Bounded, never counted
as proved."""
import math
import os


def _jonswap_batch(np, rng, f, d, npnt, depth_kind):
    """JONSWAP wind seas (peak enhancement 3.3) with a cos^2s spreading, steep enough for non-zero dissipation"""
    E = np.zeros((npnt, len(f), len(d)))
    meta = []
    g = 9.81
    for p in range(npnt):
        fp = rng.uniform(0.13, 0.3)
        steep = rng.uniform(0.07, 0.14)                     # Hs * k_p / 2
        kp = (2 * np.pi * fp) ** 2 / g
        hs = 2 * steep / kp
        sig = np.where(f <= fp, 0.07, 0.09)
        shape = f ** -5.0 * np.exp(-1.25 * (f / fp) ** -4.0) * 3.3 ** np.exp(-((f - fp) ** 2) / (2 * sig ** 2 * fp ** 2))
        md = rng.uniform(0, 360)
        s = rng.uniform(4, 12)
        D = np.abs(np.cos(np.radians(d - md) / 2.0)) ** (2 * s)
        e = shape[:, None] * D[None, :]
        E[p] = e
        meta.append({"fp": float(fp), "hs": float(hs), "mean_direction": float(md), "s": float(s)})
    depth = np.full(npnt, np.inf) if depth_kind == "deep" else rng.uniform(15.0, 80.0, npnt)
    return E, depth, meta


def bounded_inversion(tier, seed):
    import numpy as np
    import warnings
    import xarray
    warnings.filterwarnings("ignore")
    from ocean_science_utilities.wavespectra.spectrum import create_2d_spectrum
    from ocean_science_utilities.wavephysics.balance.factory import create_balance
    from ocean_science_utilities.wavephysics.windestimate import estimate_u10_from_source_terms
    from ocean_science_utilities.wavetheory.lineardispersion import inverse_intrinsic_dispersion_relation
    rng = np.random.default_rng(seed + 11)
    n_batches = 2 if tier == "quick" else 10
    pairs = [("st4", "st4"), ("st4", "st6")]
    f = np.linspace(0.04, 1.0, 49)
    d = np.linspace(0, 360, 24, endpoint=False)
    fails, samples, evals, finite, closed, nan_count, zero_checked = [], [], 0, 0, 0, 0, 0

    def mkspec(E, depth):
        n = E.shape[0]
        sp = create_2d_spectrum(frequency=f, direction=d, variance_density=E, time=np.arange(n) * 3600.0, latitude=np.zeros(n),
                                longitude=np.zeros(n), depth=depth)
        # normalise to the significant wave height asked for is not needed: steepness is set through the level below
        return sp

    for (gpar, dpar) in pairs:
        balance = create_balance(gpar, dpar)
        for b in range(n_batches):
            npnt = int(rng.integers(1, 9))
            depth_kind = "deep" if b % 2 == 0 else "finite"
            E, depth, meta = _jonswap_batch(np, rng, f, d, npnt, depth_kind)
            sp0 = mkspec(E, depth)
            # scale every member to its target Hs
            hs0 = sp0.hm0().values
            scale = (np.array([m["hs"] for m in meta]) / hs0) ** 2
            E = E * scale[:, None, None]
            with_rate = (b % 3 == 2) or (tier != "quick" and b % 2 == 1)
            if b == 1 and npnt > 1:
                E[0] = 0.0                                        # a member without waves: integrated dissipation zero
            spec = mkspec(E, depth)
            dEdt = None
            if with_rate:
                growth = rng.uniform(-2e-5, 4e-5, (npnt, 1, 1))
                dEdt = mkspec(E * growth, depth)
            out = estimate_u10_from_source_terms(spec, balance, time_derivative_spectrum=dEdt)
            u10 = np.asarray(out["u10"].values, dtype=float)
            wdir = np.asarray(out["direction"].values, dtype=float)
            df, dth = spec.frequency_step.values, spec.direction_step.values
            S = balance.dissipation.rate(spec).values
            Dbulk = (S * df[None, :, None] * dth[None, None, :]).sum(axis=(1, 2))
            rate_vals = dEdt.variance_density.values if dEdt is not None else np.zeros_like(E)

            def F(us, dirs):
                """integrated input + integrated dissipation - rate of change where the input is positive"""
                G = balance.generation.rate(spec, xarray.DataArray(us, dims=["time"]), xarray.DataArray(dirs, dims=["time"])).values
                w = df[None, :, None] * dth[None, None, :]
                return (G * w).sum(axis=(1, 2)) + Dbulk - (np.where(G > 0, rate_vals, 0.0) * w).sum(axis=(1, 2))

            # dissipation-weighted mean wave direction, independently
            k = np.stack([inverse_intrinsic_dispersion_relation(2 * np.pi * f, float(depth[p])) for p in range(npnt)])
            wgt = -S * k[:, :, None] * df[None, :, None] * dth[None, None, :]
            th = np.radians(d)
            dref = np.degrees(np.arctan2((wgt * np.sin(th)[None, None, :]).sum(axis=(1, 2)), (wgt * np.cos(th)[None, None, :]).sum(axis=(1, 2)))) % 360.0
            # is there a root between 2 and 40 m/s? (scan with the reported direction)
            grid = np.linspace(2.0, 40.0, 39)
            scan = np.stack([F(np.full(npnt, u), np.where(np.isfinite(wdir), wdir, dref)) for u in grid], axis=1)   # (npnt, 39)
            for p in range(npnt):
                evals += 1
                case = {"pair": [gpar, dpar], "batch": b, "member": p, "npnt": npnt, "depth": float(depth[p]), "with_rate_of_change": bool(with_rate),
                        "spectrum": meta[p], "u10": float(u10[p]), "direction": float(wdir[p]), "bulk_dissipation": float(Dbulk[p])}
                if Dbulk[p] == 0.0:
                    zero_checked += 1
                    if not u10[p] == 0.0:
                        fails.append(dict(case, what="integrated dissipation is zero but U10 is not zero"))
                    continue
                if abs(((wdir[p] - dref[p] + 180.0) % 360.0) - 180.0) > 1e-6:
                    fails.append(dict(case, what="direction is not the dissipation-weighted mean wave direction", expected_direction=float(dref[p])))
                row = scan[p]
                ok = np.isfinite(row)
                has_root = bool(np.any((row[:-1] * row[1:] < 0) & ok[:-1] & ok[1:]))
                if os.environ.get("C11_DEBUG"):
                    print(case, "has_root", has_root, "scan", [f"{x:.1e}" for x in row[::6]])
                if math.isnan(u10[p]):
                    nan_count += 1
                    if has_root:
                        fails.append(dict(case, what="balance has a root between 2 and 40 m/s but the estimate is NaN (degenerate)"))
                    continue
                finite += 1
                if not (u10[p] > 0.0 and math.isfinite(u10[p])):
                    fails.append(dict(case, what="U10 is neither NaN nor a positive finite speed"))
                    continue
                # closure: a sign change of F within a few step tolerances of the returned wind
                good = False
                resid = None
                for delta in (0.02, 0.05):
                    lo = F(np.where(np.arange(npnt) == p, max(u10[p] - delta, 1e-3), 10.0), wdir_filled(np, wdir, dref))[p]
                    hi = F(np.where(np.arange(npnt) == p, u10[p] + delta, 10.0), wdir_filled(np, wdir, dref))[p]
                    if np.isfinite(lo) and np.isfinite(hi) and lo * hi <= 0.0:
                        good = True
                        break
                if not good:
                    resid = F(np.where(np.arange(npnt) == p, u10[p], 10.0), wdir_filled(np, wdir, dref))[p]
                    if np.isfinite(resid) and not (np.isfinite(lo) and np.isfinite(hi)) and abs(resid) <= 5e-3 * abs(Dbulk[p]):
                        good = True          # neighbours not evaluable (roughness NaN): residual small relative to the target
                if good:
                    closed += 1
                else:
                    fails.append(dict(case, what="balance does not close at the returned wind (no sign change within 0.05 m/s)",
                                      residual=None if resid is None else float(resid)))
                if len(samples) < 3:
                    samples.append(case)
    if finite == 0:
        fails.append({"what": "no finite estimate at all in the whole domain (vacuous closure check)", "evaluations": evals})
    return {"evaluations": evals, "distinct": evals, "failures": fails[:6], "samples": samples,
            "domain": (f"{n_batches} batches x {len(pairs)} pairs (st4/st4, st4/st6) of 1..8 JONSWAP wind seas (steepness Hs*kp/2 0.07-0.14, fp 0.13-0.3 Hz, "
                       f"cos^2s spreading, all mean directions), deep and 15-80 m depth, with/without a rate-of-change spectrum; first guess from the "
                       f"peak equilibrium range; finite={finite} closed={closed} nan={nan_count} zero_dissipation_members={zero_checked}")}


def wdir_filled(np, wdir, dref):
    return np.where(np.isfinite(wdir), wdir, dref)
