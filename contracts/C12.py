"""C12 — equilibrium-range wind estimate: closed form and direction conventions.

equilibrium_range_values is under contract for method="peak" and for method="mean".  The mean method is proved for
number_of_bins in {1, 2, 3, 4, 20} in the quick tier (20 is the default of every caller) and for every number_of_bins from 1 to 20 in
the thorough tier (the window is unrolled per instance; a symbolic number_of_bins is not supported: see NOTES-C12.md), symbolic spectrum
length and batch size, symbolic fmax, NaN-free spectra whose compared window means are non-zero:
  from the code (the statement is silent on how the range is found):
    search range  lo = first argmin |f - 0|, hi = min(max(lo + 1, first argmin |f - fmax| + 1 - nb), nf - nb); ValueError iff nf = 0 or nf - nb < lo + 1
    measure       V(i) = mean_k (S_k - m)^2 / m^2 over the nb bins from i, S = E f^power, m their mean   (loop invariant: variance[:, c] = V(lo + c))
    selection     i* = lo + first argmin_c V(lo + c)
    result        e = (1/nb) sum_k S(clip(i* + k, 0, nf - 1 - nb)), a1 / b1 the same means of the moments  - the clip bound is nf - 1 - nb,
                  not nf - 1: a window that starts above nf - 2 nb is averaged with its last bins replaced by bin nf - 1 - nb, although
                  the measure was taken over the unclipped window (recorded as an observation, the statement does not speak about it)
  from the statement:
    on a spectrum that is exactly c f^-power over the searched band [lo, nf) the level is c.
Not covered by the proof (bounded check `mean_method_and_scaling` / nothing): number_of_bins > 20, spectra with NaN bins (the
measure skips them, the accumulation does not), windows whose mean is 0 (0/0), partial c f^-4 ranges (bounded)."""
from pyvc.api import *
from pyvc.run import Lemma, Bounded
from contracts.spec_common import *
from contracts.C01 import _native as _native_spec, REQ
from contracts.C03 import _wit_clean
import pyvc.models.xr   # noqa

PROPERTY = "C12"
LEVEL = "proof"
W = "wavephysics/windestimate.py::"


def g_scaled(sp, p, i, power):
    """fill0(E f^power) at frequency i"""
    return fill0(sp.E(p, i) * powr(sp.f[i], power), sp.E_nan(p, i))


def _vec(x):
    """accessor over the leading index for a numpy result / symbolic array"""
    if hasattr(x, "_a") or hasattr(x, "n"):
        return lambda p: x[p]
    import numpy as np
    v = np.asarray(x, dtype="float64").reshape(-1)
    return lambda p: float(v[p])


def _p_eq(mk):
    return {"spectrum": spectrum(mk, "1d"), "method": "peak", "fmax": mk.real("fmax"), "power": 4, "number_of_bins": 20}


def _eq_post_level(a, r):
    sp = Spec(a.spectrum)
    e = _vec(r[0])
    return forall(0, sp.np_, lambda p: And(
        forall(0, sp.nf, lambda i: le(g_scaled(sp, p, i, a.power), e(p), rtol=1e-12, atol=0), "i"),
        implies(sp.nf > 0, exists(0, sp.nf, lambda i: eq(g_scaled(sp, p, i, a.power), e(p), rtol=1e-12, atol=0), "i"))), "p")


def _eq_post_moments(a, r):
    """a1, b1 are taken at the first frequency where the scaled spectrum attains its maximum"""
    sp = Spec(a.spectrum)
    a1, b1 = _vec(r[1]), _vec(r[2])

    def at_first_max(p, k):
        return And(forall(0, sp.nf, lambda i: le(g_scaled(sp, p, i, a.power), g_scaled(sp, p, k, a.power), rtol=0, atol=0), "i"),
                   forall(0, sp.nf, lambda i: implies(i < k, lt(g_scaled(sp, p, i, a.power), g_scaled(sp, p, k, a.power))), "i"))
    if sp.native:
        import math
        ok = True
        for p in range(sp.np_):
            ks = [k for k in range(sp.nf) if at_first_max(p, k)]
            ok = ok and len(ks) == 1 and (eq(a1(p), sp.var("a1", p, ks[0])) or (math.isnan(a1(p)) and sp.var_nan("a1", p, ks[0])))
            ok = ok and (eq(b1(p), sp.var("b1", p, ks[0])) or (math.isnan(b1(p)) and sp.var_nan("b1", p, ks[0])))
        return ok
    bv = T.Fresh.int("m")
    K = lambda p: T.make_argmax(0, sp.nf, bv, T.to_real(T.to_z3(g_scaled(sp, p, bv, a.power))), z3true())
    return forall(0, sp.np_, lambda p: implies(sp.nf > 0, And(eq(a1(p), sp.var("a1", p, K(p))), eq(b1(p), sp.var("b1", p, K(p))))), "p")


def z3true():
    import z3
    return z3.BoolVal(True)


def _wit_eq():
    s = _wit_clean()
    return ("", {"spectrum": s, "method": "peak", "fmax": 0.5, "power": 4, "number_of_bins": 20})


def _nat(kw, inst):
    out = dict(kw)
    out["spectrum"] = native_spectrum(kw["spectrum"])
    return out


equilibrium_peak = Contract(
    W + "equilibrium_range_values", params=_p_eq, requires=[("dims", lambda a: And(Spec(a.spectrum).np_ >= 0, Spec(a.spectrum).nf >= 0))],
    ensures=[("level_is_maximum_of_E_f4", _eq_post_level), ("moments_at_first_maximum", _eq_post_moments)],
    native=_nat, witness=[_wit_eq],
)


# ---- friction velocity: closed form and direction in [0, 360)
def _p_fv(mk):
    return {"spectrum": spectrum(mk, "1d"), "method": "peak", "fmax": mk.real("fmax"), "power": 4,
            "directional_spreading_constant": mk.real("I"), "beta": mk.real("beta"), "grav": mk.real("grav"), "number_of_bins": 20}


def _ds_var(r, name):
    if hasattr(r, "_o"):
        return _vec(r.vars[name].arr)
    return _vec(r[name].values)


def _pi(x):
    import math
    return T.PI if is_symbolic(x) else math.pi


def _fv_post(a, r):
    sp = Spec(a.spectrum)
    fv = _ds_var(r, "friction_velocity")
    if hasattr(r, "_o"):
        e = a._ghost["eq_e"]
        return forall(0, sp.np_, lambda p: eq(fv(p), 8 * T.PI * T.PI * T.PI * e.get((p,)) / (4 * a.grav * a.directional_spreading_constant * a.beta)), "p")
    from ocean_science_utilities.wavephysics.windestimate import equilibrium_range_values
    import math
    e = equilibrium_range_values(a.spectrum, a.method, a.fmax, a.power, a.number_of_bins)[0].reshape(-1)
    return all(eq(fv(p), 8 * math.pi ** 3 * float(e[p]) / (4 * a.grav * a.directional_spreading_constant * a.beta), rtol=1e-9) for p in range(sp.np_))


def _fv_dir_post(a, r):
    sp = Spec(a.spectrum)
    d = _ds_var(r, "direction")
    if hasattr(r, "_o"):
        a1, b1 = a._ghost["eq_a1"], a._ghost["eq_b1"]
        return forall(0, sp.np_, lambda p: And(d(p) >= 0, d(p) < 360, eq(d(p), mod(T.uf2("arctan2", b1.get((p,)), a1.get((p,))) * 180 / T.PI, 360))), "p")
    import math
    return all((math.isnan(d(p)) or (0 <= d(p) < 360)) for p in range(sp.np_))


def _eq_result(mk, a):
    from pyvc.values import sym_array
    sp = mk.st.deref(a.spectrum)
    ds = mk.st.deref(sp.fields["dataset"])
    n = mk.st.deref(ds.fields["vars"][NAME_E]).fields["arr"].shape[0]
    out = []
    for nm in ("eq_e", "eq_a1", "eq_b1"):
        arr = sym_array(T.Fresh.name(nm), (n,))
        mk.st.ghost[nm] = arr
        out.append(mk.st.alloc(arr, nm))
    mk.st.ghost["eq_args"] = (mk.st.deref(a.method), mk.st.deref(a.fmax), mk.st.deref(a.power), mk.st.deref(a.number_of_bins))
    return tuple(out)


EQ_CALLEE = CalleeContract(W + "equilibrium_range_values", _eq_result, note="verified above (peak method); used here through its result")


def _forwarded(a):
    m, fx, pw, nb = a._ghost["eq_args"]
    return And(m == a.method, eq(fx, a.fmax), pw == a.power, nb == a.number_of_bins)


friction_velocity = Contract(
    W + "friction_velocity", params=_p_fv,
    requires=[("dims", lambda a: And(Spec(a.spectrum).np_ >= 0, Spec(a.spectrum).nf >= 0)),
              ("positive_constants", lambda a: And(a.grav > 0, a.directional_spreading_constant > 0, a.beta > 0))],
    ensures=[("closed_form", _fv_post), ("direction_in_0_360", _fv_dir_post),
             ("arguments_forwarded", lambda a, r: _forwarded(a) if hasattr(r, "_o") else True)],
    native=_nat, callees={EQ_CALLEE.target: EQ_CALLEE},
    witness=[lambda: ("", {"spectrum": _wit_clean(), "method": "peak", "fmax": 0.5, "power": 4, "directional_spreading_constant": 2.5,
                           "beta": 0.012, "grav": 9.81, "number_of_bins": 20})],
)


# ---- U10 from the logarithmic profile with Charnock roughness; direction conventions
def _fv_result(mk, a):
    from pyvc.values import sym_array
    sp = mk.st.deref(a.spectrum)
    ds = mk.st.deref(sp.fields["dataset"])
    n = mk.st.deref(ds.fields["vars"][NAME_E]).fields["arr"].shape[0]
    us, dr = sym_array(T.Fresh.name("ustar"), (n,)), sym_array(T.Fresh.name("dir"), (n,))
    mk.st.ghost["fv_ustar"], mk.st.ghost["fv_dir"] = us, dr
    mk.st.ghost["fv_spectrum_ref"] = getattr(a.spectrum, "id", None)
    vs = {"friction_velocity": xr.mk_xa(mk.st, (P,), us, None, {}), "direction": xr.mk_xa(mk.st, (P,), dr, None, {})}
    from pyvc.values import Obj
    return mk.st.alloc(Obj("Dataset", {"vars": vs, "coords": {}}), "Dataset")


FV_CALLEE = CalleeContract(W + "friction_velocity", _fv_result,
                           ensures=[("direction_range", lambda a, r: forall(0, r.vars["direction"].arr.n, lambda p: And(r.vars["direction"].arr[p] >= 0, r.vars["direction"].arr[p] < 360)))],
                           note="verified above; used through its result")


def _p_u10(conv, kind="1d"):
    def p(mk):
        sp_ = spectrum(mk, kind, moments=(kind == "1d"))
        mk.st.ghost["input_spectrum_ref"] = sp_.id
        return {"spectrum": sp_, "method": "peak", "direction_convention": conv,
                "vonkarman_constant": mk.real("kappa"), "grav": mk.real("grav")}
    return p


def _u10_post(a, r):
    u10 = _ds_var(r, "u10")
    if hasattr(r, "_o"):
        us = a._ghost["fv_ustar"]
        n = us.shape[0]
        alpha, g0 = Fraction(12, 1000), Fraction(981, 100)

        def z0(p):
            return alpha * us.get((p,)) * us.get((p,)) / g0 + If(us.get((p,)) > 0, 0, 0)
        return forall(0, n, lambda p: eq(u10(p), us.get((p,)) / a.vonkarman_constant * T.uf("log", 10 / z0(p))), "p")
    import math
    fv = _ds_var(r, "friction_velocity")
    n = len(r["u10"].values.reshape(-1))
    return all(eq(u10(p), fv(p) / a.vonkarman_constant * math.log(10.0 / (0.012 * fv(p) ** 2 / 9.81)), rtol=1e-9) for p in range(n))


def _dir_conv_post(a, r):
    d = _ds_var(r, "direction")
    if hasattr(r, "_o"):
        d0 = a._ghost["fv_dir"]
        n = d0.shape[0]
        if a.direction_convention == "coming_from_clockwise_north":
            return forall(0, n, lambda p: And(eq(d(p), mod(270 - d0.get((p,)), 360)), d(p) >= 0, d(p) < 360), "p")
        return forall(0, n, lambda p: eq(d(p), d0.get((p,))), "p")
    from ocean_science_utilities.wavephysics.windestimate import friction_velocity as fvf
    s1 = a.spectrum if type(a.spectrum).__name__ == "FrequencySpectrum" else a.spectrum.as_frequency_spectrum()
    d0 = fvf(s1, a.method)["direction"].values.reshape(-1)
    import math
    n = len(d0)
    if a.direction_convention == "coming_from_clockwise_north":
        return all(math.isnan(d0[p]) or (eq(d(p), (270.0 - d0[p]) % 360) and 0 <= d(p) < 360) for p in range(n))
    return all(math.isnan(d0[p]) or eq(d(p), d0[p]) for p in range(n))


CONVS = ["going_to_counter_clockwise_east", "coming_from_clockwise_north"]
u10 = Contract(
    W + "estimate_u10_from_spectrum",
    instances=[(c, _p_u10(c)) for c in CONVS] + [("unknown_convention", _p_u10("north_east_down"))],
    requires=[("dims", lambda a: And(Spec(a.spectrum).np_ >= 0, Spec(a.spectrum).nf >= 0)), ("kappa", lambda a: a.vonkarman_constant > 0)],
    ensures=[("log_law_with_charnock_roughness", _u10_post, set(CONVS)), ("direction_convention", _dir_conv_post, set(CONVS)),
             ("one_d_spectrum_used_as_is", lambda a, r: (a._ghost["fv_spectrum_ref"] == a._ghost["input_spectrum_ref"]) if hasattr(r, "_o") else True, set(CONVS))],
    raises={"ValueError": lambda a: a.direction_convention not in CONVS},
    native=_nat, callees={FV_CALLEE.target: FV_CALLEE},
    witness=[lambda c=c: (c, {"spectrum": _wit_clean(), "method": "peak", "direction_convention": c, "vonkarman_constant": 0.4, "grav": 9.81}) for c in CONVS],
)

def _bounded_mean_and_reduction(tier, seed):
    """default number_of_bins = 20 (also a proof instance now), partial c f^-4 ranges, scaling, both methods"""
    import numpy as np
    from ocean_science_utilities.wavespectra.spectrum import create_1d_spectrum, create_2d_spectrum
    from ocean_science_utilities.wavephysics.windestimate import equilibrium_range_values, friction_velocity as fvf, estimate_u10_from_spectrum as u10f
    rng = np.random.default_rng(seed + 3)
    n = 12 if tier == "quick" else 120
    fails, samples, evals = [], [], 0
    for k in range(n):
        nf = int(rng.integers(60, 90))
        f = np.linspace(0.03, 0.8, nf)
        c = 10 ** rng.uniform(-5, -3, 3)
        theta = rng.uniform(-np.pi, np.pi, 3)
        lo = int(rng.integers(2, 5))        # the f^-4 range starts well below the last admissible window start
        E = c[:, None] * f[None, :] ** -4.0
        E[:, :lo] = E[:, [lo]] * np.linspace(0.05, 0.9, lo)[None, :]       # rising part below the f^-4 range
        r = 0.8
        a1 = np.broadcast_to((r * np.cos(theta))[:, None], E.shape).copy()
        b1 = np.broadcast_to((r * np.sin(theta))[:, None], E.shape).copy()
        s = create_1d_spectrum(f, E, np.arange(3) * 3600, np.zeros(3), np.zeros(3), a1=a1, b1=b1, a2=a1 * 0, b2=b1 * 0, depth=np.full(3, np.inf))
        for method in ("peak", "mean"):
            e, m1, m2 = equilibrium_range_values(s, method, fmax=0.5, power=4, number_of_bins=20)
            evals += 1
            if not np.allclose(e, c, rtol=1e-6):
                fails.append({"case": k, "method": method, "what": "E_eq != c on an exact c f^-4 range", "e": e.tolist(), "c": c.tolist()})
            d = fvf(s, method)["direction"].values
            if not np.allclose((np.degrees(theta)) % 360, d, atol=1e-6):
                fails.append({"case": k, "method": method, "what": "direction != atan2(b1,a1) mod 360"})
            fv1 = fvf(s, method)["friction_velocity"].values
            s3 = s.copy(deep=True)
            s3.dataset["variance_density"] = s3.dataset["variance_density"] * 3.0
            if not np.allclose(fvf(s3, method)["friction_velocity"].values, 3.0 * fv1, rtol=1e-9):
                fails.append({"case": k, "method": method, "what": "friction velocity not linear in the spectrum"})
        if len(samples) < 2:
            samples.append({"case": k, "nf": nf, "c": c.tolist()})
    return {"evaluations": evals, "distinct": evals, "failures": fails[:5], "samples": samples,
            "domain": f"{n} batches of 3 spectra with an exact c f^-4 range above a rising part, random level and direction; peak and mean methods; scaling by 3"}


BOUNDED = [Bounded("mean_method_and_scaling", _bounded_mean_and_reduction)]

# ---- equilibrium_range_values, method "mean": minimum-relative-variance window of `number_of_bins` consecutive bins
from pyvc.loops import LoopContract


def scaled(sp, p, k, power):
    """E f^power at frequency k (the mean method does not fill missing bins: NaN-free spectra in the proved instances)"""
    return sp.E(p, k) * powr(sp.f[k], power)


def window_mean(sp, p, i, nb, power):
    """mean of E f^power over the bins [i, i + nb)"""
    return sum(scaled(sp, p, i + k, power) for k in range(nb)) / nb


def window_measure(sp, p, i, nb, power):
    """the quantity the code minimises over window starts i (from the code, the statement is silent):
    mean_k (S_k - m)^2 / m^2  over the nb bins starting at i, m their mean"""
    m = window_mean(sp, p, i, nb, power)
    dev = sum((scaled(sp, p, i + k, power) - m) * (scaled(sp, p, i + k, power) - m) for k in range(nb)) / nb
    return dev / (m * m)


def first_argmin(lo, hi, fn):
    """first index in [lo, hi) at which fn is minimal (np.argmin's rule)"""
    if is_symbolic(lo, hi) or is_symbolic(fn(lo)):
        bv = T.Fresh.int("m")
        return T.make_argmax(lo, hi, bv, -T.to_real(T.to_z3(fn(bv))), z3true())
    best = None
    for k in range(int(lo), int(hi)):
        if best is None or fn(k) < fn(best):
            best = k
    return best


def search_range(sp, a, nb):
    """[lo, hi): the window starts the code compares (from the code): lo = bin nearest to 0 Hz, hi = bin nearest to fmax, + 1 - nb,
    at least lo + 1, at most nf - nb (so that every compared window lies inside the spectrum)"""
    key = None
    if is_symbolic(sp.nf):
        # one pair of search terms per symbolic spectrum (requires and ensures are built separately; a second pair of
        # function symbols for the same two searches would have to be identified with the first by the solver)
        key = (str(sp.f[0]), str(sp.nf), str(a.fmax), nb)
        if key in _RANGE_TERMS:
            return _RANGE_TERMS[key]
    lo = first_argmin(0, sp.nf, lambda k: absv(sp.f[k] - 0))
    top = first_argmin(0, sp.nf, lambda k: absv(sp.f[k] - a.fmax)) + 1 - nb
    hi = If(top >= lo + 1, top, lo + 1)
    hi = If(hi <= sp.nf - nb, hi, sp.nf - nb)
    if key is not None:
        _RANGE_TERMS[key] = (lo, hi)
    return lo, hi


_RANGE_TERMS = {}


def room_for_a_window(sp, a, nb):
    if not is_symbolic(sp.nf) and sp.nf == 0:
        return False
    lo, hi = search_range(sp, a, nb)
    return And(sp.nf > 0, sp.nf - nb >= lo + 1)


def selected_start(sp, a, p, nb, rng=None):
    """the window start the code selects: the first minimiser of the window measure over [lo, hi)
    (rng: the search range if the caller has built it already - one search term per bound keeps the obligation small)"""
    lo, hi = search_range(sp, a, nb) if rng is None else rng
    return lo + first_argmin(0, hi - lo, lambda c: window_measure(sp, p, lo + c, nb, a.power))


def clipped(sp, i, nb):
    """np.clip(i, 0, nf - 1 - nb) exactly as the code clips the bins of the selected window (from the code: the bound is
    nf - 1 - number_of_bins, not nf - 1, so a window that starts above nf - 2 nb repeats the bin nf - 1 - nb)"""
    top = sp.nf - 1 - nb
    return If(i < 0, 0, If(i > top, top, i))


def mean_over_selected_window(sp, a, p, nb, value, i=None):
    i = selected_start(sp, a, p, nb) if i is None else i
    return sum(value(clipped(sp, i + k, nb)) for k in range(nb)) * (1 / Fraction(nb) if is_symbolic(i) else 1.0 / nb)


def _returned_without_room(sp, a, nb):
    """executable twin only: a normal return although no window fits (the code must raise ValueError there) fails every clause"""
    return sp.native and not room_for_a_window(sp, a, nb)


def _mean_level(nb):
    def post(a, r):
        sp = Spec(a.spectrum)
        if _returned_without_room(sp, a, nb):
            return False
        e = _vec(r[0])
        return forall(0, sp.np_, lambda p: eq(e(p), mean_over_selected_window(sp, a, p, nb, lambda k: scaled(sp, p, k, a.power))), "p")
    return post


def _mean_moments(nb):
    def post(a, r):
        sp = Spec(a.spectrum)
        if _returned_without_room(sp, a, nb):
            return False
        a1, b1 = _vec(r[1]), _vec(r[2])

        def one(p):
            i = selected_start(sp, a, p, nb)      # one search term shared by the two moments
            return And(eq(a1(p), mean_over_selected_window(sp, a, p, nb, lambda k: sp.var("a1", p, k), i)),
                       eq(b1(p), mean_over_selected_window(sp, a, p, nb, lambda k: sp.var("b1", p, k), i)))
        return forall(0, sp.np_, one, "p")
    return post


def _mean_power_law(nb):
    """from the statement: on a spectrum that is exactly c f^-power over the searched band the level is c"""
    def post(a, r):
        sp = Spec(a.spectrum)
        if _returned_without_room(sp, a, nb):
            return False
        e = _vec(r[0])
        lo, hi = search_range(sp, a, nb)
        return forall(0, sp.np_, lambda p: implies(forall(lo, sp.nf, lambda k: eq(scaled(sp, p, k, a.power), scaled(sp, p, lo, a.power), rtol=1e-12, atol=0), "k"),
                                                   eq(e(p), scaled(sp, p, lo, a.power))), "p")
    return post


def _mean_means_nonzero(nb):
    def pre(a):
        sp = Spec(a.spectrum)
        if not is_symbolic(sp.nf) and sp.nf == 0:
            return True
        lo, hi = search_range(sp, a, nb)
        # the window total is written with the Sum operator (Sum_{k in [i, i+nb)} S_k, the same number as the unrolled sum): as a
        # hypothesis the unrolled form E(p,i) ... E(p,i+nb-1) would be a matching loop for the solver (each instance offers the next i)
        return forall(0, sp.np_, lambda p: forall(lo, hi, lambda i: Not(eq(Sum(i, i + nb, lambda k: scaled(sp, p, k, a.power)), 0, rtol=0, atol=0)), "i"), "p")
    return pre


def _p_eq_mean(nb):
    def p(mk):
        return {"spectrum": spectrum(mk, "1d", nan=False), "method": "mean", "fmax": mk.real("fmax"), "power": 4, "number_of_bins": nb}
    return p


def _mean_loop_inv(nb):
    def inv(ns):
        """the counter runs with the loop index; every column of `variance` filled so far holds the window measure.
        (one quantifier over (p, c) with the cell variance[p, c] as its pattern: as a hypothesis, patterns inferred from the
        measure's E(p, i_min + c + k) terms would be a matching loop)"""
        import z3
        sp = Spec(ns.spectrum)
        p, c = T.Fresh.int("p"), T.Fresh.int("c")
        cell = T.to_z3(ns.variance[p, c])
        body = z3.Implies(z3.And(p >= 0, p < T.to_z3(sp.np_), c >= 0, c < T.to_z3(ns.i_counter)),
                          T.to_z3(eq(ns.variance[p, c], window_measure(sp, p, ns.i_min + c, nb, ns.power))))
        plain = z3.is_app(cell) and cell.decl().kind() == z3.Z3_OP_UNINTERPRETED and cell.num_args() == 2
        filled = z3.ForAll([p, c], body, patterns=[cell]) if plain else z3.ForAll([p, c], body)
        return And(ns.i_counter == ns.iFreq - ns.i_min, filled)
    return inv


def _mean_spectrum(E, f):
    import numpy as np
    from ocean_science_utilities.wavespectra.spectrum import create_1d_spectrum
    rng = np.random.default_rng(5)
    n = E.shape[0]
    r = np.sqrt(rng.random(E.shape)) * 0.9
    t = rng.uniform(-np.pi, np.pi, E.shape)
    return create_1d_spectrum(f, E, np.arange(n) * 3600, np.zeros(n), np.zeros(n), a1=r * np.cos(t), b1=r * np.sin(t),
                              a2=r * 0, b2=r * 0, depth=np.full(n, np.inf))


def _mean_kw(s, nb, fmax):
    return (f"bins{nb}", {"spectrum": s, "method": "mean", "fmax": fmax, "power": 4, "number_of_bins": nb})


def _wit_mean_random(nb):
    import numpy as np
    f = np.array([0.0, 0.03, 0.05, 0.08, 0.1, 0.15, 0.22, 0.3, 0.45, 0.5, 0.8])
    if nb == 1:
        f[0] = 0.01     # a one-bin window at f = 0 has mean 0 (0/0 in the measure): outside the precondition
    if nb > 3:          # room for several windows of nb bins below fmax
        f = np.concatenate([[0.0], 0.01 + 0.5 * np.arange(1, nb + 9) / (nb + 6)])
    E = np.random.default_rng(21 + nb).random((3, len(f))) + 0.01
    return _mean_kw(_mean_spectrum(E, f), nb, 0.5)


def _wit_mean_clipped(nb):
    """the flattest window is the last one compared and starts above nf - 2 nb: the code's clip (nf - 1 - nb) repeats a bin"""
    import numpy as np
    N = max(12, 2 * nb + 4)
    f = np.linspace(0.05, 0.6, N)
    E = (np.random.default_rng(3).random((2, N)) + 0.5) * f[None, :] ** -4.0
    E[:, N - nb - 1:] = 2.5e-4 * f[None, N - nb - 1:] ** -4.0          # exactly flat E f^4 on the last nb + 1 bins
    return _mean_kw(_mean_spectrum(E, f), nb, 5.0)


def _wit_mean_power_law(nb):
    """exact c f^-4 in floating point (frequencies and levels are powers of two): every window measure is exactly 0, the first
    window is selected by the code and by the executable twin alike"""
    import numpy as np
    f = 2.0 ** np.arange(-6, -6 + max(9, nb + 3))
    c = np.array([2.0 ** -13, 3 * 2.0 ** -14])
    return _mean_kw(_mean_spectrum(c[:, None] / f[None, :] ** 4, f), nb, 0.5)


def _wit_mean_no_room(nb):
    import numpy as np
    f = np.array([0.1, 0.2])[:nb]            # fewer than nb + 1 bins: ValueError
    return _mean_kw(_mean_spectrum(np.ones((1, len(f))), f), nb, 0.5)


def _mean_samples(rng, tier):
    import numpy as np
    out = []
    for _ in range(20 if tier == "quick" else 200):
        nb = int(rng.choice(MEAN_BINS))
        nf = int(rng.integers(nb + 1, max(16, nb + 8)))
        f = np.cumsum(rng.uniform(0.01, 0.08, nf)) + (0.0 if rng.random() < 0.3 else rng.uniform(0.0, 0.05)) - 0.01
        f[0] = max(f[0], 0.0)
        E = (rng.random((int(rng.integers(1, 4)), nf)) + 0.05) * 10 ** rng.uniform(-4, 0)
        # (no exactly flat ranges here: their window measures tie at rounding level, and which of the tied windows a float
        #  argmin picks is not something the executable twin can reproduce; flat ranges are in the witnesses and the bounded check)
        out.append(_mean_kw(_mean_spectrum(E, f), nb, float(rng.choice([0.2, 0.5, 1.25, f[-1], f[nf // 2]]))))
    return out


import os as _os
TIERED = True
# number_of_bins instances by tier (the window is unrolled: obligation size grows with nb); C12_BINS="5 8" overrides (debugging)
MEAN_BINS = (1, 2, 3, 4, 20) if _os.environ.get("VERIF_TIER", "quick") != "thorough" else tuple(range(1, 21))
if _os.environ.get("C12_BINS"):
    MEAN_BINS = tuple(int(x) for x in _os.environ["C12_BINS"].split())
_only = lambda nb: {f"bins{nb}"}
equilibrium_mean = Contract(
    W + "equilibrium_range_values", label="equilibrium_range_values.mean", instances=[(f"bins{nb}", _p_eq_mean(nb)) for nb in MEAN_BINS],
    requires=[("dims", lambda a: And(Spec(a.spectrum).np_ >= 0, Spec(a.spectrum).nf >= 0))]
             + [(f"window_means_nonzero", _mean_means_nonzero(nb), _only(nb)) for nb in MEAN_BINS],
    ensures=[c for nb in MEAN_BINS for c in (
        ("level_is_mean_of_E_fpower_over_the_minimum_variance_window", _mean_level(nb), _only(nb)),
        ("moments_are_means_over_the_same_window", _mean_moments(nb), _only(nb)),
        ("level_is_c_on_an_exact_power_law_band", _mean_power_law(nb), _only(nb)))],
    raises={"ValueError": lambda a: Not(room_for_a_window(Spec(a.spectrum), a, a.number_of_bins))},
    native=_nat,
    witness=[(lambda nb=nb, w=w: w(nb)) for nb in MEAN_BINS for w in (_wit_mean_random, _wit_mean_clipped, _wit_mean_power_law, _wit_mean_no_room)],
    options={"samples": _mean_samples, "nl_factor_order": "symbol", "argmax_congruence": "semantic", "check_bounds": True,
             "loop_invariants": {f"bins{nb}": {1: LoopContract(invariant=[("variance_filled_with_the_window_measure", _mean_loop_inv(nb))])} for nb in MEAN_BINS}},
)

CONTRACTS = [equilibrium_peak, friction_velocity, u10, equilibrium_mean]
TRUSTED = ["xarray library contracts (argmax, pointwise isel, Dataset construction / assign)", "log, arctan2 uninterpreted (A-table ranges)",
           "the 2D input is reduced by as_frequency_spectrum (contract in C02) before friction_velocity is called",
           "mean method: number_of_bins in {1, 2, 3, 4, 20} (quick) / 1..20 (thorough), spectra without NaN, every compared window mean non-zero (requires); real division, no inf / 0/0",
           "DataArray[..., lo:hi] is the contiguous part lo..hi-1 of the last dimension (bounds in range: obligation); DataArray.mean(dim) = sum of the values present / their number",
           "np.argmin(axis=-1) is the first index of the row minimum; np.clip(x, a_min, a_max); x[i0, i1] with equal-length integer arrays gathers pointwise; "
           "x[arange(len(x))] += v is x[:] += v (the index array is proved to be the identity); np.unravel_index for a 1-d shape is the identity (indices in range: obligation)"]
EXPLANATION = ("peak method: E_eq proved to be the maximum of fill0(E f^4) and the moments taken at its first maximiser; u* = 8 pi^3 E_eq / (4 g I beta), "
               "direction = atan2(b1,a1) mod 360 in [0,360); U10 from the log law with Charnock roughness; (270 - dir) mod 360 convention; mean method (number_of_bins 1, 2, 3, 4 and the default 20 in the quick tier, every value 1..20 in the thorough tier; any spectrum "
               "length): search range, window measure (loop invariant), E_eq / a1 / b1 = means over the clipped minimum-variance window, E_eq = c on an exact c f^-power band; "
               "a symbolic number_of_bins, partial ranges and the scaling law stay a bounded check")
