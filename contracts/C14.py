"""C14 — periodic coordinates and angular data interpolate across the wrap.

Kernels under contract (real source, symbolic array lengths):
  tools/math.py::wrapped_difference            value / range / congruence / NaN pass-through
  tools/grid.py::enclosing_points_1d           (period P) cyclic neighbours incl. the wrap bin, never clipped,
                                               targets a multiple of P apart get the same neighbours
  interpolate/general.py::interpolation_weights_1d (period P)  t in [0,1), (1-t, t), periodic in the target
  interpolate/general.py::interpolate_periodic shortest arc, range [D-P, D), left/right for non-periodic x
"""
from fractions import Fraction
from pyvc.api import *
from pyvc.run import Lemma, Bounded

PROPERTY = "C14"
LEVEL = "proof"
P360 = 360


# ------------------------------------------------------------------ helpers usable in both modes
def ln(x):
    return x.n if hasattr(x, "n") else len(x)


def half(p):
    return p / 2 if isinstance(p, float) else Fraction(p) / 2


def is_multiple(d, p, tol=1e-7):
    """d is an integer multiple of the (concrete) period p"""
    if is_symbolic(d):
        import z3
        import pyvc.terms as T
        q = T.div(d, p)
        return T.cmp("==", z3.ToReal(z3.ToInt(q)), q)
    q = d / p
    return q == q and abs(q - round(q)) <= tol


def wrap_to(x, p, d):
    """the representative of x modulo p in [d-p, d)   (spec function, from the docstring of wrapped_difference)"""
    return mod(x + p - d, p) - p + d


# ------------------------------------------------------------------ wrapped_difference
def _p_wd(period, discont):
    def p(mk):
        n = mk.size("n")
        return {"delta": mk.array("delta", (n,), "xreal"), "period": period,
                "discont": None if discont == "default" else mk.real("discont")}
    return p


def _D(a):
    return a.discont if a.discont is not None else half(a.period)


def _wd_samples(rng, tier):
    import numpy as np
    out = []
    for _ in range(20 if tier == "quick" else 200):
        n = int(rng.integers(0, 9))
        d = rng.uniform(-1000, 1000, n)
        if n and rng.random() < 0.5:
            d[int(rng.integers(0, n))] = np.nan
        if n and rng.random() < 0.5:
            d[int(rng.integers(0, n))] = float(rng.integers(-3, 4) * 180)
        kind = int(rng.integers(0, 3))
        if kind == 0:
            out.append(("360,default", {"delta": d, "period": 360, "discont": None}))
        elif kind == 1:
            out.append(("360,any", {"delta": d, "period": 360, "discont": float(rng.choice([360.0, 180.0, 0.0, rng.uniform(-50, 400)]))}))
        else:
            out.append(("none", {"delta": d, "period": None, "discont": None}))
    return out


wrapped_difference = Contract(
    "tools/math.py::wrapped_difference",
    instances=[("360,default", _p_wd(P360, "default")), ("360,any", _p_wd(P360, "any")), ("none", _p_wd(None, "default"))],
    requires=[("length", lambda a: ln(a.delta) >= 0)],
    ensures=[
        ("length", lambda a, r: ln(r) == ln(a.delta)),
        ("range", lambda a, r: forall(0, ln(a.delta), lambda i: implies(notnan(a.delta[i]), And(
            notnan(r[i]), valof(r[i]) >= _D(a) - a.period, lt(valof(r[i]), _D(a))))), {"360,default", "360,any"}),
        ("congruent", lambda a, r: forall(0, ln(a.delta), lambda i: implies(notnan(a.delta[i]),
                                                                       is_multiple(valof(r[i]) - valof(a.delta[i]), a.period))), {"360,default", "360,any"}),
        ("fixes_range", lambda a, r: forall(0, ln(a.delta), lambda i: implies(
            And(notnan(a.delta[i]), valof(a.delta[i]) >= _D(a) - a.period, lt(valof(a.delta[i]), _D(a))),
            eq(valof(r[i]), valof(a.delta[i])))), {"360,default", "360,any"}),
        ("nan_stays_nan", lambda a, r: forall(0, ln(a.delta), lambda i: implies(isnan(a.delta[i]), isnan(r[i])))),
        ("identity_without_period", lambda a, r: forall(0, ln(a.delta), lambda i: eq(r[i], a.delta[i])), {"none"}),
    ],
    witness=[lambda: ("360,default", {"delta": __import__("numpy").array([359.0, -1.0, 180.0, -180.0, 540.0, float("nan"), 0.0]), "period": 360, "discont": None}),
             lambda: ("360,any", {"delta": __import__("numpy").array([359.0, -1.0, 360.0, 0.0, 720.0, -360.0]), "period": 360, "discont": 360.0})],
    options={"finite_reals": True, "samples": _wd_samples},
)


CONTRACTS = [wrapped_difference]
TRUSTED = ["infinite values are outside the model: every non-NaN float of these contracts is finite (contract option finite_reals)",
           "possibly-NaN floats are pairs (real, flag) with IEEE propagation through + - * / % and comparisons (pyvc.terms.XR)",
           "boolean-mask selection/assignment x[m] = f(y[m]) acts cell by cell on the cells where m holds (masks proved identical)"]
EXPLANATION = ""
