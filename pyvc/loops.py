"""Loops with symbolic trip count (DESIGN §2.5).

summarise_for: map / reduction loops.  The body is executed once for a symbolic index i on a
state in which everything the body may modify has been havocked; the observed effect must
have one of the shapes below, each with solver-checked side conditions, otherwise the loop
is unsupported (the function is then undecided, never a violation):

  * scalar accumulator        x' = x + t(i)            t independent of havocked state
    (other effects may read x: it then stands for x0 + Sum_{k<i} t(k))
  * loop-local temporary      x' independent of havocked state        -> value of last iteration
  * array store owned by i    A'[..i..] = v(i, idx)     exactly one index component equals i,
                              v reads A only in cells owned by the same iteration
  * cell accumulator          A'[c] = A[c] + t(i)       c independent of i
  * break on a guard that is independent of havocked state and precedes all effects

invariant_loop: hand-written invariant from the contract (init / preserve obligations).
"""
import ast
import z3
from . import terms as T
from .terms import Unsupported, is_sym
from .values import Ref, Arr, CArr, Poison, sym_array, materialise, cell_sort
from .interp import Explorer, PyRaise, PathInfeasible, BreakSig


def assigned_names(body):
    names, arrays = set(), set()

    class V(ast.NodeVisitor):
        def visit_FunctionDef(self, n):
            names.add(n.name)

        def visit_Lambda(self, n):
            pass

        def tgt(self, t):
            if isinstance(t, ast.Name):
                names.add(t.id)
            elif isinstance(t, (ast.Tuple, ast.List)):
                for e in t.elts:
                    self.tgt(e)
            elif isinstance(t, ast.Subscript):
                b = t.value
                while isinstance(b, (ast.Subscript, ast.Attribute)):
                    b = b.value
                if isinstance(b, ast.Name):
                    arrays.add(b.id)
            elif isinstance(t, ast.Starred):
                self.tgt(t.value)

        def visit_Assign(self, n):
            for t in n.targets:
                self.tgt(t)
            self.generic_visit(n)

        def visit_AugAssign(self, n):
            self.tgt(n.target)
            self.generic_visit(n)

        def visit_AnnAssign(self, n):
            self.tgt(n.target)
            self.generic_visit(n)

        def visit_For(self, n):
            self.tgt(n.target)
            self.generic_visit(n)

        def visit_NamedExpr(self, n):
            self.tgt(n.target)
            self.generic_visit(n)

        def visit_Call(self, n):
            # in-place list methods modify the receiver
            f = n.func
            if isinstance(f, ast.Attribute) and isinstance(f.value, ast.Name) and f.attr in (
                    "append", "pop", "insert", "extend", "remove", "clear", "sort", "reverse"):
                arrays.add(f.value.id)
            self.generic_visit(n)

        def visit_With(self, n):
            for it in n.items:
                if it.optional_vars is not None:
                    self.tgt(it.optional_vars)
            self.generic_visit(n)
    v = V()
    for s in body:
        v.visit(s)
    return names, arrays


def _fresh_like(v, name):
    if isinstance(v, bool) or (is_sym(v) and z3.is_bool(v)):
        return T.Fresh.bool(name)
    if isinstance(v, int) or (is_sym(v) and z3.is_int(v)):
        return T.Fresh.int(name)
    return T.Fresh.real(name)


def summarise_for(interp, node, st, lo, hi):
    if node.orelse:
        raise Unsupported("for-else on a summarised loop")
    if not isinstance(node.target, ast.Name):
        raise Unsupported("tuple loop target on a symbolic range")
    interp.stats["loops_summarised"] += 1
    ivar = node.target.id
    names, arrnames = assigned_names(node.body)
    names.discard(ivar)
    i = T.Fresh.int(ivar)

    # ---- havoc
    pre = st.snapshot()
    mid_scalar = {}   # name -> (mid const, initial value)
    for n in sorted(names):
        if n in st.env.vars:
            v0 = st.env.vars[n]
            d = st.deref(v0)
            if isinstance(d, Arr) and isinstance(v0, Ref):
                arrnames.add(n)     # rebinding of an array name inside the loop: treat as array
                continue
            if T.is_num(d) or T.is_boolish(d):
                m = _fresh_like(d, n + "_mid")
                mid_scalar[n] = (m, d)
                st.env.vars[n] = m
            else:
                st.env.vars[n] = Poison(f"{n} is re-assigned in a summarised loop")
    mid_arr = {}      # ref id -> (mid func, initial Arr, name)
    for n in sorted(arrnames):
        try:
            v0 = st.env.lookup(n)
        except KeyError:
            continue
        if not isinstance(v0, Ref) or not isinstance(st.heap.get(v0.id), Arr):
            continue
        a0 = st.heap[v0.id]
        if v0.id in mid_arr:
            continue
        if cell_sort(a0) == "xreal":
            raise Unsupported(f"{n}: array with possibly-NaN cells is written in a summarised loop")
        am = sym_array(T.Fresh.name(n + "_mid"), a0.shape, a0.sort)
        mid_arr[v0.id] = (am.func, a0, n)
        st.heap[v0.id] = am
    heap_ids_before = {k: v for k, v in st.heap.items()}
    st.env.vars[ivar] = i
    st.assume(z3.And(T.to_z3(lo) <= i, i < T.to_z3(hi)))
    base_pc = len(st.pc)
    fresh_mark = T.Fresh.n

    def body():
        interp.exec_block(node.body, st)
    results = Explorer(interp, st).run(body)

    mid_cids = {m.get_id() for m, _ in mid_scalar.values()}
    mid_fids = {f.get_id() for f, _, _ in mid_arr.values()}

    # ---- classify paths
    norm, brk = [], []
    for snap, kind, payload in results:
        if kind in ("ok", "continue"):
            norm.append(snap)
        elif kind == "break":
            brk.append(snap)
        elif kind == "raise":
            raise Unsupported(f"exception {payload} may escape from a summarised loop body")
        else:
            raise Unsupported("return inside a summarised loop")
    if not norm and not brk:
        # body infeasible for every i: the loop does not execute
        st.restore(pre)
        st.assume(T.cmp("<=", hi, lo))
        return

    def path_cond(snap):
        cs = snap.pc[base_pc:]
        return T.land(*cs) if cs else True

    def check_no_fresh(t, what):
        """symbols created while executing the body stand for per-iteration values; a plain
        constant cannot represent them after summarisation (it would be shared by all
        iterations), so only *defined* functions (Sum/Max/First) may be new."""
        if not is_sym(t):
            return
        allowed = T.defined_function_ids()
        stack, seen = [t], set()
        formal = set()
        while stack:
            cur = stack.pop()
            for x in T.subterms(cur).values():
                if not z3.is_app(x) or x.decl().kind() != z3.Z3_OP_UNINTERPRETED:
                    continue
                d = x.decl()
                if d.get_id() in seen:
                    continue
                seen.add(d.get_id())
                if d.get_id() in allowed:
                    for reg_ in (T.SumDef.registry, T.ExtDef.registry, T.FirstDef.registry, T.ArgmaxDef.registry):
                        if d.get_id() in reg_:
                            df = reg_[d.get_id()]
                            formal.update(p_.decl().get_id() for p_ in df.params)
                            formal.add(df.bv.decl().get_id())
                            stack.append(df.body)
                    continue
                if d.get_id() in formal:
                    continue
                nm = d.name()
                if "!" in nm:
                    try:
                        k = int(nm.rsplit("!", 1)[1])
                    except ValueError:
                        continue
                    if k > fresh_mark and d.get_id() not in mid_fids and not any(x.eq(m) for m, _ in mid_scalar.values()) \
                            and not x.eq(i) and not nm.startswith(("k!", "s!", "j!", "q!", "sk", "ix!")):
                        import os
                        if os.environ.get("PYVC_DEBUG"):
                            print("LEAK", nm, "in", str(t)[:1500])
                        raise Unsupported(f"{what}: symbol {nm} introduced inside a summarised loop body (needs a loop invariant)")

    for snap in norm + brk:
        check_no_fresh(T.to_z3(path_cond(snap)) if is_sym(path_cond(snap)) else None, "path condition")
        for n in mid_scalar:
            v = snap.env.vars.get(n)
            check_no_fresh(v if is_sym(v) else None, n)
    # untouched heap check: no other pre-existing object may have changed
    for snap in norm + brk:
        for k, v in heap_ids_before.items():
            if k in mid_arr:
                continue
            nv = snap.heap.get(k)
            if isinstance(v, Arr) and nv is not v:
                raise Unsupported("loop body writes an array that is not syntactically a store target")
            if isinstance(v, (list, dict)) and nv != v:
                raise Unsupported("loop body mutates a list/dict")

    # ---- break handling
    B = hi
    if brk:
        bconds = []
        for snap in brk:
            pc = path_cond(snap)
            if T.mentions(T.to_z3(pc), mid_cids, mid_fids):
                raise Unsupported("break guard depends on loop-carried state")
            # no effects before break
            for n, (m, _) in mid_scalar.items():
                v = snap.env.vars.get(n)
                if not (is_sym(v) and v.eq(m)):
                    raise Unsupported("effects before break")
            for rid, (f, a0, n) in mid_arr.items():
                if snap.heap[rid].ups:
                    raise Unsupported("array effects before break")
            bconds.append(pc)
        bcond = T.lor(*bconds)
        bvk = T.Fresh.int("k")
        B = T.make_first(lo, hi, bvk, z3.substitute(T.to_z3(bcond), (i, bvk)))

    # ---- scalar effects
    deltas = {}      # name -> merged increment term T(i)  (accumulators)
    lastval = {}     # name -> merged final value V(i)      (temporaries)
    pending = dict(mid_scalar)
    finals = {n: [(path_cond(s), s.env.vars.get(n)) for s in norm] for n in mid_scalar}
    for n, (m, v0) in mid_scalar.items():
        vals = finals[n]
        if all(is_sym(v) and v.eq(m) for _, v in vals):
            deltas[n] = None          # unchanged
            continue
    closed = {}      # name -> closed form of x at the *start* of iteration i
    progress = True

    def subst_closed(t):
        if not is_sym(t):
            return t
        cm = [(mid_scalar[n][0], closed[n]) for n in closed]
        return T.subst_deep(t, cm, ())

    unresolved = [n for n in mid_scalar if n not in deltas]
    while progress and unresolved:
        progress = False
        for n in list(unresolved):
            m, v0 = mid_scalar[n]
            vals = finals[n]
            if T.is_boolish(v0):
                ds = None
            else:
                ds = []
                for pc, v in vals:
                    if not T.is_num(v):
                        ds = None
                        break
                    d = z3.simplify(T.to_z3(T.sub(v, m)), som=True) if is_sym(T.sub(v, m)) else T.sub(v, m)
                    ds.append((pc, d))
            ok = ds is not None
            if ok:
                ds2 = []
                for pc, d in ds:
                    d = subst_closed(d)
                    pcs = subst_closed(T.to_z3(pc)) if is_sym(pc) else pc
                    if (is_sym(d) and T.mentions(d, mid_cids - {mid_scalar[x][0].get_id() for x in ()}, mid_fids)) or \
                            (is_sym(pcs) and T.mentions(pcs, mid_cids, mid_fids)):
                        ok = False
                        break
                    ds2.append((pcs, d))
            if ok:
                tterm = 0
                for pc, d in reversed(ds2):
                    tterm = T.ite(pc, d, tterm) if not (isinstance(pc, bool) and pc) else d
                deltas[n] = tterm
                bv = T.Fresh.int("k")
                body_k = z3.substitute(T.to_real(T.to_z3(tterm)), (i, bv)) if is_sym(tterm) else tterm
                closed[n] = T.add(v0, T.make_sum(lo, i, bv, body_k) if is_sym(body_k) else T.mul(T.sub(i, lo), body_k))
                if z3.is_int(m) and is_sym(closed[n]) and not z3.is_int(closed[n]):
                    # integer counter: its closed form must have the counter's sort to stand for it in other effects
                    # (a sum of integers: ToInt is exact)
                    inc = z3.simplify(T.to_z3(tterm)) if is_sym(tterm) else tterm
                    if isinstance(inc, int) or (is_sym(inc) and z3.is_int_value(inc)):
                        closed[n] = T.add(v0, T.mul(T.sub(i, lo), inc if isinstance(inc, int) else inc.as_long()))
                    else:
                        closed[n] = z3.ToInt(closed[n])
                unresolved.remove(n)
                progress = True
                continue
            # temporary? final value independent of every mid symbol (after closing accumulators)
            tv = []
            okt = True
            for pc, v in vals:
                if not (T.is_num(v) or T.is_boolish(v)):
                    okt = False
                    break
                v2 = subst_closed(v)
                pc2 = subst_closed(T.to_z3(pc)) if is_sym(pc) else pc
                if (is_sym(v2) and T.mentions(v2, mid_cids, mid_fids)) or (is_sym(pc2) and T.mentions(pc2, mid_cids, mid_fids)):
                    okt = False
                    break
                tv.append((pc2, v2))
            if okt:
                val = tv[-1][1]
                for pc, v in reversed(tv[:-1]):
                    val = T.ite(pc, v, val)
                lastval[n] = val
                unresolved.remove(n)
                progress = True
    poisoned = set(unresolved)

    # ---- array effects
    new_arrays = {}
    for rid, (f, a0, aname) in mid_arr.items():
        idx = [T.Fresh.int("ix") for _ in a0.shape]
        ups = []       # (path cond, guard term G(idx), value term V(idx))
        for snap in norm:
            pc = path_cond(snap)
            a1 = snap.heap[rid]
            if isinstance(a1, CArr):
                raise Unsupported("concrete array modified in a symbolic loop")
            for g, vfn in a1.ups:
                ups.append((pc, g, vfn, a1))
        if not ups:
            new_arrays[rid] = a0
            continue
        # evaluate each path's final array at a generic index, relative to the mid array
        layers = []
        for snap in norm:
            pc = path_cond(snap)
            a1 = snap.heap[rid]
            if not a1.ups:
                continue
            G = T.lor(*[g(tuple(idx)) for g, _ in a1.ups])
            V = a1.get(tuple(idx))
            if isinstance(V, T.XR):
                raise Unsupported(f"{aname}: possibly-NaN value stored in a summarised loop")
            check_no_fresh(T.to_z3(G) if is_sym(G) else None, aname)
            check_no_fresh(V if is_sym(V) else None, aname)
            layers.append((pc, G, V))
        # find owner component k: G -> idx[k] == i  (for every layer)
        owner = None
        for k in range(len(idx)):
            if all(interp.valid(st, T.implies(T.land(pc, G), idx[k] == i)) for pc, G, V in layers):
                owner = k
                break
        res_layers = []
        for pc, G, V in layers:
            pcz = subst_closed(T.to_z3(pc)) if is_sym(pc) else pc
            Gz = subst_closed(T.to_z3(G)) if is_sym(G) else G
            Vz = subst_closed(T.to_z3(V)) if is_sym(V) else V
            if (is_sym(pcz) and T.mentions(pcz, mid_cids, mid_fids)) or (is_sym(Gz) and T.mentions(Gz, mid_cids, mid_fids)):
                raise Unsupported(f"store guard on {aname} depends on loop-carried state")
            if is_sym(Vz) and T.mentions(Vz, mid_cids, set()):
                raise Unsupported(f"value stored into {aname} depends on an uncharacterised loop-carried scalar")
            res_layers.append((pcz, Gz, Vz))
        if owner is not None:
            # reads of the mid array must be in cells owned by the same iteration
            for pc, G, V in res_layers:
                if is_sym(V) and T.mentions(V, (), {f.get_id()}):
                    for x in T.subterms(V).values():
                        if z3.is_app(x) and x.decl().get_id() == f.get_id():
                            if not interp.valid(st, T.implies(T.land(pc, G), x.arg(owner) == i)):
                                raise Unsupported(f"{aname}: iteration reads a cell written by another iteration")
                    if any(T.mentions(SD.body, (), {f.get_id()}) for SD in _sumdefs_in(V)):
                        raise Unsupported(f"{aname}: reduction over cells of the array being written")
            a0f = a0
            ik = idx[owner]
            fbody_vars = [z3.Var(j, T.IntS) for j in range(len(idx))]

            def mk(pc, G, V, a0f=a0f, owner=owner, idx=idx, f=f):
                def guard(ix):
                    sub = [(i, T.to_z3(ix[owner]))] + [(idx[j], T.to_z3(ix[j])) for j in range(len(idx))]
                    c = z3.substitute(T.to_z3(T.land(pc, G)), *sub)
                    return T.land(T.cmp(">=", ix[owner], lo), T.cmp("<", ix[owner], B), c)

                def val(ix):
                    sub = [(i, T.to_z3(ix[owner]))] + [(idx[j], T.to_z3(ix[j])) for j in range(len(idx))]
                    v = V
                    if is_sym(v):
                        if T.mentions(v, (), {f.get_id()}):
                            # mid array -> initial array (cells owned by this iteration only)
                            cells = [x for x in T.subterms(v).values()
                                     if z3.is_app(x) and x.decl().get_id() == f.get_id()]
                            rep = [(x, T.to_z3(a0f.get(tuple(x.children())))) for x in cells]
                            v = z3.substitute(v, *rep)
                        v = z3.substitute(v, *sub)
                    return v
                return guard, val
            arr = a0
            for pc, G, V in res_layers:
                g, v = mk(pc, G, V)
                arr = arr.updated(g, v)
            new_arrays[rid] = arr
        else:
            # cell accumulators: A[c] += t(i) with the cell index c independent of i
            arr = a0
            for snap in norm:
                pc = path_cond(snap)
                pcz = subst_closed(T.to_z3(pc)) if is_sym(pc) else pc
                if is_sym(pcz) and T.mentions(pcz, mid_cids, mid_fids):
                    raise Unsupported(f"{aname}: path condition depends on loop-carried state")
                a1 = snap.heap[rid]
                for g, vfn in a1.ups:
                    spec = getattr(g, "spec", None)
                    if spec is None or any(sp[0] != "i" for sp in spec):
                        raise Unsupported(f"{aname}: slice store that is not owned by the loop index")
                    cell_idx = [sp[1] for sp in spec]
                    for e in cell_idx:
                        if is_sym(e) and (T.mentions(e, mid_cids | {i.get_id()}, mid_fids)):
                            raise Unsupported(f"{aname}: store index depends on the loop variable non-injectively")
                    val = vfn(tuple(cell_idx))
                    val = subst_closed(T.to_z3(val)) if is_sym(val) else val
                    cell = f(*[T.to_z3(e) for e in cell_idx])
                    d = z3.simplify(T.to_real(T.to_z3(val)) - T.to_real(cell), som=True)
                    if T.mentions(d, mid_cids, mid_fids):
                        raise Unsupported(f"{aname}: cell update is not an accumulation")
                    inc = T.ite(pcz, d, 0) if not (isinstance(pcz, bool) and pcz) else d
                    bv = T.Fresh.int("k")
                    inc_k = z3.substitute(T.to_real(T.to_z3(inc)), (i, bv))
                    total = T.make_sum(lo, B, bv, inc_k)

                    def mk2(cell_idx=cell_idx, total=total, arr_prev=arr):
                        def guard(ix):
                            return T.land(*[T.cmp("==", x, e) for x, e in zip(ix, cell_idx)])

                        def val(ix):
                            return T.add(arr_prev.get(ix), total)
                        guard.spec = [("i", e) for e in cell_idx]
                        return guard, val
                    g2, v2 = mk2()
                    arr = arr.updated(g2, v2)
            new_arrays[rid] = arr

    # ---- rebuild the post-loop state
    post_env_extra = {}
    for snap in norm[:1]:
        for n in names:
            if n not in mid_scalar and n in snap.env.vars and n not in pre.env.vars:
                post_env_extra[n] = Poison(f"{n} is local to a summarised loop")
    st.restore(pre)
    nonempty = T.cmp(">", B, lo)
    last = T.sub(B, 1)
    for n, (m, v0) in mid_scalar.items():
        if n in poisoned:
            st.env.vars[n] = Poison(f"{n}: loop-carried dependence not characterised")
        elif n in deltas:
            if deltas[n] is None:
                st.env.vars[n] = v0
            else:
                bv = T.Fresh.int("k")
                tt = deltas[n]
                body_k = z3.substitute(T.to_real(T.to_z3(tt)), (i, bv)) if is_sym(tt) else tt
                st.env.vars[n] = T.add(v0, T.make_sum(lo, B, bv, body_k) if is_sym(body_k) else T.mul(T.ite(nonempty, T.sub(B, lo), 0), body_k))
        elif n in lastval:
            lv = lastval[n]
            lv = z3.substitute(T.to_z3(lv), (i, T.to_z3(last))) if is_sym(lv) else lv
            st.env.vars[n] = T.ite(nonempty, lv, v0)
    for n, v in post_env_extra.items():
        st.env.vars[n] = v
    st.env.vars[ivar] = T.ite(nonempty, last, Poison("loop variable of an empty loop")) if isinstance(nonempty, bool) else Poison("loop variable after a summarised loop")
    for rid, arr in new_arrays.items():
        st.heap[rid] = arr
        if interp.ctx:
            interp.ctx.note_write(Ref.__new__(Ref)) if False else None


def _sumdefs_in(t):
    out = []
    for x in T.subterms(t).values():
        if z3.is_app(x) and x.decl().get_id() in T.SumDef.registry:
            out.append(T.SumDef.registry[x.decl().get_id()])
    return out


# --------------------------------------------------------------------------- manual invariants
class LoopContract:
    """invariant: list of (label, fn(ns) -> Bool) where ns maps variable names (and the loop
    index under its own name) to wrapped symbolic values; modifies: optional explicit lists;
    decreases: for while loops.  step (optional, default none): two-state clauses [(label, fn(ns_head, ns_end))] proved for every
    iteration between the (havocked, invariant-satisfying) state at the loop head and the state at the end of the body or at a `break`
    (obligations `<loop>.step.<label>`; nothing is assumed from them)."""

    def __init__(self, invariant, decreases=None, hints=None, step=None):
        self.invariant = invariant
        self.decreases = decreases
        self.hints = hints
        self.step = step


def invariant_loop(interp, node, st, man, lo, hi):
    ctx = interp.ctx
    interp.stats["loops_invariant"] += 1
    is_for = isinstance(node, ast.For)
    names, arrnames = assigned_names(node.body)
    if is_for:
        ivar = node.target.id
        names.discard(ivar)
    loopname = ctx.loop_name(node)

    def ns_of(state, iv=None):
        return ctx.namespace(interp, state, {ivar: iv} if is_for else {})

    def check_inv(state, iv, kind):
        ns = ns_of(state, iv)
        for label, fn in man.invariant:
            ctx.oblige(state, f"{loopname}.{kind}.{label}", fn(ns))

    def assume_inv(state, iv):
        ns = ns_of(state, iv)
        for label, fn in man.invariant:
            state.assume(T.to_z3(fn(ns)))

    # init
    check_inv(st, lo if is_for else None, "init")

    # havoc
    def havoc(state):
        for n in sorted(names):
            if n in state.env.vars:
                d = state.deref(state.env.vars[n])
                if isinstance(d, Arr) and isinstance(state.env.vars[n], Ref):
                    # the *name* is re-bound in the body: afterwards it refers to some array of this shape that is a
                    # different object from the one it referred to before the loop (which other names may still alias
                    # and which keeps its content unless it is also stored into)
                    am = sym_array(T.Fresh.name(n + "_h"), d.shape, cell_sort(d))
                    state.env.vars[n] = state.alloc(am, n)
                    arrnames.discard(n)
                elif T.is_num(d) or T.is_boolish(d):
                    state.env.vars[n] = _fresh_like(d, n + "_h")
                else:
                    state.env.vars[n] = Poison(f"{n} re-assigned in a loop with invariant")
        for n in sorted(arrnames):
            try:
                v0 = state.env.lookup(n)
            except KeyError:
                continue
            if isinstance(v0, Ref) and isinstance(state.heap.get(v0.id), Arr):
                a0 = state.heap[v0.id]
                am = sym_array(T.Fresh.name(n + "_h"), a0.shape, cell_sort(a0))
                if man.hints and n in man.hints.get("frame_prefix", {}):
                    pass
                state.heap[v0.id] = am
            elif isinstance(v0, Ref) and isinstance(state.heap.get(v0.id), list):
                # python list of scalars: every element havocked, the length is kept (checked at the end of the body)
                l0 = state.heap[v0.id]
                new_l = []
                for k, x in enumerate(l0):
                    d = state.deref(x)
                    if T.is_num(d) or T.is_boolish(d):
                        new_l.append(_fresh_like(d, f"{n}{k}_h"))
                    elif isinstance(x, Ref) and isinstance(d, Arr):
                        # element bound to an array: afterwards it is bound to *some* array of this shape, a different object
                        # from every array that existed before the loop (elements are re-bound, e.g. rolled; an in-place store
                        # into an element would go to the fresh object, never to an array another name still refers to)
                        new_l.append(state.alloc(sym_array(T.Fresh.name(f"{n}{k}_h"), d.shape, cell_sort(d)), f"{n}[{k}]"))
                    else:
                        raise Unsupported(f"list {n} with elements that are neither scalars nor arrays modified in a loop with invariant")
                state.heap[v0.id] = new_l
                list_lengths[n] = len(l0)
    list_lengths = {}
    pre = st.snapshot()
    # ---- preserve
    havoc(st)
    if is_for:
        i = T.Fresh.int(ivar)
        st.env.vars[ivar] = i
        st.assume(z3.And(T.to_z3(lo) <= i, i < T.to_z3(hi)))
        assume_inv(st, i)
    else:
        assume_inv(st, None)
        dec0 = man.decreases(ns_of(st)) if man.decreases else None
        cond_state = st
    head = st.snapshot() if getattr(man, "step", None) else None      # two-state clauses: the state at the loop head

    def check_step(snap):
        if head is None:
            return
        iv = i if is_for else None
        h, e = ns_of(head, iv), ns_of(snap, iv)
        for label, fn in man.step:
            ctx.oblige(snap, f"{loopname}.step.{label}", fn(h, e))

    def body():
        if not is_for:
            if not interp.truth(st, interp.ev(node.test, st)):
                raise PathInfeasible()
        interp.exec_block(node.body, st)
    results = Explorer(interp, st).run(body)
    exits = []
    for snap, kind, payload in results:
        if kind in ("ok", "continue"):
            for ln, l0 in list_lengths.items():
                lv = snap.deref(snap.env.lookup(ln))
                if not (isinstance(lv, list) and len(lv) == l0):
                    raise Unsupported(f"list {ln} changes its length in a loop with invariant")
            check_inv(snap, T.add(i, 1) if is_for else None, "preserve")
            check_step(snap)
            if not is_for and man.decreases:
                d1 = man.decreases(ns_of(snap))
                ctx.oblige(snap, f"{loopname}.decreases", T.land(T.cmp("<", d1, dec0), T.cmp(">=", dec0, 0)))
        elif kind == "break":
            check_step(snap)
            exits.append(snap)
        elif kind == "raise":
            ctx.escape(snap, payload, loopname)
        else:
            raise Unsupported("return inside a loop with invariant")
    if exits:
        # `break`: the loop is left from an arbitrary iteration (havoc + invariant + body up to the break), the
        # `else` block is skipped.  One continuation per break path, chosen by a nondeterministic (fresh) decision.
        if interp.explorer is None:
            raise Unsupported("break inside a loop with invariant outside exploration")
        for snap in exits:
            st.restore(pre)
            if interp.explorer.decide(T.Fresh.bool("loop_exit")):
                st.restore(snap)
                st.ghost[f"{loopname}.exit"] = "break"
                return
    # ---- exit
    st.restore(pre)
    havoc(st)
    st.ghost[f"{loopname}.exit"] = "exhausted"       # ghost: how the loop was left (contracts tell the exits apart)
    if is_for:
        iend = T.Fresh.int(ivar + "_end")
        st.assume(T.to_z3(T.ite(T.cmp("<=", lo, hi), T.cmp("==", iend, hi), T.cmp("==", iend, lo))))
        assume_inv(st, iend)
        st.env.vars[ivar] = T.sub(iend, 1)
    else:
        assume_inv(st, None)
        c = interp.ev(node.test, st)
        c = st.deref(c)
        if T.is_boolish(c):
            st.assume(T.to_z3(T.lnot(c)))
        else:
            if interp.truth(st, c):
                raise PathInfeasible()
    interp.exec_block(node.orelse, st)
