"""Permutation lemmas for finite sums (spec level, independent of the code), proved by induction over the Sum operator's
lemma schemas (empty range, split-last) -- no new schema is assumed.

A `Thm` is a universally quantified statement  forall consts, funcs.  And(hyps) -> concl  whose proof is a list of
`pyvc.run.Lemma` obligations (each discharged by the solvers like any other obligation):

  * `direct`:     hyps + [instances of earlier theorems]  |-  concl
  * `induction`:  on an integer constant n from n0:   base  hyps[n:=n0] |- concl[n:=n0]
                                                      step  n >= n0, (hyps -> concl), hyps[n:=n+1] |- concl[n:=n+1]
    (the induction principle over the integers >= n0 is the one meta-level step, as for C02's bin-width lemma)

Later proofs may use a theorem only through `Thm.inst(...)`, which substitutes terms for the theorem's constants and
lambda-bodies for its function symbols (`pyvc.terms.subst_deep` rebuilds the Sum definitions whose bodies mention a
substituted function); every formula handed to a proof as `using=` therefore is mechanically an instance of a statement
proved earlier in the same list (checked: `inst` refuses a theorem that is not registered as proved in the same Theory)."""
import z3
from pyvc import terms as T
from pyvc.run import Lemma

I, R = z3.IntSort(), z3.RealSort()


class Thm:
    def __init__(self, theory, name, consts, funcs, hyps, concl, note=""):
        self.theory, self.name, self.consts, self.funcs = theory, name, list(consts), list(funcs)
        self.hyps, self.concl, self.note = list(hyps), concl, note

    def formula(self):
        return z3.Implies(z3.And(*self.hyps), self.concl) if self.hyps else self.concl

    def inst(self, cmap=(), fmap=()):
        """the statement with terms substituted for (some of) its constants and lambda bodies (terms over z3.Var(0..)) for (some of)
        its function symbols"""
        assert self.name in self.theory.proved, f"theorem {self.name} is used before it is proved"
        cids = {c.get_id() for c in self.consts}
        fids = {f.get_id() for f in self.funcs}
        cmap = [(c, T.to_z3(v)) for c, v in (cmap.items() if isinstance(cmap, dict) else cmap)]
        fmap = list(fmap.items() if isinstance(fmap, dict) else fmap)
        assert all(c.get_id() in cids for c, _ in cmap) and all(f.get_id() in fids for f, _ in fmap), "not a symbol of the theorem"
        return inst_subst(self.formula(), cmap, fmap)


# ---- canonical Sum definitions: one SumDef per body (up to the name of the bound variable), so that a sum written explicitly in a
# lemma and the same sum produced by instantiating a theorem are the *same* term (otherwise they are related by the congruence
# schema, which is sound but costs a solver step per pair)
_CBV = z3.Int("k!canon")
_CANON = {}


def _canon_def(body):
    """body: a real term over _CBV"""
    key = body.get_id()
    if key not in _CANON:
        params = [c for c in T.free_consts(body) if not c.eq(_CBV)]
        params.sort(key=lambda c: c.decl().name())
        _CANON[key] = (body, T.SumDef(_CBV, body, params))     # the body is kept alive: ids are recycled otherwise
    return _CANON[key][1]


class CSum:
    """like pyvc.api.SumOf, with a canonical definition"""

    def __init__(self, fn):
        self.d = _canon_def(T.to_real(T.to_z3(fn(_CBV))))

    def __call__(self, lo, hi):
        return self.d.app(lo, hi)


def inst_subst(t, cmap, fmap):
    """pyvc.terms.subst_deep with canonical definitions for the rebuilt sums: functions first (Sum definitions whose bodies mention a
    substituted function are rebuilt with the substituted body), then constants (they reach Sum bodies through the parameter lists)"""
    fids = {f.get_id() for f, _ in fmap}
    if fmap:
        repl = []
        for x in T.subterms(t).values():
            if z3.is_app(x) and x.decl().get_id() in T.SumDef.registry:
                d = T.SumDef.registry[x.decl().get_id()]
                if T.mentions(d.body, (), fids):
                    assert not T.sum_apps([d.body]), "nested sums are not supported by inst_subst"
                    nb = z3.substitute(z3.substitute_funs(d.body, *fmap), (d.bv, _CBV))
                    if cmap and all(a_.eq(p_) for p_, a_ in zip(d.params, x.children()[2:])):
                        # the application passes the theorem's own constants as parameters: substitute them in the body, so that
                        # the definition is the one an explicitly written sum over the actual constants has
                        assert not any(c_.eq(_CBV) for _, v_ in cmap for c_ in T.free_consts(v_))
                        nb = z3.substitute(nb, *cmap)
                    nd = _canon_def(nb)
                    amap = {p.get_id(): a for p, a in zip(d.params, x.children()[2:])}
                    repl.append((x, nd.f(x.arg(0), x.arg(1), *[amap.get(p.get_id(), p) for p in nd.params])))
        if repl:
            t = z3.substitute(t, *repl)
        t = z3.substitute_funs(t, *fmap)
    if cmap:
        t = z3.substitute(t, *cmap)
    return t


class Theory:
    """an ordered list of theorems with their proof obligations"""

    def __init__(self, prefix):
        self.prefix, self.lemmas, self.proved, self.thms, self.trusted = prefix, [], set(), {}, []

    def extend(self, other):
        """theorems of another theory (whose obligations are part of the same LEMMAS list) may be used here"""
        self.proved |= other.proved
        self.thms.update(other.thms)
        self.trusted += other.trusted

    # every fact about `mod` by a symbolic divisor that a proof needs is handed to it as an instance of the (proved) theorem
    # mod_of_small_arguments, so the operator itself is abstracted in the obligations (sound for unsat, see pyvc.terms.abstract_int_mod)
    default_meta = {"abstract_int_mod": True}

    def _add(self, name, hyps, goal, note, meta=None):
        meta = {**self.default_meta, **(meta or {})}
        self.lemmas.append(Lemma(f"{self.prefix}.{name}", (lambda h=list(hyps), g=goal: (h, g)), note, meta=meta))

    def axiom(self, name, consts, funcs, statement, note=""):
        """a *trusted* statement (no obligation): recorded in self.trusted, to be listed in the property's TRUSTED"""
        th = Thm(self, name, consts, funcs, [], statement, note)
        self.trusted.append(f"{name}: {note}")
        self.proved.add(name)
        self.thms[name] = th
        return th

    def direct(self, name, consts, funcs, hyps, concl, using=(), note="", meta=None):
        th = Thm(self, name, consts, funcs, hyps, concl, note)
        self._add(name, list(hyps) + list(using), concl, note, meta)
        self.proved.add(name)
        self.thms[name] = th
        return th

    def induction(self, name, var, base, consts, funcs, hyps, concl, using_base=(), using_step=(), note="", meta=None):
        """forall var >= base (and the other constants / functions): And(hyps) -> concl"""
        th = Thm(self, name, [var] + [c for c in consts if not c.eq(var)], funcs, [var >= base] + list(hyps), concl, note)
        at = lambda t, v: z3.substitute(t, (var, T.to_z3(v)))
        self._add(name + ".base", [at(h, base) for h in hyps] + list(using_base), at(concl, base), note + " (induction base)", meta)
        ih = z3.Implies(z3.And(*hyps), concl) if hyps else concl
        self._add(name + ".step", [var >= base, ih] + [at(h, var + 1) for h in hyps] + list(using_step), at(concl, var + 1),
                  note + " (induction step)", meta)
        self.proved.add(name)
        self.thms[name] = th
        return th


def V(i=0, sort=None):
    return z3.Var(i, sort or I)


def generic_sum_theory(prefix="sums", mutant=None):
    """(`mutant`: a deliberately false variant of one statement, used only by the self-test of the lemma engine, see NOTES-C03.md)
    split, shift, reversal, cyclic shift and mirror of  sum_{lo <= j < hi} g(j)  for an arbitrary g: int -> real"""
    th = Theory(prefix)
    g = z3.Function("g_sl", I, R)
    a, b, c, m, N, k = z3.Ints("a_sl b_sl c_sl m_sl N_sl k_sl")
    S = CSum(lambda j: g(T.to_z3(j)))

    # (1) sum over [a, c) = sum over [a, b) + sum over [b, c)
    split = th.induction("range_split", c, b, [a, b, c], [g], [a <= b] if mutant != "split_without_order" else [], S(a, c) == S(a, b) + S(b, c),
                         note="sum_{a<=j<c} g = sum_{a<=j<b} g + sum_{b<=j<c} g for a <= b <= c, induction on c (schemas: empty, split-last)")

    # (2) index shift: sum_{a<=j<b} g(j+m) = sum_{a+m<=j<b+m} g(j)
    Sh = CSum(lambda j: g(T.to_z3(j) + m))
    shift = th.induction("index_shift", b, a, [a, b, m], [g], [], Sh(a, b) == S(a + m, b + m + (1 if mutant == "shift_off_by_one" else 0)),
                         note="sum_{a<=j<b} g(j+m) = sum_{a+m<=j<b+m} g(j) for a <= b and any integer m, induction on b")

    # (3) split-first: sum_{a<=j<b} g = g(a) + sum_{a+1<=j<b} g   (a < b)
    first = th.direct("split_first", [a, b], [g], [a < b], z3.And(S(a, b) == g(a) + S(a + 1, b), S(a, a) == 0),
                      using=[split.inst({a: a, b: a + 1, c: b})],
                      note="from range_split at b = a+1 and split-last on [a, a+1)")

    # (4) reversal: sum_{a<=j<b} g(c-j) = sum_{c-b+1<=j<c-a+1} g(j)
    Rv = CSum(lambda j: g(c - T.to_z3(j)))
    rev = th.induction("index_reversal", b, a, [a, b, c], [g], [], Rv(a, b) == S(c - b + 1, c - a + 1),
                       using_step=[first.inst({a: c - b, b: c - a + 1})],
                       note="sum_{a<=j<b} g(c-j) = sum_{c-b<j<=c-a} g(j) for a <= b, induction on b with split-first on the right")

    # (5) cyclic shift: sum_{j<N} g((j+k) mod N) = sum_{j<N} g(j),  N >= 1, 0 <= k <= N
    j0 = V(0)
    modf = th.direct("mod_of_small_arguments", [a, N], [], [N >= 1],
                     z3.And(z3.Implies(z3.And(0 <= a, a < N), a % N == a), z3.Implies(z3.And(N <= a, a < 2 * N), a % N == a - N),
                            z3.Implies(z3.And(-N <= a, a < 0), a % N == a + N)),
                     note="x mod N = x on [0,N), x-N on [N,2N), x+N on [-N,0)", meta={"abstract_int_mod": False})
    jj = z3.Int("jj_sl")
    mod_hyp = z3.ForAll([jj], modf.inst({a: jj}))
    Cy = CSum(lambda j: g((T.to_z3(j) + k) % N if mutant != "cyclic_no_mod" else T.to_z3(j) + k))
    cyc = th.direct(
        "cyclic_shift", [N, k], [g], [N >= 1, 0 <= k, k <= N], Cy(0, N) == S(0, N + (1 if mutant == "cyclic_one_more_term" else 0)),
        using=[split.inst({a: 0, b: N - k, c: N}, {g: g((j0 + k) % N)}),       # left side split at N-k
               mod_hyp,                                                         # resolves the modulo on each part (congruence schema)
               shift.inst({a: 0, b: N - k, m: k}),                              # first part: = sum_{k<=j<N} g
               shift.inst({a: N - k, b: N, m: k - N}),                          # second part: = sum_{0<=j<k} g
               split.inst({a: 0, b: k, c: N})],
        note="sum_{j<N} g((j+k) mod N) = sum_{j<N} g(j): split at N-k, resolve the modulo on each part, shift both parts, re-join")

    # (5b) the same for j-k
    Cb = CSum(lambda j: g((T.to_z3(j) - k) % N))
    cycb = th.direct("cyclic_shift_back", [N, k], [g], [N >= 1, 0 <= k, k <= N], Cb(0, N) == S(0, N),
                     using=[cyc.inst({k: N - k}), mod_hyp],
                     note="sum_{j<N} g((j-k) mod N) = sum_{j<N} g(j): (j-k) mod N = (j+(N-k)) mod N")

    # (6) mirror: sum_{j<N} g((N-j) mod N) = sum_{j<N} g(j)
    Mi = CSum(lambda j: g((N - T.to_z3(j)) % N if mutant != "mirror_no_mod" else N - T.to_z3(j)))
    mir = th.direct("mirror", [N], [g], [N >= 1], Mi(0, N) == S(0, N),
                    using=[first.inst({a: 0, b: N}, {g: g((N - j0) % N)}), mod_hyp, rev.inst({a: 1, b: N, c: N}), first.inst({a: 0, b: N})],
                    note="sum_{j<N} g((N-j) mod N) = sum_{j<N} g(j): the j = 0 term is g(0), the rest is the reversal of [1, N)")
    # (7) linearity: sum (al g + be h) = al sum g + be sum h
    h = z3.Function("h_sl", I, R)
    al, be = z3.Reals("al_sl be_sl")
    Sh2 = CSum(lambda j: h(T.to_z3(j)))
    Sl = CSum(lambda j: al * g(T.to_z3(j)) + be * h(T.to_z3(j)))
    lin2 = th.induction("linear_combination", b, a, [a, b, al, be], [g, h], [], Sl(a, b) == al * S(a, b) + (be if mutant != "linearity_wrong_factor" else al) * Sh2(a, b),
                        note="sum_{a<=j<b} (al g(j) + be h(j)) = al sum g + be sum h, induction on b")
    return th, dict(g=g, h=h, a=a, b=b, c=c, m=m, N=N, k=k, al=al, be=be, S=S, split=split, shift=shift, first=first, rev=rev, cyc=cyc, cycb=cycb,
                    mir=mir, modf=modf, lin2=lin2, mod_hyp=mod_hyp)
