"""C18 — file cache: contents, hits, size bound and LRU eviction over any request history.

The class invariant Inv of FileCache (entries = pattern files on disk, each at join(path, name), complete and
holding its resource's bytes; foreign files untouched) is the pre- and postcondition of every public operation,
on normal and on exceptional exit; __getitem__ additionally ensures the size bound, enlargement only when the
request alone exceeds the limit, least-recently-used eviction that never removes a returned file, no download
for a hit, and refreshed recency of every served file.  By induction over operations this speaks about every
history over the URI alphabet, of any length, with any file sizes, time stamps and limit (the symbolic part);
the number of distinct URIs is bounded by the alphabet (3) because file names and dict keys are kept concrete.
The same statement-level checks run on the real classes over exhaustive bounded histories (BOUNDED)."""
import itertools
import os

from pyvc.api import *
from pyvc.run import Lemma, Bounded
from pyvc import terms as T
import pyvc.models.fs as fs
from contracts import fc_world as W
from contracts import fc_bounded as FB
from contracts.fc_sym import *
from contracts import fc_sym as S

PROPERTY = "C18"
LEVEL = "proof"
F = CO + "::"
TIMEOUT_MS = {"quick": 20000, "thorough": 120000}


# ----------------------------------------------------------------------------- FileCacheConfig
def _cfg_params(with_file):
    def params(mk):
        st = mk.st
        fs.init_ghost(st, dirs=[ROOT], clock=mk.int("clock0"))
        if with_file:
            fs.add_file(st, CFG, exists=True, size=mk.int("cfg_size"), cid=mk.int("cfg_cid"), mtime=mk.int("cfg_mtime"),
                        atime=mk.int("cfg_atime"),
                        content={"size_gb": mk.real("file_size_gb"), "parallel": mk.bool("file_parallel"),
                                 "allow_for_missing_files": mk.bool("file_allow")})
        w = st.alloc({"fs": st.ghost["fs"]}, "world")
        return {"size_gb": mk.real("size_gb"), "parallel": mk.bool("parallel"), "allow_for_missing_files": mk.bool("allow"),
                "path": ROOT, "w": w}
    return params


def _cfg_call(interp, st, fv, args):
    cls = repo_class(st, CO, "FileCacheConfig")
    return interp.instantiate(st, cls, [], {k: v for k, v in args.items() if k != "w"})


def _cfg_native(kw, inst):
    import json as J
    import tempfile
    d = tempfile.mkdtemp(prefix="fc-cfg-")
    w = kw.pop("w", {})
    rec = (w.get("fs") or {}).get(CFG)
    if rec and rec.get("exists"):
        c = rec["content"]
        with open(os.path.join(d, W.CONFIG), "w") as f:
            J.dump({"size_gb": c["size_gb"], "parallel": bool(c["parallel"]), "allow_for_missing_files": bool(c["allow_for_missing_files"])}, f)
    kw["path"] = d
    return kw


def _cfg_native_call(kw, inst):
    import json as J
    from ocean_science_utilities.filecache.cache_object import FileCacheConfig
    c = FileCacheConfig(**kw)
    with open(os.path.join(kw["path"], W.CONFIG)) as f:
        content = J.load(f)
    return NS({"size_gb": c.size_gb, "parallel": c.parallel, "allow_for_missing_files": c.allow_for_missing_files,
               "max_size_bytes": c.max_size_bytes, "file": content})


def _cfg_result(a, r):
    """uniform view of the constructed object: symbolic -> fields, native -> NS from _cfg_native_call"""
    if hasattr(r, "_o"):
        f = a.w["fs"][CFG]
        return NS({"size_gb": r.size_gb, "parallel": r._parallel, "allow_for_missing_files": r._allow_for_missing_files,
                   "file": f.content if f.exists else None})
    return r


config_init = Contract(
    F + "FileCacheConfig.__init__",
    instances=[("fresh_directory", _cfg_params(False)), ("persisted_config", _cfg_params(True))],
    ensures=[
        ("constructed", lambda a, r: _cfg_result(a, r).file is not None),
        ("fresh_uses_arguments", lambda a, r: And(eq(_cfg_result(a, r).size_gb, a.size_gb),
                                                  _cfg_result(a, r).parallel == a.parallel,
                                                  _cfg_result(a, r).allow_for_missing_files == a.allow_for_missing_files),
         {"fresh_directory"}),
        ("persisted_wins", lambda a, r: And(eq(_cfg_result(a, r).size_gb, a.old.w["fs"][CFG].content["size_gb"]),
                                            _cfg_result(a, r).parallel == a.old.w["fs"][CFG].content["parallel"],
                                            _cfg_result(a, r).allow_for_missing_files == a.old.w["fs"][CFG].content["allow_for_missing_files"]),
         {"persisted_config"}),
        ("file_matches_object", lambda a, r: And(eq(_cfg_result(a, r).file["size_gb"], _cfg_result(a, r).size_gb),
                                                 _cfg_result(a, r).file["parallel"] == _cfg_result(a, r).parallel,
                                                 _cfg_result(a, r).file["allow_for_missing_files"] == _cfg_result(a, r).allow_for_missing_files)),
    ],
    raises={},     # construction never raises
    call=_cfg_call, native=_cfg_native,
    options={"native_call": _cfg_native_call,
             "args_ns": lambda kw: dict(kw, w={"fs": {CFG: NS({"exists": os.path.exists(os.path.join(kw["path"], W.CONFIG)),
                                                                "content": _read_cfg(kw["path"])})}})},
    witness=[lambda: ("fresh_directory", _cfg_native({"size_gb": 0.5, "parallel": False, "allow_for_missing_files": True}, ""))],
)


def _read_cfg(d):
    import json as J
    try:
        with open(os.path.join(d, W.CONFIG)) as f:
            return J.load(f)
    except Exception:
        return None


# ----------------------------------------------------------------------------- names
def _name_params(mk):
    import z3
    d = sym_world(mk, cached=(), parallel=False, allow=True)
    u1, u2 = z3.String("uri1"), z3.String("uri2")
    mk.obs["uri1"], mk.obs["uri2"] = ("sym", u1), ("sym", u2)
    return {"self": d["self"], "uri1": u1, "uri2": u2}


def _name_call(interp, st, fv, args):
    n1 = interp.call_function(st, fv, [args["self"], args["uri1"]], {})
    n2 = interp.call_function(st, fv, [args["self"], args["uri2"]], {})
    # the filter of _get_cache_files, evaluated on the generated name by the real method text
    return (n1, n2)


def _z(s):
    import z3
    return z3.StringVal(s)


def _name_pattern(a, r):
    import z3
    return And(z3.PrefixOf(_z(W.PREFIX), r[0]), z3.SuffixOf(_z(W.POSTFIX), r[0]))


def _name_distinct(a, r):
    return implies(fs.MD5HEX(a.uri1) != fs.MD5HEX(a.uri2), r[0] != r[1])


cache_file_name = Contract(
    F + "FileCache._cache_file_name",
    params=_name_params,
    ensures=[("pattern", _name_pattern), ("distinct", _name_distinct)],
    call=_name_call,
    notes="symbolic strings; md5 as an uninterpreted String->String function (distinct digests give distinct names)",
)


# ----------------------------------------------------------------------------- parse_directive (finite grammar, evaluated)
def _grammar():
    out = []
    for dirs in ("", "validate=chk", "postprocess=pp", "validate=chk;postprocess=pp", "postprocess=pp;validate=chk"):
        for scheme in ("mem", "s3", "https"):
            for path in ("a", "bucket/key.nc", "host:8080/x"):
                for comment in ("", "<<v2", "<<a<<b"):
                    out.append((dirs + ":" if dirs else "") + scheme + "://" + path + comment)
    return out


def _pd_expected(raw):
    key, dirs, dl = W.spec_parse(raw)
    return key, dirs


parse_directive = Contract(
    "filecache/cache_object.py::parse_directive",
    instances=[(raw, (lambda raw: (lambda mk: {"unparsed_uri": mk.const("unparsed_uri", raw)}))(raw)) for raw in _grammar()],
    ensures=[("uri", lambda a, r: r[0] == _pd_expected(a.unparsed_uri)[0]),
             ("directives", lambda a, r: dict(r[1]) == _pd_expected(a.unparsed_uri)[1]),
             ("comment_kept_in_key", lambda a, r: ("<<" in a.unparsed_uri) == ("<<" in r[0]))],
    witness=[lambda: ("", {"unparsed_uri": "validate=chk;postprocess=pp:mem://a<<v2"})],
    notes="finite grammar (135 strings): concrete execution of the real text, not a proof over all strings",
)


# ----------------------------------------------------------------------------- __getitem__
def _spec_of_request(cached, req, kinds):
    """statement-level expectation: (raw uris, hits, misses, served) as letters"""
    hits = [u for u in req if u in cached]
    misses = [u for u in req if u not in cached]
    served = [u for u in req if u in cached or kinds.get(u, "ok") == "ok"]
    return hits, misses, served


def _evicted(a, served_paths, downloaded_paths):
    """files that were cached (or downloaded by this request) and are gone; `downloaded_paths` may carry, after a None
    marker, the paths of entries rejected by their validator (removed, not evicted)"""
    Fn, Fo = a.w["fs"], a.old.w["fs"]
    removed = downloaded_paths[downloaded_paths.index(None) + 1:] if None in downloaded_paths else []
    return [p for p in pattern_paths(a) if (Fo[p].exists or p in downloaded_paths) and not Fn[p].exists and p not in removed]


def _lru(a, served_paths, downloaded_paths):
    Fn, Fo = a.w["fs"], a.old.w["fs"]
    ok = True
    for p in _evicted(a, served_paths, downloaded_paths):
        if p in served_paths or not Fo[p].exists:
            continue
        for q in pattern_paths(a):
            if Fn[q].exists and q not in served_paths and Fo[q].exists:
                ok = And(ok, le(recency(Fo[p]), recency(Fo[q])))
    return ok


def _minimal(a, served_paths, downloaded_paths):
    Fo = a.old.w["fs"]
    ev = [p for p in _evicted(a, served_paths, downloaded_paths) if Fo[p].exists]
    if not ev:
        return True
    return Or(*[gt(total(a) + Fo[p].size, maxb(a.self.config)) for p in ev])


def getitem_contract(label, cached, req, kinds=None, allow=None, parallel=None, directives=None, validate=True,
                     pp_raises=False, crash=False, universe=("a", "b", "c")):
    """cached: letters on disk and registered; req: letters requested in order; kinds: letter -> remote behaviour
    (ok / notfound / raise_before / raise_partial); directives: letter -> 'validate' | 'postprocess';
    validate: verdict of the validation function (True / False / 'ioerror'); pp_raises: post-processing raises."""
    kinds = kinds or {}
    directives = directives or {}
    rejected = [u for u in req if u in cached and directives.get(u) == "validate" and validate is not True]
    hits = [u for u in req if u in cached and u not in rejected]
    misses = [u for u in req if u not in hits]

    def outcome(u):
        k = kinds.get(u, "ok")
        if k == "ok" and directives.get(u) == "postprocess" and pp_raises:
            return "pp_raise"
        return k
    served = [u for u in req if u in hits or outcome(u) == "ok"]
    first_fail = next((u for u in misses if outcome(u) != "ok"), None)
    fail_kind = outcome(first_fail) if first_fail else None
    # sequential order: the resource is contacted for every miss up to (and including) the first one that raises
    contacted_if_raises = misses[: misses.index(first_fail) + 1] if first_fail else misses
    raws = [({"validate": "validate=chk:", "postprocess": "postprocess=pp:"}.get(directives.get(u), "")) + U(u) for u in req]
    served_paths = [PATH(u) for u in served]
    downloaded = [PATH(u) for u in misses if outcome(u) == "ok"] + [None] + [PATH(u) for u in rejected if outcome(u) != "ok"]
    has_notfound = any(outcome(u) == "notfound" for u in misses)
    expect = lambda a: {u: pp(a.w["remote"][DL(u)].cid) for u in misses if directives.get(u) == "postprocess"}
    kept = [u for u in cached if u not in rejected]

    def params(mk):
        d = sym_world(mk, cached=cached, kinds=kinds, allow=allow, parallel=parallel, validate=validate, pp_raises=pp_raises,
                      crash=crash, universe=universe)
        d["unparsed_uris"] = mk.st.alloc(list(raws), "request")
        return d

    def req_total(a):
        t = 0
        for p in served_paths:
            t = t + a.w["fs"][p].size
        return t

    def allow_of(a):
        c = a.old.self.config
        return c._allow_for_missing_files if hasattr(c, "_o") else a.old.w["fs"][CFG].content["allow_for_missing_files"]

    ens = [
        ("returned_paths", lambda a, r: list(r) == served_paths),
        ("returned_exist_complete", lambda a, r: And(*[And(bool(a.w["fs"][p].exists), bool(a.w["fs"][p].complete)) for p in served_paths])),
        ("inv_content", lambda a, r: inv_content(a, expect(a))),
        ("hits_not_downloaded", lambda a, r: sorted(a.w["log"]) == sorted(DL(u) for u in misses)),   # as a multiset: real threads reorder
        ("inv_structure", lambda a, r: inv_structure(a)),
        ("size_bound", lambda a, r: size_bound(a)),
        ("enlarge_only_if_needed", lambda a, r: And(implies(le(req_total(a), maxb(a.old.self.config)), eq(maxb(a.self.config), maxb(a.old.self.config))),
                                                    implies(gt(req_total(a), maxb(a.old.self.config)), ge(maxb(a.self.config), req_total(a))))),
        ("lru_order", lambda a, r: _lru(a, served_paths, downloaded)),
        ("evict_minimal", lambda a, r: _minimal(a, served_paths, downloaded)),
        ("served_refreshed", lambda a, r: And(*[gt(recency(a.w["fs"][p]), a.w["clock0"]) for p in served_paths])),
        ("foreign_untouched", lambda a, r: foreign_untouched(a)),
        ("config_persisted", lambda a, r: config_persisted(a)),
        ("normal_exit_only_if_no_failure", lambda a, r: And(fail_kind in (None, "notfound"), implies(has_notfound, allow_of(a)))),
        ("failed_uri_not_cached", lambda a, r: And(*[And(not a.w["fs"][PATH(u)].exists, NAME(u) not in a.self._entries)
                                                     for u in misses if outcome(u) != "ok"])),
    ]

    def exc_state(a):
        """what every exceptional exit must leave behind: the invariant; everything cached before (and not rejected by its
        validator) still cached; the failed URI neither registered nor on disk, so that the next request fetches it afresh;
        other downloads of the request either registered with the right bytes or absent (inv_structure + inv_content)"""
        return And(inv_structure(a), inv_content(a, expect(a)), foreign_untouched(a), size_bound(a), config_persisted(a),
                   *([And(bool(a.w["fs"][PATH(u)].exists), NAME(u) in a.self._entries) for u in kept]
                     + ([And(not a.w["fs"][PATH(first_fail)].exists, NAME(first_fail) not in a.self._entries)] if first_fail else [])))

    raises = {
        "_RemoteResourceUriNotFound": lambda a: And(fail_kind == "notfound", Not(allow_of(a)), exc_state(a)),
        "OSError": lambda a: And(fail_kind in ("raise_before", "raise_partial"), exc_state(a)),
        "RuntimeError": lambda a: And(fail_kind == "pp_raise", exc_state(a)),
    }
    return Contract(
        F + "FileCache.__getitem__", label="FileCache.__getitem__." + label,
        params=params, requires=[("inv", inv_pre), ("inv_size", size_bound)], ensures=ens, raises=raises,
        call=call_without_world, native=S.native,
        options={"native_call": native_method("__getitem__"), "args_ns": S.args_ns, "raise_post_state": True},
    )


def _getitem_instances():
    out = []
    A_, B_, C_ = "a", "b", "c"
    table = [
        ("k0_m1", (), (A_,)), ("k0_m2", (), (A_, B_)), ("k0_m3", (), (C_, A_, B_)),
        ("k1_h1", (A_,), (A_,)), ("k1_m1", (A_,), (B_,)), ("k1_h1m1", (A_,), (B_, A_)), ("k1_h1m2", (A_,), (A_, B_, C_)),
        ("k1_m2", (B_,), (A_, C_)),
        ("k2_h1", (A_, B_), (B_,)), ("k2_h2", (A_, B_), (B_, A_)), ("k2_m1", (A_, B_), (C_,)), ("k2_h1m1", (A_, B_), (C_, A_)),
        ("k2_h2m1", (A_, B_), (A_, B_, C_)),
        ("k3_h1", (A_, B_, C_), (C_,)), ("k3_h2", (A_, B_, C_), (A_, C_)), ("k3_h3", (A_, B_, C_), (A_, B_, C_)),
    ]
    for label, cached, req in table:
        multi = len([u for u in req if u not in cached]) > 1
        out.append(getitem_contract(label, cached, req, parallel=None if multi else False, allow=True))
    # one resource under a comment suffix: its own file, fetched from the comment-free URI, next to the plain one
    V2 = "a<<v2"
    out.append(getitem_contract("comment_variant_miss", (A_,), (V2, A_), universe=(A_, V2, B_), parallel=False, allow=True))
    out.append(getitem_contract("comment_variant_both_cached", (A_, V2), (A_, V2, B_), universe=(A_, V2, B_), parallel=False, allow=True))
    # a missing remote object (tolerant or strict mode: symbolic)
    out.append(getitem_contract("k0_missing", (), (A_,), kinds={"a": "notfound"}, parallel=False))
    out.append(getitem_contract("k1_h1_missing", (B_,), (B_, A_), kinds={"a": "notfound"}, parallel=False))
    out.append(getitem_contract("k1_m1_missing_first", (B_,), (A_, C_), kinds={"a": "notfound"}))
    out.append(getitem_contract("k2_m1_missing_last", (A_, B_), (A_, C_), kinds={"c": "notfound"}, parallel=False))
    return out


# ----------------------------------------------------------------------------- _cache_eviction
def eviction_contract(cached):
    served_paths = []

    def params(mk):
        return sym_world(mk, cached=cached, parallel=False, allow=True)
    return Contract(
        F + "FileCache._cache_eviction", label="FileCache._cache_eviction.n%d" % len(cached),
        params=params, requires=[("inv", inv_pre), ("limit_nonnegative", lambda a: maxb(a.self.config) >= 0)],
        ensures=[
            ("size_bound", lambda a, r: size_bound(a)),
            ("lru_order", lambda a, r: _lru(a, served_paths, [])),
            ("evict_minimal", lambda a, r: _minimal(a, served_paths, [])),
            ("nothing_evicted_if_fits", lambda a, r: implies(le(total(a.old), maxb(a.self.config)),
                                                              And(*[bool(a.w["fs"][PATH(u)].exists) for u in cached]))),
            ("inv_structure", lambda a, r: inv_structure(a)),
            ("inv_content", lambda a, r: inv_content(a)),
            ("foreign_untouched", lambda a, r: foreign_untouched(a)),
            ("limit_unchanged", lambda a, r: eq(a.self.config.size_gb, a.old.self.config.size_gb)),
        ],
        call=call_without_world, native=S.native,
        options={"native_call": native_method("_cache_eviction"), "args_ns": S.args_ns, "raise_post_state": True},
    )


# ----------------------------------------------------------------------------- remove / purge / reopen
def remove_contract(label, cached, target):
    def params(mk):
        d = sym_world(mk, cached=cached, parallel=False, allow=True)
        d["unparsed_uri"] = U(target)
        return d
    others = [u for u in cached if u != target]
    return Contract(
        F + "FileCache.remove", label="FileCache.remove." + label,
        params=params, requires=[("inv", inv_pre), ("inv_size", size_bound)],
        ensures=[
            ("size_bound", lambda a, r: size_bound(a)),
            ("target_gone", lambda a, r: And(not a.w["fs"][PATH(target)].exists, NAME(target) not in a.self._entries)),
            ("others_kept", lambda a, r: And(*[And(bool(a.w["fs"][PATH(u)].exists), NAME(u) in a.self._entries) for u in others])),
            ("inv_structure", lambda a, r: inv_structure(a)),
            ("inv_content", lambda a, r: inv_content(a)),
            ("foreign_untouched", lambda a, r: foreign_untouched(a)),
            ("no_download", lambda a, r: list(a.w["log"]) == []),
        ],
        raises={"ValueError": lambda a: And(target not in cached, inv_structure(a), inv_content(a), foreign_untouched(a), size_bound(a))},
        call=call_without_world, native=S.native,
        options={"native_call": native_method("remove"), "args_ns": S.args_ns, "raise_post_state": True},
    )


def purge_contract(cached):
    def params(mk):
        return sym_world(mk, cached=cached, parallel=False, allow=True)
    return Contract(
        F + "FileCache.purge", label="FileCache.purge.n%d" % len(cached),
        params=params, requires=[("inv", inv_pre), ("inv_size", size_bound)],
        ensures=[
            ("size_bound", lambda a, r: size_bound(a)),
            ("empty", lambda a, r: And(len(a.self._entries) == 0, *[not a.w["fs"][p].exists for p in pattern_paths(a)])),
            ("inv_structure", lambda a, r: inv_structure(a)),
            ("foreign_untouched", lambda a, r: foreign_untouched(a)),
        ],
        call=call_without_world, native=S.native,
        options={"native_call": native_method("purge"), "args_ns": S.args_ns, "raise_post_state": True},
    )


def _open_call(evict):
    def call(interp, st, fv, args):
        cls = repo_class(st, CO, "FileCache")
        res = st.deref(st.deref(args["self"]).fields["resources"])
        new = interp.instantiate(st, cls, [], {"path": ROOT, "size_GB": args["size_GB"], "do_cache_eviction_on_startup": evict,
                                                "resources": st.deref(args["self"]).fields["resources"],
                                                "parallel": args["parallel"], "allow_for_missing_files": args["allow"]})
        # the contract speaks about the newly opened cache: it replaces the old handle
        st.heap[args["self"].id] = st.deref(new)
        return None
    return call


def _open_native_call(evict):
    def call(kw, inst):
        from ocean_science_utilities.filecache.cache_object import FileCache
        import warnings
        nw = kw["world"]
        with warnings.catch_warnings():
            warnings.simplefilter("ignore")
            c = FileCache(nw.dir, size_GB=kw["size_GB"], do_cache_eviction_on_startup=evict, resources=nw.cache.resources,
                          parallel=bool(kw["parallel"]), allow_for_missing_files=bool(kw["allow"]))
        nw.cache = c
        return None
    return call


def open_contract(cached, evict):
    """reopen: FileCache.__init__ on a directory left by any earlier session (Inv with arbitrary recency, any limit)"""
    def params(mk):
        d = sym_world(mk, cached=cached, parallel=None, allow=None)
        # the previous handle is gone: only the directory matters
        d.update({"size_GB": mk.real("arg_size_GB"), "parallel": mk.bool("arg_parallel"), "allow": mk.bool("arg_allow")})
        return d
    fits = lambda a: le(total(a.old), maxb(a.old.self.config))
    ens = [
        ("adopts_exactly_pattern_files", lambda a, r: inv_structure(a)),
        ("inv_content", lambda a, r: inv_content(a)),
        ("persisted_limit_wins", lambda a, r: eq(a.self.config.size_gb, a.old.w["fs"][CFG].content["size_gb"])),
        ("size_bound", lambda a, r: size_bound(a)),
        ("foreign_untouched", lambda a, r: foreign_untouched(a)),
        ("no_download", lambda a, r: list(a.w["log"]) == []),
    ]
    if not evict:
        ens.append(("nothing_removed", lambda a, r: And(*[bool(a.w["fs"][PATH(u)].exists) for u in cached])))
    else:
        ens += [("lru_order", lambda a, r: _lru(a, [], [])), ("evict_minimal", lambda a, r: _minimal(a, [], []))]
    return Contract(
        F + "FileCache.__init__", label="FileCache.__init__.%s.n%d" % ("evict" if evict else "strict", len(cached)),
        params=params, requires=[("inv", inv_pre), ("limit_nonnegative", lambda a: maxb(a.self.config) >= 0)],
        ensures=ens,
        raises={} if evict else {"ValueError": lambda a: And(Not(fits(a)), foreign_untouched(a),
                                                            *[bool(a.w["fs"][PATH(u)].exists) for u in cached])},
        call=_open_call(evict), native=S.native,
        options={"native_call": _open_native_call(evict), "args_ns": S.args_ns, "raise_post_state": True},
    )


CONTRACTS = ([config_init, cache_file_name, parse_directive] + _getitem_instances()
             + [eviction_contract(c) for c in ((), ("a",), ("a", "b"), ("a", "b", "c"))]
             + [remove_contract("cached", ("a", "b"), "a"), remove_contract("last", ("c",), "c"), remove_contract("absent", ("a",), "b")]
             + [purge_contract(c) for c in ((), ("b",), ("a", "b", "c"))]
             + [open_contract(c, e) for c in ((), ("a",), ("a", "c"), ("a", "b", "c")) for e in (False, True)])


# ----------------------------------------------------------------------------- bounded: the same statement on the real classes
def _wiring(tier, seed):
    """module-level named caches: distinct names <-> distinct directories, delete_cache purges"""
    import tempfile
    import shutil
    import warnings
    from ocean_science_utilities.filecache import filecache as FC
    fails, n = [], 0
    root = tempfile.mkdtemp(prefix="fc-wiring-")
    try:
        w = W.World(sizes=FB.SIZES, root=root)
        d1, d2 = os.path.join(root, "one"), os.path.join(root, "two")
        FC._ACTIVE_FILE_CACHES.clear()
        try:
            with warnings.catch_warnings():
                warnings.simplefilter("ignore")
                FC.create_cache("one", d1, cache_size_GB=1e-5, resources=[w.resource], download_in_parallel=False)
                FC.create_cache("two", d2, cache_size_GB=1e-5, resources=[w.resource], download_in_parallel=False)
                for nm, d in (("one", d2), ("three", d1 + "/"), ("two", d2)):
                    n += 1
                    try:
                        FC.create_cache(nm, d, resources=[w.resource])
                        fails.append({"clause": "wiring_unique", "detail": f"create_cache({nm!r}, {d!r}) accepted a duplicate name or path"})
                        FC._ACTIVE_FILE_CACHES.pop(nm, None) if nm == "three" else None
                    except ValueError:
                        pass
                FC.get_cache("one").disable_progress_bar = True
                FC.get_cache("two").disable_progress_bar = True
                p1 = FC.filepaths([FB.A, FB.B], "one")
                p2 = FC.filepaths(FB.A, "two")
                n += 2
                if not all(p.startswith(d1) for p in p1) or not p2[0].startswith(d2) or len(set(p1 + p2)) != 3:
                    fails.append({"clause": "wiring_paths", "detail": f"{p1} {p2}"})
                FC.delete_files(FB.A, "one")
                n += 1
                if os.path.exists(p1[0]) or not os.path.exists(p1[1]) or not os.path.exists(p2[0]):
                    fails.append({"clause": "wiring_delete_files", "detail": "delete_files removed the wrong file"})
                FC.delete_cache("one")
                n += 1
                if os.path.exists(p1[1]) or FC.exists("one") or not os.path.exists(p2[0]):
                    fails.append({"clause": "wiring_delete_cache", "detail": "delete_cache left files or touched another cache"})
        except Exception as e:      # noqa
            fails.append({"clause": "construct" if "item assignment" in str(e) else "wiring_raised", "detail": f"{type(e).__name__}: {e}"})
        finally:
            FC._ACTIVE_FILE_CACHES.clear()
        for f in fails:
            f["known_key"] = "wiring:" + f["clause"]
        return {"evaluations": n, "distinct": n, "failures": fails,
                "domain": "filecache.py create_cache/get_cache/filepaths/delete_files/delete_cache on two named caches (real code)"}
    finally:
        shutil.rmtree(root, ignore_errors=True)


BOUNDED = [Bounded("histories", FB.histories, "exhaustive bounded histories on the real FileCache, checked against the statement"),
           Bounded("wiring", _wiring, "module-level named caches")]

TRUSTED = [
    "abstract file system / clock / remote model of pyvc/models/fs.py (closed world: no other process touches the directory; strictly increasing clock; remote objects immutable)",
    "md5: the real digest on the concrete URI alphabet; an uninterpreted injective-by-hypothesis function for the name-pattern obligations",
    "ThreadPool.imap(f, xs) == [f(x) for x in xs] (true thread schedules are not explored; the bounded check runs the parallel mode on real threads)",
    "os.walk lists a flat directory in sorted order (the order only breaks ties between equal time stamps)",
    "URI alphabet of three resources: file names and dict keys are concrete, so the induction covers histories of any length over at most three distinct cached URIs",
]

EXPLANATION = (
    "Every public operation of FileCache (__init__ = reopen, __getitem__, remove, purge, and _cache_eviction) is executed symbolically from "
    "its current source on an abstract file system, for every population of the cache over a three-URI alphabet and every request shape "
    "(hits/misses/missing objects), with all file sizes, time stamps, the clock and the configured limit symbolic. Each operation requires the "
    "class invariant (entries = cache-pattern files on disk, complete, holding their resource's bytes) and ensures it again on normal and "
    "exceptional exit together with the request-level guarantees (paths returned in order, no download for a hit, size bound, enlargement only "
    "when needed, LRU order and minimality of eviction, served files refreshed, foreign files untouched, settings persisted). Induction over "
    "operations extends this to histories of any length. Exhaustive bounded histories on the real classes check the same statement (bounded)."
)
