"""Model of `numba.types.number_domain` membership tests (`type(x) in numba.types.number_domain`,
`x in numba.types.number_domain` inside @overload bodies).

Assumption (listed in the evidence as library contract numba.types.number_domain): the domain contains
exactly the scalar number types (ints, floats, bools are *not* numbers for numba but behave the same in
the only use the repository makes of it: `atleast_1d`, where both answers give a one-element array)."""
from .. import lib
from ..lib import TypeTag


class NumberDomain:
    def __repr__(self):
        return "<numba.types.number_domain>"


DOMAIN = NumberDomain()
lib.REG["numba.types.number_domain"] = DOMAIN


class Plugin:
    def special_contains(self, interp, st, container, item):
        if container is not DOMAIN:
            return NotImplemented
        lib.USED.add("numba.types.number_domain")
        if isinstance(item, TypeTag):
            return item.name in ("int", "float")
        return False


lib.PLUGINS.append(Plugin())
