"""C10 — roughness lengths: formulas, NaN-or-positive Janssen estimate, exit contract of the fixed-point solver behind the Charnock roughness.

Proved: drag_coefficient = (kappa/ln(z/z0))^2, roughness_wu positive with its closed form, _charnock_relation_point (capped
Charnock relation), _roughness_estimate_point returns NaN or exp(.) > 0 on every return path, the stress balance handed to the root finder.
The root finder numba_newton_raphson is no longer assumed: its exit contract (contracts/newton_common.py, shared with C11; the instance of this call is
re-verified here, the whole family under C11) is used at the call site: a roughness that comes out of the solver is exp(x) for a result x that left the
solver through its convergence test (last step < 1e-6 in log z0 from the last evaluation point of the balance), x in [-20, 0] widened by the initial
bracket g -/+ |g|/2 around g = log(guess) -- in [-20, 0] itself when -40/3 <= g <= 0; ValueError (no convergence / stationary point) only when the solver is reached.
tools/solvers.py::fixed_point_iteration (numpy input: 1-d array of any length with possibly-NaN cells, any function that maps missing cells
to missing cells, bounds none / lower / both, default configuration or any field values), by a loop invariant and a counting lemma:
  * left through `break` with fraction_of_points == 1: every cell with a finite guess passes the convergence test against the previous
    iterate p and equals clamp(function(p)) -- an approximate fixed point of the clamped function (backward-error form);
  * cells with a missing guess are returned missing on every exit;
  * loop exhausted: ValueError iff error_if_not_converged, otherwise every cell is NaN or passed the test in the last iteration;
  * the module-level `_iteration_depth` counter is restored on normal exits.
wavephysics/roughness.py::charnock_roughness_length_from_u10 (numpy input) uses that contract at its call site: the iterated function is
z -> alpha (kappa U / ln(10/z))^2 / g + [u* > 0] c nu / u*, it maps missing to missing, bounds (0, inf); on the converged exit the returned
roughness is that relation at a point within 1e-4 (absolute and relative) of it; missing wind speeds give missing roughness.
Bounded (never counted as proved): that the iteration converges, hence the residual of the implicit equation at the *returned* value,
monotonicity, and everything on DataArray / scalar inputs (drag_coefficient_charnock wraps its input in a DataArray: xarray path of the solver)."""
from fractions import Fraction
from pyvc.api import *
from pyvc.api import CalleeContract
from pyvc.values import Opaque
from pyvc.run import Lemma, Bounded

PROPERTY = "C10"
LEVEL = "other"
R = "wavephysics/roughness.py::"
B = "wavephysics/balance/"
KAPPA = Fraction(2, 5)


def _q(p, q, *like):
    return Fraction(p, q) if is_symbolic(*like) else p / q


def _is_nan(r):
    import pyvc.terms as _T
    if isinstance(r, _T.XR):
        return r.nan
    if isinstance(r, Opaque):
        return r.what == "nan"
    if is_symbolic(r):
        return False      # a real-sorted term: not NaN in the model
    try:
        return r != r
    except Exception:
        return False


# ------------------------------------------------------------------ formulas of roughness.py
drag = Contract(
    R + "drag_coefficient",
    params=lambda mk: {"u10": mk.real("u10"), "roughness": mk.real("z0")},
    requires=[("domain", lambda a: And(a.u10 > 0, a.roughness > 0, a.roughness < 10))],
    ensures=[("value", lambda a, r: eq(r, (_q(2, 5, r) / log(10 / a.roughness)) * (_q(2, 5, r) / log(10 / a.roughness)), rtol=1e-9))],
    witness=[lambda: ("", {"u10": 12.0, "roughness": 2e-4}), lambda: ("", {"u10": 0.3, "roughness": 3.0})],
)

wu = Contract(
    R + "roughness_wu",
    params=lambda mk: {"speed": mk.real("U")},
    requires=[("domain", lambda a: a.speed >= 0)],
    ensures=[("value", lambda a, r: eq(r, 10 / exp(_q(2, 5, r) / sqrt((_q(8, 10, r) + _q(65, 1000, r) * a.speed) / 1000)))),
             ("positive", lambda a, r: r > 0)],
    witness=[lambda: ("", {"speed": 0.0}), lambda: ("", {"speed": 25.0})],
)

CH_PARAMS = ["gravitational_acceleration", "charnock_constant", "charnock_maximum_roughness"]


def _minv(a, b):
    return If(a > b, b, a)


charnock_point = Contract(
    B + "wam_tail_stress.py::_charnock_relation_point",
    params=lambda mk: {"friction_velocity": mk.real("ustar"), "parameters": mk.record("parameters", {k: "real" for k in CH_PARAMS})},
    requires=[("positive", lambda a: And(a.parameters["gravitational_acceleration"] > 0, a.parameters["charnock_constant"] > 0,
                                         a.parameters["charnock_maximum_roughness"] > 0))],
    ensures=[("value", lambda a, r: eq(r, _minv(a.friction_velocity * a.friction_velocity / a.parameters["gravitational_acceleration"]
                                                * a.parameters["charnock_constant"], a.parameters["charnock_maximum_roughness"]))),
             ("nonneg", lambda a, r: r >= 0)],
)

# ------------------------------------------------------------------ Janssen estimate: NaN or positive
# the root finder: its exit contract is proved once in contracts/newton_common.py (arbitrary function, guess, bounds, tolerances) and used here at the
# call site: preconditions are obligations, the exit clauses are assumed for the result, ValueError may escape; every call is recorded (ghost)
from contracts.newton_common import solver_contract, newton_at_call
newton_solver = solver_contract(["both,plain"])        # the instance of the call below (finite bounds, no Aitken step); the whole family is verified under C11
NEWTON = newton_at_call("solver_calls")


def _p_estimate(wtype):
    def p(mk):
        nf, nd = mk.size("nf"), mk.size("nd")
        return {"guess": mk.real("guess"), "variance_density": mk.array("E", (nf, nd)),
                "wind": (mk.real("U"), mk.real("wdir"), wtype), "depth": mk.real("depth"),
                "wind_source_term_function": None, "tail_stress_parametrization_function": None,
                "spectral_grid": mk.record("spectral_grid", {"radian_frequency": ("array", (nf,)), "radian_direction": ("array", (nd,)),
                                                             "frequency_step": ("array", (nf,)), "direction_step": ("array", (nd,))}),
                "parameters": mk.record("parameters", {k: "real" for k in CH_PARAMS + ["vonkarman_constant"]})}
    return p


def _estimate_exit(a, r):
    """a value that comes out of the solver: z0 = exp(x) for the solver's result x; the solver left through its convergence test (errors are on),
    so the last step |x - p| in log z0 is below the configured 1e-6 at an evaluation point p; x lies in the search interval [-20, 0] widened by the
    initial bracket g -/+ |g|/2 around g = log(guess) -- in [-20, 0] itself (hence z0 <= 1, and z0 >= e^-20 by monotonicity of exp: mathematics)
    whenever -40/3 <= g <= 0, i.e. for a guessed roughness between e^(-40/3) = 1.6e-6 m and 1 m"""
    calls = a._ghost.get("solver_calls", ())
    if not calls:
        return True                       # NaN exits before the solver (missing spectrum values, zero wind)
    raw, x = calls[-1]
    g = raw.guess
    b0, b1 = g - absv(g) * Fraction(1, 2), g + absv(g) * Fraction(1, 2)
    return And(len(calls) == 1, eq(r, exp(x.result)), x.converged, absv(x.result - x.previous) < Fraction(1, 10 ** 6),
               absv(x.result - x.previous) / If(absv(x.previous) >= Fraction(1, 10 ** 6), absv(x.previous), Fraction(1, 10 ** 6)) < Fraction(1, 10 ** 6),
               Or(x.result >= -20, x.result >= b0), Or(x.result <= 0, x.result <= b1),
               implies(And(g >= Fraction(-40, 3), g <= 0), And(x.result >= -20, x.result <= 0, r <= 1)),
               implies(x.bracketed, And(x.b_lo < x.b_hi, x.b_lo <= x.result, x.result <= x.b_hi, x.F(x.b_lo) * x.F(x.b_hi) < 0)))


estimate_point = Contract(
    B + "stress.py::_roughness_estimate_point",
    instances=[(w, _p_estimate(w)) for w in ("u10", "friction_velocity", "ustar", "other")],
    requires=[("dims", lambda a: And(a.variance_density.shape[0] >= 0, a.variance_density.shape[1] >= 0))],
    ensures=[("nan_or_positive", lambda a, r: Or(_is_nan(r), False if _is_nan(r) else r > 0)),
             ("returned_roughness_is_exp_of_a_converged_solver_result_last_step_below_1e-6_in_log_roughness_within_the_search_interval_for_guesses_in_range",
              lambda a, r: _estimate_exit(a, r))],
    # the solver may raise (no convergence within 100 iterations, stationary point without a bracket): only when it is reached
    raises={"ValueError": lambda a: Or(And(a.guess < 0, a.wind[2] not in ("u10", "ustar", "friction_velocity")), a.wind[0] != 0)},
    callees={NEWTON.target: NEWTON},
)


# ------------------------------------------------------------------ the stress balance handed to the root finder
import pyvc.terms as _T
from pyvc.values import Arr as _Arr


def _same(x, y):
    return x is y or (hasattr(x, "id") and hasattr(y, "id") and x.id == y.id)


class _WindInputModel:
    """wind_source_term_function(variance_density, wind, depth, roughness_length, spectral_grid, parameters, work_array): some field"""

    def __call__(self, interp, st, args, kwargs):
        st.ghost["wind_input_calls"] = st.ghost.get("wind_input_calls", ()) + (tuple(args),)
        shp = st.deref(args[0]).shape
        return st.alloc(_T_sym_array("wind_input_field", shp), "generation")


def _T_sym_array(name, shp):
    from pyvc.values import sym_array
    return sym_array(_T.Fresh.name(name), shp)


def _total_stress_result(mk, a):
    r = (mk.real("total_stress"), mk.real("total_stress_direction"))
    mk.st.ghost["total_stress_call"] = (a, r)
    return r


TOTAL_STRESS = CalleeContract(B + "stress.py::_total_stress_point", _total_stress_result, assumed=True,
                              note="total (wave-supported + tail + viscous) stress magnitude and direction at the given roughness: some reals here")
BAL_PARAMS = ["vonkarman_constant", "elevation", "air_density"]


def _p_balance(wtype):
    def p(mk):
        nf, nd = mk.size("nf"), mk.size("nd")
        return {"log_roughness_length": mk.real("log_z0"), "variance_density": mk.array("E", (nf, nd)), "wind": (mk.real("U"), mk.real("wdir"), wtype),
                "depth": mk.real("depth"), "wind_source_term_function": _WindInputModel(), "tail_stress_parametrization_function": Opaque("tail"),
                "spectral_grid": Opaque("spectral_grid"), "parameters": mk.record("parameters", {k: "real" for k in BAL_PARAMS}),
                "work_array": mk.array("work", (nf, nd))}
    return p


def _balance_post(a, r):
    ca, (ts, td) = a._ghost["total_stress_call"]
    z0 = exp(a.log_roughness_length)
    par = a.parameters
    ustar = a.wind[0] * par["vonkarman_constant"] / log(par["elevation"] / z0) if a.wind[2] == "u10" else a.wind[0]
    raw = a._raw
    return And(eq(r, par["air_density"] * ustar * ustar - ts),
               eq(ca.roughness_length, z0), _same(ca.variance_density, raw["variance_density"]), _same(ca.depth, raw["depth"]) or eq(ca.depth, a.depth),
               eq(ca.wind[0], a.wind[0]), eq(ca.wind[1], a.wind[1]), ca.wind[2] == a.wind[2],
               _same(ca.wind_source_term_function, raw["wind_source_term_function"]),
               _same(ca.tail_stress_parametrization_function, raw["tail_stress_parametrization_function"]),
               _same(ca.spectral_grid, raw["spectral_grid"]), _same(ca.parameters, raw["parameters"]))


stress_balance = Contract(
    B + "stress.py::_stress_iteration_function", instances=[(w, _p_balance(w)) for w in ("u10", "friction_velocity")],
    requires=[("dims", lambda a: And(a.variance_density.shape[0] >= 0, a.variance_density.shape[1] >= 0))],
    ensures=[("air_density_ustar_squared_minus_total_stress_at_this_roughness", _balance_post)],
    callees={TOTAL_STRESS.target: TOTAL_STRESS},
)


# the total stress: wave-supported + tail (callee) plus the viscous stress along the wind
def _wss_result(mk, a):
    r = (mk.real("stress_east"), mk.real("stress_north"))
    mk.st.ghost["wss_call"] = (a, r)
    return r


WSS = CalleeContract(B + "stress.py::_wave_supported_stress_point", _wss_result, assumed=True,
                     note="east / north components of the wave-supported + tail stress: some reals here (C08/C09 cover their ingredients)")
TS_PARAMS = ["vonkarman_constant", "elevation", "air_density", "viscous_stress_parameter", "air_viscosity"]


def _p_total(wtype):
    def p(mk):
        nf, nd = mk.size("nf"), mk.size("nd")
        return {"roughness_length": mk.real("z0"), "variance_density": mk.array("E", (nf, nd)), "wind": (mk.real("U"), mk.real("wdir"), wtype),
                "depth": mk.real("depth"), "wind_source_term_function": _WindInputModel(), "tail_stress_parametrization_function": Opaque("tail"),
                "spectral_grid": Opaque("spectral_grid"), "parameters": mk.record("parameters", {k: "real" for k in TS_PARAMS}), "work_array": None}
    return p


def _total_post(a, r):
    par = a.parameters
    ustar = a.wind[0] * par["vonkarman_constant"] / log(par["elevation"] / a.roughness_length) if a.wind[2] == "u10" else a.wind[0]
    if "wss_call" not in a._ghost:
        return And(eq(ustar, 0), eq(r[0], 0), _is_nan(r[1]))
    ca, (se, sn) = a._ghost["wss_call"]
    visc = par["viscous_stress_parameter"] * par["air_density"] * ustar * par["air_viscosity"] / par["vonkarman_constant"] / a.roughness_length
    wr = a.wind[1] * _T.PI / 180
    n2, e2 = sn + visc * _T.uf("sin", wr), se + visc * _T.uf("cos", wr)
    return And(eq(r[0], sqrt(n2 * n2 + e2 * e2)), eq(r[1], mod(_T.UF2["arctan2"](_T.to_z3(n2), _T.to_z3(e2)) * 180 / _T.PI, 360)),
               eq(ca.roughness_length, a.roughness_length), _same(ca.variance_density, a._raw["variance_density"]), eq(ca.wind[0], a.wind[0]),
               eq(ca.wind[1], a.wind[1]), ca.wind[2] == a.wind[2])


total_stress = Contract(
    B + "stress.py::_total_stress_point", instances=[(w, _p_total(w)) for w in ("u10", "friction_velocity")],
    requires=[("dims", lambda a: And(a.variance_density.shape[0] >= 0, a.variance_density.shape[1] >= 0)), ("roughness", lambda a: a.roughness_length > 0)],
    ensures=[("vector_sum_of_wave_supported_and_viscous_stress_magnitude_and_direction", _total_post)],
    callees={WSS.target: WSS},
)


# the estimate hands exactly this balance to the root finder, on the search interval (e^-20, 1), and returns exp(root)
def _estimate_wiring(a, r):
    if "solver_calls" not in a._ghost:
        return True                       # NaN exits before the solver (missing spectrum values, zero wind)
    ca, x = a._ghost["solver_calls"][-1]
    root = x.result
    fa = ca.function_arguments
    raw = a._raw
    par = a.parameters
    if a.wind[2] == "u10":                # first guess when none is given: the roughness of Wu's drag law / the (capped) Charnock relation
        own = 10 / exp(par["vonkarman_constant"] / sqrt((Fraction(8, 10) + Fraction(65, 1000) * a.wind[0]) / 1000))
    else:
        own = _minv(a.wind[0] * a.wind[0] / par["gravitational_acceleration"] * par["charnock_constant"], par["charnock_maximum_roughness"])
    return And(len(a._ghost["solver_calls"]) == 1, eq(ca.guess, log(If(a.guess < 0, own, a.guess))),
               ca.atol == _T.from_float(1e-6), ca.rtol == _T.from_float(1e-6), ca.error_on_max_iter is True, ca.max_iterations == 100,
               ca.aitken_acceleration is False,
               getattr(ca.function, "qualname", "") == "_stress_iteration_function", _same(fa[0], raw["variance_density"]),
               eq(fa[1][0], a.wind[0]), eq(fa[1][1], a.wind[1]), fa[1][2] == a.wind[2], eq(fa[2], a.depth), fa[3] is raw["wind_source_term_function"],
               fa[4] is raw["tail_stress_parametrization_function"], _same(fa[5], raw["spectral_grid"]), _same(fa[6], raw["parameters"]),
               ca.hard_bounds[0] == -20, ca.hard_bounds[1] == 0, eq(r, exp(root)))


estimate_wiring = Contract(
    B + "stress.py::_roughness_estimate_point",
    instances=[(w, _p_estimate(w)) for w in ("u10", "friction_velocity")],
    requires=[("dims", lambda a: And(a.variance_density.shape[0] >= 0, a.variance_density.shape[1] >= 0))],
    ensures=[("solver_is_given_the_stress_balance_of_this_spectrum_and_wind_on_the_search_interval_from_the_log_of_the_guess_and_exp_of_its_root_is_returned", _estimate_wiring)],
    raises={"ValueError": lambda a: a.wind[0] != 0},          # only from the solver (no convergence / stationary point), hence only when it is reached
    callees={NEWTON.target: NEWTON},
    label="_roughness_estimate_point.wiring",
)


# ------------------------------------------------------------------ the fixed-point solver behind the Charnock roughness
import z3 as _z3
import pyvc.models.log    # noqa  (loggers: no modelled effect)
from pyvc.loops import LoopContract

S = "tools/solvers.py::"
SOLVERS_MODULE = "ocean_science_utilities.tools.solvers"
CFG_DEFAULT = {"atol": Fraction(1, 10000), "rtol": Fraction(1, 10000), "max_iter": 100, "aitken_acceleration": True, "fraction_of_points": 1,
               "error_if_not_converged": False}


class ArrayFn:
    """`function`: an arbitrary function from arrays to arrays of the same length (a fresh, unconstrained result at every call) with ONE
    hypothesis: a cell that is NaN in the argument is NaN in the result (missing in -> missing out).  The last call is recorded (ghost)."""

    def __call__(self, interp, st, args, kwargs):
        x = st.deref(args[0])
        if not isinstance(x, _Arr) or x.ndim != 1 or len(args) != 1 or kwargs:
            raise _T.Unsupported("function model: one 1-d array argument")
        f = _z3.Function(_T.Fresh.name("function_value"), _T.IntS, _T.RealS)
        g = _z3.Function(_T.Fresh.name("function_nan"), _T.IntS, _T.BoolS)
        res = _Arr(x.shape, lambda ix, x=x, f=f, g=g: _T.xr(f(_T.to_z3(ix[0])), _T.lor(_T.xnan(x.get(ix)), g(_T.to_z3(ix[0])))), (), "real", "function_result")
        st.ghost["function_call"] = (x, res)
        st.ghost["function_calls"] = st.ghost.get("function_calls", 0) + 1
        return st.alloc(res, "function_result")


def _cfg(c, name):
    """field of the configuration (the defaults of the dataclass when none / a default-constructed one is used)"""
    if c is None:
        return CFG_DEFAULT[name]
    try:
        return getattr(c, name)
    except AttributeError:
        return CFG_DEFAULT[name]


def _p_fpi(bounds, config):
    def p(mk):
        n = mk.size("n")
        d = {"function": ArrayFn(), "guess": mk.array("guess", (n,), "xreal")}
        if bounds == "lower":
            d["bounds"] = (mk.real("lower_bound"), _T.INF)
        elif bounds == "both":
            d["bounds"] = (mk.real("lower_bound"), mk.real("upper_bound"))
        d["configuration"] = None if config == "default" else mk.obj("configuration", "Configuration", {
            "atol": "real", "rtol": "real", "max_iter": "int", "aitken_acceleration": "bool",
            "fraction_of_points": "real", "error_if_not_converged": "bool"})
        mk.st.globals[(SOLVERS_MODULE, "_iteration_depth")] = mk.int("iteration_depth_before")      # module-level counter: any value on entry
        return d
    return p


def _finite_or_nan(v):
    """the value is NaN or a finite real (no infinity).  In the symbolic model this is the standing assumption (DESIGN 2.3: every real other than
    the literal np.inf is finite, so it evaluates to True); it is a genuine precondition of the executable twin"""
    from pyvc import lib as _lib
    if isinstance(v, _T.XR):
        return Or(v.nan, _lib._finite_plain(v.v))
    if is_symbolic(v):
        return _lib._finite_plain(v)          # np.isfinite of the library model (v != inf)
    import math
    return not math.isinf(v)


def _conv_test(x, p, atol, rtol):
    """the solver's convergence test between the new iterate x and the previous one p (false when either is NaN)"""
    d = absv(valof(x) - valof(p))
    ap = absv(valof(p))
    return And(notnan(x), notnan(p), d < atol, d / If(ap >= atol, ap, atol) < rtol)


def _clamp(v, p, bounds):
    """the solver's bounds step (symbolic values): a value at or below the finite lower bound (above the finite upper bound) is replaced
    by the midpoint of the previous iterate p and the bound; comparisons with NaN are false, so a NaN value is kept"""
    lo, hi = bounds
    half = Fraction(1, 2)
    if not (_T.is_sym(lo) and lo.eq(_T.NINF)):
        v = _T.ite(_T.cmp("<=", v, lo), _T.add(_T.mul(_T.sub(lo, p), half), p), v)
    if not (_T.is_sym(hi) and hi.eq(_T.INF)):
        v = _T.ite(_T.cmp(">", v, hi), _T.add(_T.mul(_T.sub(hi, p), half), p), v)
    return v


def _cell(arr, e):
    return arr.get((e,))


def _len(x):
    return x.n if hasattr(x, "n") else len(x)


def _fpi_bounds(a):
    return a.bounds if "bounds" in a else (_T.NINF, _T.INF)


def _inv_nan_stays(ns):
    g, it = ns.guess, ns.iterates
    return forall(0, g.n, lambda e: implies(isnan(g[e]), isnan(it[2][e])))


def _inv_converged_means_test(ns):
    it, c = ns.iterates, ns.configuration
    atol, rtol = _cfg(c, "atol"), _cfg(c, "rtol")
    return forall(0, ns.guess.n, lambda e: implies(ns.converged[e], _conv_test(it[2][e], it[1][e], atol, rtol)))


FPI_LOOP = LoopContract(invariant=[("missing_guess_cells_stay_missing", _inv_nan_stays),
                                   ("converged_flags_imply_the_convergence_test_between_the_last_two_iterates", _inv_converged_means_test)])


def _fpi_exit(a):
    return a._ghost.get("inv1.exit")


# ---- executable twin (witnesses on the real function): the function is wrapped so that its calls are recorded
class _NativeRun:
    def __init__(self, result, calls, depth_before, depth_after):
        self.result, self.calls, self.depth_before, self.depth_after = result, calls, depth_before, depth_after

    def __repr__(self):
        return f"result={self.result!r} function_calls={len(self.calls)} depth {self.depth_before}->{self.depth_after}"


def _fpi_native_call(kwargs, inst):
    import numpy as np
    from ocean_science_utilities.tools import solvers
    calls, f = [], kwargs["function"]

    def recording(x):
        y = f(x)
        calls.append((np.array(x, dtype="float64", copy=True), np.array(y, dtype="float64", copy=True)))
        return y
    kw = dict(kwargs, function=recording)
    d0 = solvers._iteration_depth
    try:
        res = solvers.fixed_point_iteration(**kw)
    except Exception:
        solvers._iteration_depth = d0        # (the counter is not restored on exceptional exits: outside the clauses)
        raise
    return _NativeRun(np.asarray(res, dtype="float64"), calls, d0, solvers._iteration_depth)


def _n_cfg(a, name):
    c = a.configuration if "configuration" in a else None
    return CFG_DEFAULT[name] if c is None else getattr(c, name)


def _n_test(x, p, atol, rtol):
    import numpy as np
    with np.errstate(all="ignore"):
        d = np.abs(x - p)
        return (d < atol) & (d / np.maximum(np.abs(p), atol) < rtol)


def _n_clamp(v, p, bounds):
    import numpy as np
    lo, hi = bounds
    with np.errstate(all="ignore"):
        if np.isfinite(lo):
            v = np.where(v <= lo, (lo - p) * 0.5 + p, v)
        if np.isfinite(hi):
            v = np.where(v > hi, (hi - p) * 0.5 + p, v)
    return v


def _n_converged_exit(a, R):
    """every finite-guess cell returned non-NaN: the loop was left by `break` (or every cell passed the test in the last iteration)"""
    import numpy as np
    fin = np.isfinite(a.guess)
    return bool(np.all(~np.isnan(R.result[fin])))


def _native_converged(a, R):
    import numpy as np
    if float(_n_cfg(a, "fraction_of_points")) != 1.0 or not _n_converged_exit(a, R):
        return True
    if not R.calls:
        return not np.isfinite(a.guess).any() and int(_n_cfg(a, "max_iter")) <= 0
    if _n_cfg(a, "aitken_acceleration") and int(_n_cfg(a, "max_iter")) % 3 == 0:
        return True          # an exhausted loop whose last step was an Aitken step is not told apart natively: not sampled
    prev, fprev = R.calls[-1]
    fin = np.isfinite(a.guess)
    bounds = a.bounds if "bounds" in a else (-np.inf, np.inf)
    ok = _n_test(R.result, prev, float(_n_cfg(a, "atol")), float(_n_cfg(a, "rtol"))) & np.isclose(R.result, _n_clamp(fprev, prev, bounds), rtol=1e-12, atol=0, equal_nan=True)
    return bool(np.all(ok[fin]))


def _native_exhausted(a, R):
    import numpy as np
    if _n_converged_exit(a, R) or not R.calls or (_n_cfg(a, "aitken_acceleration") and int(_n_cfg(a, "max_iter")) % 3 == 0):
        return True
    prev = R.calls[-1][0]
    ok = np.isnan(R.result) | _n_test(R.result, prev, float(_n_cfg(a, "atol")), float(_n_cfg(a, "rtol")))
    return bool(np.all(ok)) and not _n_cfg(a, "error_if_not_converged")


def _post_converged_exit(a, r):
    """loop left through `break` with fraction_of_points == 1: every cell whose guess is finite is an approximate fixed point"""
    if isinstance(r, _NativeRun):
        return _native_converged(a, r)
    if _fpi_exit(a) != "break":
        return True
    if "function_call" not in a._ghost:
        return False                 # left through `break` after a step that did not apply the function (Aitken extrapolation)
    prev, fprev = a._ghost["function_call"]
    c = a.configuration
    atol, rtol, frac = _cfg(c, "atol"), _cfg(c, "rtol"), _cfg(c, "fraction_of_points")
    bounds = _fpi_bounds(a)

    def cell(e):
        x, p = r[e], _cell(prev, e)
        return implies(notnan(a.guess[e]), And(_conv_test(x, p, atol, rtol), eq(x, _clamp(_cell(fprev, e), p, bounds))))
    return implies(eq(frac, 1), forall(0, a.guess.n, cell))


def _post_missing(a, r):
    if isinstance(r, _NativeRun):
        import numpy as np
        return bool(np.all(np.isnan(r.result[np.isnan(a.guess)])))
    return forall(0, a.guess.n, lambda e: implies(isnan(a.guess[e]), isnan(r[e])))


def _post_exhausted(a, r):
    """loop exhausted (for-else), errors off: a cell is NaN unless it passed the convergence test in the last iteration"""
    if isinstance(r, _NativeRun):
        return _native_exhausted(a, r)
    if _fpi_exit(a) != "exhausted":
        return True
    c = a.configuration
    it = a._ghost["locals"]["iterates"]
    prev = a._snap.deref(a._snap.deref(it)[1])
    return And(Not(_cfg(c, "error_if_not_converged")),
               forall(0, a.guess.n, lambda e: Or(isnan(r[e]), _conv_test(r[e], _cell(prev, e), _cfg(c, "atol"), _cfg(c, "rtol")))))


def _post_depth(a, r):
    if isinstance(r, _NativeRun):
        return r.depth_after == r.depth_before
    return eq(a._snap.globals[(SOLVERS_MODULE, "_iteration_depth")], _z3.Int("iteration_depth_before"))


def _post_length(a, r):
    if isinstance(r, _NativeRun):
        return tuple(r.result.shape) == tuple(a.guess.shape)
    return eq(r.n, a.guess.n)


def _fpi_witnesses():
    import numpy as np
    from ocean_science_utilities.tools.solvers import Configuration
    nan = float("nan")
    U = np.array([0.5, 7.0, nan, 25.0, 60.0])

    def charnock(z):
        with np.errstate(all="ignore"):
            us = 0.4 * U / np.log(10.0 / z)
            return 0.012 * us ** 2 / 9.81 + np.where(us > 0, 0.11 * 1.48e-5 / us, 0.0)
    half = lambda x: 0.5 * x + 1.0
    slow = lambda x: 0.999 * x + 1.0
    out = [("unbounded,default", {"function": half, "guess": np.array([0.0, 10.0, nan, -3.0])}),
           ("unbounded,default", {"function": np.cos, "guess": np.array([nan, 0.3, 1.0])}),
           ("unbounded,default", {"function": half, "guess": np.array([nan, nan])}),
           ("lower,default", {"function": charnock, "guess": 10.0 / np.exp(0.4 / np.sqrt((0.8 + 0.065 * U) / 1000)), "bounds": (0, np.inf)}),
           ("both,default", {"function": half, "guess": np.array([0.0, nan, 1.9]), "bounds": (-1.0, 1.75)}),
           ("unbounded,record", {"function": slow, "guess": np.array([0.0, nan, 1000.0]), "configuration": Configuration(max_iter=7)}),
           ("unbounded,record", {"function": slow, "guess": np.array([0.0, 1.0]), "configuration": Configuration(max_iter=5, error_if_not_converged=True)}),
           ("unbounded,record", {"function": half, "guess": np.array([0.0, nan, 5.0]), "configuration": Configuration(aitken_acceleration=False, atol=1e-8, rtol=1e-8)}),
           ("lower,record", {"function": half, "guess": np.array([4.0, nan]), "bounds": (1.0, np.inf), "configuration": Configuration(max_iter=0)})]
    return out


N_FPI_WITNESSES = 9


FPI_INST = [(f"{b},{c}", _p_fpi(b, c)) for b in ("unbounded", "lower", "both") for c in ("default", "record")]
import os as _os
if _os.environ.get("C10_FPI_ONLY"):          # debugging aid: restrict the solver contract to one instance
    FPI_INST = [x for x in FPI_INST if x[0] == _os.environ["C10_FPI_ONLY"]]
fixed_point = Contract(
    S + "fixed_point_iteration", instances=FPI_INST,
    requires=[("nonempty", lambda a: _len(a.guess) >= 1),
              ("guess_cells_are_finite_or_missing", lambda a: forall(0, _len(a.guess), lambda e: _finite_or_nan(a.guess[e]))),],
    ensures=[("converged_exit_every_finite_guess_cell_is_an_approximate_fixed_point_of_the_clamped_function", _post_converged_exit),
             ("missing_guess_cells_are_returned_missing", _post_missing),
             ("exhausted_exit_returns_nan_or_cells_that_passed_the_convergence_test_and_only_when_errors_are_off", _post_exhausted),
             ("iteration_depth_counter_restored", _post_depth),
             ("result_has_the_length_of_the_guess", _post_length)],
    raises={"ValueError": lambda a: And(("configuration" in a) and a.configuration is not None, _cfg(a.configuration if "configuration" in a else None, "error_if_not_converged"))},
    options={"loop_invariants": {lab: {1: FPI_LOOP} for lab, _ in FPI_INST}, "expose_locals": True, "sum_monotone": True, "native_call": _fpi_native_call},
    witness=[(lambda k=k: _fpi_witnesses()[k]) for k in range(N_FPI_WITNESSES)],
)
fixed_point.loops = {1: FPI_LOOP}


# ------------------------------------------------------------------ the same solver on a scalar (0-d array / numpy scalar) input
class ScalarFn:
    """`function` on a 0-d argument: an arbitrary 0-d result (fresh at every call) with the one hypothesis NaN in -> NaN out; the last call is recorded"""

    def __call__(self, interp, st, args, kwargs):
        x = st.deref(args[0])
        if not isinstance(x, _Arr) or x.ndim != 0 or len(args) != 1 or kwargs:
            raise _T.Unsupported("function model: one 0-d array argument")
        v, n = _T.Fresh.real("function_value"), _T.Fresh.bool("function_nan")
        res = _Arr((), lambda ix, x=x, v=v, n=n: _T.xr(v, _T.lor(_T.xnan(x.get(())), n)), (), "real", "function_result")
        st.ghost["function_call"] = (x, res)
        return st.alloc(res, "function_result")


def _p_fpi0(bounds, config):
    def p(mk):
        d = _p_fpi(bounds, config)(mk)
        d.update({"function": ScalarFn(), "guess": mk.array("guess", (), "xreal")})
        return d
    return p


def _inv0_nan_stays(ns):
    return implies(isnan(ns.guess[()]), isnan(ns.iterates[2][()]))


def _inv0_converged(ns):
    it, c = ns.iterates, ns.configuration
    return implies(ns.converged[()], _conv_test(it[2][()], it[1][()], _cfg(c, "atol"), _cfg(c, "rtol")))


FPI0_LOOP = LoopContract(invariant=[("missing_guess_stays_missing", _inv0_nan_stays),
                                    ("converged_flag_implies_the_convergence_test_between_the_last_two_iterates", _inv0_converged)])


def _post0_converged(a, r):
    if _fpi_exit(a) != "break":
        return True
    if "function_call" not in a._ghost:
        return False                 # left through `break` after a step that did not apply the function
    prev, fprev = a._ghost["function_call"]
    c = a.configuration
    x, p = r[()], prev.get(())
    return implies(And(eq(_cfg(c, "fraction_of_points"), 1), notnan(a.guess[()])),
                   And(_conv_test(x, p, _cfg(c, "atol"), _cfg(c, "rtol")), eq(x, _clamp(fprev.get(()), p, _fpi_bounds(a)))))


def _post0_exhausted(a, r):
    if _fpi_exit(a) != "exhausted":
        return True
    c = a.configuration
    it = a._ghost["locals"]["iterates"]
    prev = a._snap.deref(a._snap.deref(it)[1])
    return And(Not(_cfg(c, "error_if_not_converged")), Or(isnan(r[()]), _conv_test(r[()], prev.get(()), _cfg(c, "atol"), _cfg(c, "rtol"))))


FPI0_INST = [(f"{b},{c}", _p_fpi0(b, c)) for b, c in (("unbounded", "default"), ("lower", "default"), ("both", "record"))]
fixed_point_scalar = Contract(
    S + "fixed_point_iteration", instances=FPI0_INST,
    requires=[("guess_is_finite_or_missing", lambda a: _finite_or_nan(a.guess[()]))],
    ensures=[("converged_exit_a_finite_guess_gives_an_approximate_fixed_point_of_the_clamped_function", _post0_converged),
             ("missing_guess_is_returned_missing", lambda a, r: implies(isnan(a.guess[()]), isnan(r[()]))),
             ("exhausted_exit_returns_nan_or_a_value_that_passed_the_convergence_test_and_only_when_errors_are_off", _post0_exhausted),
             ("iteration_depth_counter_restored", _post_depth),
             ("result_is_0d", lambda a, r: tuple(r.shape) == ())],
    raises={"ValueError": lambda a: And(("configuration" in a) and a.configuration is not None, _cfg(a.configuration if "configuration" in a else None, "error_if_not_converged"))},
    options={"loop_invariants": {lab: {1: FPI0_LOOP} for lab, _ in FPI0_INST}, "expose_locals": True},
    label="fixed_point_iteration[0-d]",
)
fixed_point_scalar.loops = {1: FPI0_LOOP}


# ------------------------------------------------------------------ Charnock roughness from U10 (numpy input): the solver's exit contract at its call site
import pyvc.models.xr   # noqa  (charnock_roughness_length wraps its argument in a DataArray)
NU_AIR, GRAV = Fraction(37, 2500000), Fraction(981, 100)


def _cells_of(st, v):
    """e -> possibly-NaN cell of a 1-d numpy array or DataArray value of the symbolic run"""
    d = st.deref(v)
    if hasattr(d, "fields") and getattr(d, "cls", None) == "DataArray":
        arr, nan = d.fields["arr"], d.fields["nan"]
        return lambda e: _T.xr(arr.get((e,)), nan.get((e,)) if nan is not None else False)
    return lambda e: d.get((e,))


def _fpi_at_charnock_call(mk, a):
    """fixed_point_iteration as proved above (instance lower,default), used at the call in charnock_roughness_length_from_u10:
    its preconditions and the hypothesis on `function` are obligations here; its postconditions are assumed for a result array,
    the previous iterate `z` (exists by the proved postcondition: the argument of the last call of `function`) and the exit taken."""
    st, interp, ctx = mk.st, mk.interp, mk.ctx
    g = st.deref(a.guess)
    lo, hi = a.bounds
    if not (isinstance(g, _Arr) and g.ndim == 1 and a.configuration is None and _T.is_sym(hi) and hi.eq(_T.INF) and not _T.is_sym(lo)):
        raise _T.Unsupported("fixed_point_iteration call outside the proved instance (1-d numpy guess, bounds (finite, inf), default configuration)")
    n = g.shape[0]
    ctx.oblige(st, "pre.fixed_point_iteration.nonempty", _T.cmp(">=", n, 1))
    ctx.oblige(st, "pre.fixed_point_iteration.guess_cells_are_finite_or_missing", forall(0, n, lambda e: _finite_or_nan(g.get((e,)))))
    # hypothesis on the function: a missing cell of the argument is a missing cell of the result -- for an arbitrary argument array
    zref = mk.array("previous_iterate", (n,), "xreal")
    z = st.deref(zref)
    Fz = _cells_of(st, interp.call(st, a.function, [zref], {}))
    ctx.oblige(st, "pre.fixed_point_iteration.function_maps_missing_cells_to_missing_cells", forall(0, n, lambda e: implies(isnan(z.get((e,))), isnan(Fz(e)))))
    rref = mk.array("solver_result", (n,), "xreal")
    r = st.deref(rref)
    conv = mk.bool("solver_left_by_convergence")
    atol, rtol = CFG_DEFAULT["atol"], CFG_DEFAULT["rtol"]
    st.assume(_T.to_z3(forall(0, n, lambda e: implies(isnan(g.get((e,))), isnan(r.get((e,)))))))
    st.assume(_T.to_z3(implies(conv, forall(0, n, lambda e: implies(notnan(g.get((e,))), And(
        _conv_test(r.get((e,)), z.get((e,)), atol, rtol), eq(r.get((e,)), _clamp(Fz(e), z.get((e,)), (lo, hi)))))))))
    st.ghost["solver"] = {"previous_iterate": z, "converged_exit": conv, "guess": g, "function_at_previous_iterate": Fz}
    return rref


FPI_AT_CALL = CalleeContract(S + "fixed_point_iteration", _fpi_at_charnock_call,
                             note="contract proved above (instance lower,default): preconditions / function hypothesis are call-site obligations, postconditions assumed")


def _p_charnock(inst):
    def p(mk):
        n = mk.size("n")
        d = {"speed": mk.array("U", (n,), "xreal")}
        if inst == "constants_given":
            d.update({"charnock_constant": mk.real("alpha"), "viscous_constant": mk.real("c_visc")})
        return d
    return p


def _charnock_F(U, z, alpha, c):
    """alpha u*^2 / g + c nu / u* (viscous term only for u* > 0) with u* = kappa U / ln(10 / z)"""
    ustar = _T.div(_T.mul(KAPPA, U), _T.uf("log", _T.div(10, z)))
    return _T.add(_T.div(_T.mul(alpha, _T.mul(ustar, ustar)), GRAV), _T.ite(_T.cmp(">", ustar, 0), _T.div(_T.mul(c, NU_AIR), ustar), Fraction(0)))


class _NativeCharnock:
    def __init__(self, result, calls):
        self.result, self.calls = result, calls

    def __repr__(self):
        return f"z0={self.result!r} function_calls={len(self.calls)}"


def _charnock_native_call(kwargs, inst):
    """the real function, with the solver it calls wrapped so that the calls of the iterated function are recorded"""
    import numpy as np
    import warnings
    from ocean_science_utilities.wavephysics import roughness as Rm
    calls, orig = [], Rm.fixed_point_iteration

    def solver(function, guess, *args, **kw):
        def recording(x):
            y = function(x)
            calls.append((np.array(x, dtype="float64", copy=True), np.array(y, dtype="float64", copy=True)))
            return y
        return orig(recording, guess, *args, **kw)
    Rm.fixed_point_iteration = solver
    try:
        with warnings.catch_warnings():
            warnings.simplefilter("ignore")
            res = Rm.charnock_roughness_length_from_u10(**kwargs)
    finally:
        Rm.fixed_point_iteration = orig
    return _NativeCharnock(np.asarray(res, dtype="float64"), calls)


def _native_charnock_converged(a, R):
    import numpy as np
    U = np.asarray(a.speed, dtype="float64")
    ok_in = ~np.isnan(U)
    if not R.calls or np.isnan(R.result[ok_in]).any():
        return True                              # not the converged exit
    alpha = float(a.charnock_constant) if "charnock_constant" in a else 0.012
    c = float(a.viscous_constant) if "viscous_constant" in a else 0.0
    z = R.calls[-1][0]
    with np.errstate(all="ignore"):
        us = 0.4 * U / np.log(10.0 / z)
        F = alpha * us ** 2 / 9.81 + np.where(us > 0, c * 1.48e-5 / us, 0.0)
    ok = _n_test(R.result, z, 1e-4, 1e-4) & np.isclose(R.result, _n_clamp(F, z, (0, np.inf)), rtol=1e-9, atol=0)
    return bool(np.all(ok[ok_in]))


def _charnock_converged(a, r):
    if isinstance(r, _NativeCharnock):
        return _native_charnock_converged(a, r)
    sol = a._ghost["solver"]
    z, conv = sol["previous_iterate"], sol["converged_exit"]
    alpha = a.charnock_constant if "charnock_constant" in a else Fraction(12, 1000)
    c = a.viscous_constant if "viscous_constant" in a else Fraction(0)
    rc = _cells_of(a._snap, a._result_raw)
    atol, rtol = CFG_DEFAULT["atol"], CFG_DEFAULT["rtol"]

    def cell(e):
        U, ze, x = a.speed[e], z.get((e,)), rc(e)
        return implies(notnan(U), And(notnan(ze), _conv_test(x, ze, atol, rtol),
                                      eq(x, _clamp(_charnock_F(valof(U), valof(ze), alpha, c), valof(ze), (0, _T.INF)))))
    return implies(conv, forall(0, a.speed.n, cell))


def _charnock_missing(a, r):
    if isinstance(r, _NativeCharnock):
        import numpy as np
        return bool(np.isnan(r.result[np.isnan(np.asarray(a.speed, dtype="float64"))]).all())
    rc = _cells_of(a._snap, a._result_raw)
    return forall(0, a.speed.n, lambda e: implies(isnan(a.speed[e]), isnan(rc(e))))


# the relation itself: charnock_roughness_length(u*) cell by cell (numpy input; missing friction velocity -> missing roughness)
def _p_relation(mk):
    n = mk.size("n")
    return {"friction_velocity": mk.array("ustar", (n,), "xreal"), "charnock_constant": mk.real("alpha"), "viscous_constant": mk.real("c_visc")}


def _relation_post(a, r):
    if not is_symbolic(a.charnock_constant):
        import numpy as np
        u, z = np.asarray(a.friction_velocity, dtype="float64"), np.asarray(r, dtype="float64")
        with np.errstate(all="ignore"):
            ref = a.charnock_constant * u ** 2 / 9.81 + np.where(u > 0, a.viscous_constant * 1.48e-5 / u, 0.0)
        return bool(np.allclose(z, ref, rtol=1e-12, atol=0, equal_nan=True))
    rc = _cells_of(a._snap, a._result_raw)

    def cell(e):
        u = a.friction_velocity[e]
        uv = valof(u)
        ref = _T.add(_T.div(_T.mul(a.charnock_constant, _T.mul(uv, uv)), GRAV), _T.ite(_T.cmp(">", uv, 0), _T.div(_T.mul(a.viscous_constant, NU_AIR), uv), Fraction(0)))
        return And(iff(isnan(u), isnan(rc(e))), implies(notnan(u), eq(valof(rc(e)), ref)))
    return forall(0, a.friction_velocity.n, cell)


charnock_relation = Contract(
    R + "charnock_roughness_length", params=_p_relation,
    requires=[("dims", lambda a: _len(a.friction_velocity) >= 0)],
    ensures=[("alpha_ustar_squared_over_g_plus_viscous_term_for_positive_ustar_and_missing_iff_missing", _relation_post)],
    witness=[lambda: ("", {"friction_velocity": __import__("numpy").array([0.0, -0.2, 0.01, float("nan"), 0.35, 2.0]), "charnock_constant": 0.0185, "viscous_constant": 0.11})],
)


def _charnock_witnesses():
    import numpy as np
    nan = float("nan")
    U = np.array([0.1, 3.0, nan, 12.0, 33.0, 80.0, nan])
    return [("default_constants", {"speed": U}),
            ("constants_given", {"speed": U, "charnock_constant": 0.0185, "viscous_constant": 0.11}),
            ("constants_given", {"speed": np.array([nan, 7.5]), "charnock_constant": 0.005, "viscous_constant": 0.0}),
            ("constants_given", {"speed": np.linspace(0.1, 80.0, 50), "charnock_constant": 0.04, "viscous_constant": 0.11})]


CH_INST = [("constants_given", _p_charnock("constants_given")), ("default_constants", _p_charnock("default_constants"))]
charnock_from_u10 = Contract(
    R + "charnock_roughness_length_from_u10", instances=CH_INST,
    requires=[("nonempty", lambda a: _len(a.speed) >= 1), ("wind_speeds_nonnegative_or_missing", lambda a: forall(0, _len(a.speed), lambda e: Or(isnan(a.speed[e]), valof(a.speed[e]) >= 0)))],
    ensures=[("converged_solver_exit_returns_the_charnock_relation_at_a_point_within_the_tolerances_of_the_result", _charnock_converged),
             ("missing_wind_speeds_give_missing_roughness", _charnock_missing)],
    callees={FPI_AT_CALL.target: FPI_AT_CALL},
    options={"native_call": _charnock_native_call},
    witness=[(lambda k=k: _charnock_witnesses()[k]) for k in range(4)],
    label="charnock_roughness_length_from_u10[ndarray]",
)


# ------------------------------------------------------------------ bounded: Charnock implicit equation on the real functions
def _bounded_charnock(tier, seed):
    import warnings
    import numpy as np
    import xarray
    from ocean_science_utilities.wavephysics import roughness as Rm
    g, kap, nu = 9.81, 0.4, 1.48e-5
    nU = 200 if tier == "quick" else 2000
    U = np.linspace(0.1, 80.0, nU)
    failures, evals = [], 0

    def fail(kind, **kw):
        if sum(1 for f in failures if f["kind"] == kind) < 3:
            failures.append({"kind": kind, **kw})

    def check(z, Uv, alpha, c, label):
        us = kap * Uv / np.log(10.0 / z)
        F = alpha * us ** 2 / g + c * nu / us
        bad = ~((z > 0) & (np.abs(F - z) <= 1e-4 * np.maximum(z, 1e-4)))
        bad &= ~np.isnan(Uv)
        if bad.any():
            j = int(np.argmax(bad))
            fail("implicit_equation." + label, U=float(Uv[j]), alpha=alpha, viscous_constant=c, z0=float(z[j]), F_of_z0=float(F[j]))

    with warnings.catch_warnings():
        warnings.simplefilter("ignore")
        for alpha in (0.005, 0.0085, 0.012, 0.0185, 0.03, 0.04):
            for c in (0.0, 0.11):
                kw = {"charnock_constant": alpha, "viscous_constant": c}
                for label, arg in (("DataArray", xarray.DataArray(U)), ("ndarray", U)):
                    evals += nU
                    try:
                        z = np.asarray(Rm.charnock_roughness_length_from_u10(arg, **kw))
                        cd = np.asarray(Rm.drag_coefficient_charnock(arg, **kw))
                    except Exception as e:
                        fail("raises." + label, alpha=alpha, viscous_constant=c, error=repr(e)[:200])
                        continue
                    check(z, U, alpha, c, label)
                    if not np.allclose(cd, (kap / np.log(10.0 / z)) ** 2, rtol=1e-3, atol=0):
                        fail("drag_coefficient." + label, alpha=alpha, viscous_constant=c)
                    if c == 0.0 and not (np.all(np.diff(z) > 0) and np.all(np.diff(cd) > 0)):
                        fail("monotone_in_U." + label, alpha=alpha)
                # missing in -> missing out, other elements unaffected
                Un = U.copy()
                Un[::7] = np.nan
                evals += nU
                try:
                    zn = np.asarray(Rm.charnock_roughness_length_from_u10(xarray.DataArray(Un), **kw))
                    cdn = np.asarray(Rm.drag_coefficient_charnock(xarray.DataArray(Un), **kw))
                    if not (np.isnan(zn[::7]).all() and np.isnan(cdn[::7]).all()):
                        fail("nan_in_nan_out", alpha=alpha, viscous_constant=c)
                    ok = ~np.isnan(Un)
                    if np.isnan(zn[ok]).any():
                        fail("nan_spreads", alpha=alpha, viscous_constant=c)
                    else:
                        check(np.where(ok, zn, 1.0), Un, alpha, c, "with_nan")
                except Exception as e:
                    fail("raises.with_nan", alpha=alpha, viscous_constant=c, error=repr(e)[:200])
                # scalars (python float, numpy scalar, 0-d DataArray)
                for Us in (0.1, 7.5, 33.0, 80.0):
                    for label, arg in (("float", float(Us)), ("float64", np.float64(Us)), ("DataArray0d", xarray.DataArray(Us))):
                        evals += 1
                        try:
                            z = np.atleast_1d(np.asarray(Rm.charnock_roughness_length_from_u10(arg, **kw), dtype="float64"))
                            cd = np.atleast_1d(np.asarray(Rm.drag_coefficient_charnock(arg, **kw), dtype="float64"))
                        except Exception as e:
                            fail("raises.scalar." + label, U=Us, alpha=alpha, viscous_constant=c, error=repr(e)[:200])
                            continue
                        check(z, np.array([Us]), alpha, c, "scalar." + label)
                        if not np.allclose(cd, (kap / np.log(10.0 / z)) ** 2, rtol=1e-3, atol=0):
                            fail("drag_coefficient.scalar." + label, U=Us, alpha=alpha)
    return {"evaluations": int(evals), "distinct": int(evals), "failures": failures,
            "domain": (f"charnock_roughness_length_from_u10 / drag_coefficient_charnock on {nU} wind speeds in [0.1,80] m/s x Charnock constants "
                       "{0.005,0.0085,0.012,0.0185,0.03,0.04} x viscous constant {0,0.11}; DataArray, ndarray, every 7th element NaN, python/numpy scalars and 0-d "
                       "DataArray; oracle |alpha u*^2/g + c nu/u* - z0| <= 1e-4 max(z0,1e-4) at the returned z0, Cd = (kappa/ln(10/z0))^2, NaN<->NaN, increasing in U without viscous term")}


def _bounded_janssen(tier, seed):
    """wave-dependent roughness on the compiled code: NaN or positive; where an independent scan of the stress balance over (e^-20, 1) m shows a
    single sign change, the returned roughness closes rho_air u*^2 = total stress to 1e-4 relative.  Winds aligned with, oblique to and opposing
    the waves; U10 and friction-velocity forcing; deep and finite depth."""
    import numpy as np
    import warnings
    import xarray
    warnings.filterwarnings("ignore")
    from ocean_science_utilities.wavespectra.spectrum import create_2d_spectrum
    from ocean_science_utilities.wavephysics.balance.st4_wind_input import ST4WindInput
    rng = np.random.default_rng(seed + 23)
    n_spec = 3 if tier == "quick" else 12
    f = np.linspace(0.04, 0.8, 30)
    d = np.linspace(0, 360, 24, endpoint=False)
    gen = ST4WindInput()
    par = gen.parameters
    rho, kap, elev = float(par["air_density"]), float(par["vonkarman_constant"]), float(par["elevation"])
    fails, evals, closed, nans, samples = [], 0, 0, 0, []
    logz = np.linspace(-19.75, -0.05, 80)
    for k in range(n_spec):
        fp, md = rng.uniform(0.1, 0.25), rng.uniform(0, 360)
        # wind sea of realistic steepness Hs*kp/2 in 0.03..0.08 (the balance of an arbitrary level need not have a single root)
        kp = (2 * np.pi * fp) ** 2 / 9.81
        hs = 2 * rng.uniform(0.03, 0.08) / kp
        E1 = (f / fp) ** -5 * np.exp(-1.25 * (f / fp) ** -4)
        E1 = E1 / np.trapezoid(E1, f) * (hs / 4) ** 2
        D = np.abs(np.cos(np.radians(d - md) / 2)) ** (2 * rng.uniform(3, 10))
        D = D / (D.sum() * 15.0)
        offsets = np.array([0.0, 25.0, -40.0, 70.0, 120.0, 180.0])                 # wind relative to the waves: aligned, oblique, opposing
        npnt = len(offsets)
        E = np.broadcast_to((E1[:, None] * D[None, :])[None], (npnt, len(f), len(d))).copy()
        depth = np.full(npnt, np.inf) if k % 2 == 0 else np.full(npnt, rng.uniform(15, 60))
        spec = create_2d_spectrum(f, d, E, np.arange(npnt) * 3600.0, np.zeros(npnt), np.zeros(npnt), depth=depth)
        for wtype in ("u10", "friction_velocity"):
            speed = rng.uniform(5, 25, npnt) if wtype == "u10" else rng.uniform(0.15, 1.0, npnt)
            U = xarray.DataArray(speed, dims=["time"])
            Ud = xarray.DataArray((md + offsets) % 360, dims=["time"])
            try:
                z0 = gen.roughness(U, Ud, spec, wind_speed_input_type=wtype).values
            except Exception as e:
                evals += 1
                # which member?  (each alone)
                culprit = []
                for p in range(npnt):
                    sp1 = create_2d_spectrum(f, d, E[p:p + 1], np.array([0.0]), np.zeros(1), np.zeros(1), depth=depth[p:p + 1])
                    try:
                        gen.roughness(xarray.DataArray(speed[p:p + 1], dims=["time"]), xarray.DataArray(Ud.values[p:p + 1], dims=["time"]), sp1, wind_speed_input_type=wtype)
                    except Exception:
                        culprit.append({"wind_offset": float(offsets[p]), "speed": float(speed[p]), "depth": float(depth[p])})
                fails.append({"what": "roughness raised instead of returning NaN or a positive length", "error": repr(e)[:200], "wind_type": wtype, "spectrum": k,
                              "peak_frequency": float(fp), "wave_direction": float(md), "level": float(E1.max()), "members_that_raise_alone": culprit[:3]})
                continue

            def balance(zz):
                st = gen.stress(spec, U, Ud, roughness_length=xarray.DataArray(zz, dims=["time"]), wind_speed_input_type=wtype)["stress"].values
                us = speed * kap / np.log(elev / zz) if wtype == "u10" else speed
                return rho * us ** 2 - st, rho * us ** 2
            def scan_at(lz):
                try:
                    return balance(np.full(npnt, np.exp(lz)))[0]
                except Exception:
                    return np.full(npnt, np.nan)      # the stress itself is not evaluable at this roughness (tail-stress solver): case skipped below
            scan = np.stack([scan_at(lz) for lz in logz], axis=1)
            for p in range(npnt):
                evals += 1
                case = {"spectrum": k, "peak_frequency": float(fp), "wave_direction": float(md), "wind_offset": float(offsets[p]), "wind_type": wtype,
                        "speed": float(speed[p]), "depth": float(depth[p]), "z0": float(z0[p])}
                if np.isnan(z0[p]):
                    nans += 1
                    continue
                if not (z0[p] > 0 and np.isfinite(z0[p])):
                    fails.append(dict(case, what="roughness is neither NaN nor a positive length"))
                    continue
                row = scan[p]
                ok = np.isfinite(row)
                changes = int(np.sum((row[:-1] * row[1:] < 0) & ok[:-1] & ok[1:]))
                if changes != 1 or not ok[logz <= -2.0].all():
                    continue          # premise not established: one sign change, and the balance evaluable at every scan point up to z = e^-2 m
                                      # (above that the tail-stress solver of the library itself may fail; those points are skipped)
                zz = np.where(np.arange(npnt) == p, z0[p], 1e-4)
                try:
                    res, scale = balance(zz)
                except Exception as e:
                    fails.append(dict(case, what="stress not evaluable at the returned roughness", error=repr(e)[:120]))
                    continue
                if abs(res[p]) <= 1e-4 * scale[p]:
                    closed += 1
                else:
                    fails.append(dict(case, what="returned roughness does not close rho_air u*^2 = total stress (1e-4 relative)", relative_residual=float(abs(res[p]) / scale[p])))
                if len(samples) < 3:
                    samples.append(case)
    if closed == 0:
        fails.append({"what": "no case with a single root and a finite roughness in the whole domain (vacuous)", "evaluations": evals})
    return {"evaluations": evals, "distinct": evals, "failures": fails[:6], "samples": samples,
            "domain": (f"ST4 input with WAM tail stress, {n_spec} JONSWAP-type seas (deep / 15-60 m) x 6 wind directions relative to the waves (0, 25, -40, 70, 120, 180 deg) x "
                       f"U10 5-25 m/s and u* 0.15-1 m/s; balance scanned at 80 roughness values in (e^-19.75, e^-0.05), premise = exactly one sign change and every scan value up to e^-2 m finite; seas of steepness 0.03-0.08; closed={closed} nan={nans}")}


BOUNDED = [Bounded("janssen.stress_balance.compiled", _bounded_janssen, "NaN-or-positive and closure of the stress balance at the returned roughness"),
           Bounded("charnock.implicit_equation", _bounded_charnock, "residual of the implicit Charnock equation at the returned roughness; NaN handling; monotonicity")]
CONTRACTS = [drag, wu, charnock_point, newton_solver, estimate_point, stress_balance, total_stress, estimate_wiring, fixed_point, fixed_point_scalar, charnock_relation, charnock_from_u10]
TRUSTED = ["A-table: exp(x) > 0; exp(x) <= 1 for x <= 0; sqrt(x) > 0 for x > 0; log is an uninterpreted function (formula contracts are syntactic in log); that e^-20 <= exp(x) "
           "for x >= -20 (monotonicity of exp) is mathematics outside the contract: the clause is stated for x = log z0",
           "numba_newton_raphson: the function handed to it is a deterministic, total, real-valued function of its first argument (NaN stress values are outside the model); "
           "a division by zero is an unspecified real (numba raises ZeroDivisionError, which _roughness_estimate's bare except turns into NaN)",
           "np.nan is an opaque non-real value in the model of the scalar contracts; the solver / Charnock contracts use possibly-NaN cells (value + missing flag, IEEE propagation, "
           "comparisons with NaN false); infinities are not modelled (standing assumption: every real other than the literal np.inf is finite; the solver contract's precondition "
           "`guess_cells_are_finite_or_missing` is therefore trivially true symbolically and a real precondition of the executable twin)",
           "fixed_point_iteration: the iterated function is an arbitrary array function with the single hypothesis NaN cell in => NaN cell out (checked at the Charnock call site for "
           "an arbitrary argument array); arrays must be non-empty (np.nanmax of an empty array raises ValueError in the first iteration)",
           "Sum lemma schema `monotone` (pyvc/terms.py, contract option sum_monotone): pointwise ordered terms give ordered sums, strictly if strict at one index of the range",
           "logging calls and the f-string log messages have no modelled effect"]
EXPLANATION = ("formula fragments, the NaN-or-positive exit contract of the Janssen estimate with the proved exit contract of the hybrid Newton solver at its call site (converged exit, last step "
               "< 1e-6 in log z0, search interval), the stress balance wiring, the exit contract of the fixed-point solver (numpy input) and its use by "
               "charnock_roughness_length_from_u10 are proved; convergence of the iterations, the residual at the returned roughness and DataArray / scalar inputs are bounded checks on the real functions")
