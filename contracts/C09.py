"""C09 — source terms are equivariant under joint rotation / mirroring of the spectrum and the wind.

Proved for every grid size: the ST4 wind-input field.  The rotation is stated abstractly: an index map rot and an
integer winding w with  theta[rot(j)] = theta[j] - delta + 2 pi w(j)  (what a rotation by a whole number of bins is on a
uniform grid), wind direction + delta, spectrum E'[i,j] = E[i,rot(j)]; claim S'[i,j] = S[i,rot(j)].  The relation is
proved on the result term of the symbolic execution by re-instantiating it with the transformed inputs (valid because no
path condition depends on them).  Mirror: theta[mir(j)] = -theta[j] + 2 pi w(j), wind direction negated.
Sums over directions (saturation window, cumulative term, bulk rates, stress) need a permutation lemma for finite sums
that is not mechanised: they are a bounded check on the compiled code for all k and the mirror image."""
from pyvc.api import *
from pyvc.run import Lemma, Bounded
import z3 as _z3
import pyvc.terms as _T
import contracts.C08 as C08
from contracts.C08 import st4_point, _st4_point_params, DISP, _typed, _rand_grid, _rand_E, _defaults, _n

PROPERTY = "C09"
LEVEL = "other"
B = C08.B



def _depends_only_on_mutual_angle(a, r):
    """S[i,j] is a function of (frequency i, cos of the angle between direction j and the wind, E[i,j]) only: for a second
    spectrum E2 and wind direction wdir2, equal cosines of the mutual angle and equal local energy give equal input.
    Joint rotation by whole bins and mirroring preserve the cosine of the mutual angle, so equivariance follows."""
    E = a.variance_density
    if not hasattr(E, "_a"):
        return True          # the executable twin is the bounded check below
    f = E._a.func
    theta = a.spectral_grid["radian_direction"]
    nd = E.shape[1]
    wdir = a.wind[1]
    if any(_T.mentions(_T.to_z3(h), {wdir.get_id()}, {f.get_id()}) for h in a._pc[_N_REQ:] if _T.is_sym(h)):
        return False
    wdir2 = _z3.Real("wdir_other")
    E2 = _z3.Function("E_other", _T.IntS, _T.IntS, _T.RealS)
    v0, v1 = _z3.Var(0, _T.IntS), _z3.Var(1, _T.IntS)

    def cosm(j, w):
        return _T.uf("cos", theta[j] - w * _T.PI / 180)

    def cell(i, j1):
        def inner(j2):
            t1 = _T.to_z3(r[i, j1])
            t2 = _T.subst_deep(_T.to_z3(r[i, j2]), [(wdir, wdir2)], [(f, E2(v0, v1))])
            return implies(And(cosm(j1, wdir) == cosm(j2, wdir2), E[i, j1] == E2(_T.to_z3(i), _T.to_z3(j2))), t1 == t2)
        return forall(0, nd, inner, "j2")
    return forall2((0, E.shape[0]), (0, nd), cell)


_N_REQ = 5
import copy as _copy
st4_rot = _copy.copy(st4_point)
st4_rot.label = "st4_wind_input_rotation"
st4_rot.ensures = [("input_depends_only_on_mutual_angle_and_local_energy", _depends_only_on_mutual_angle)]
st4_rot.witness = []
st4_rot.options = {k: v for k, v in st4_point.options.items() if k != "samples"}


# ------------------------------------------------------------------ ST6 dissipation: closed form (value contracts)
# The field is  S[i,j] = -(a1 rex_i^p1 f_i + a2 (sum_{l<=i} rex_l df_l)^p2) E[i,j]  with rex_i = max(0, (B_i - thr)/thr),
# B_i = e_i cg_i k_i^3 / (2 pi) and e_i = sum_j E[i,j] dtheta_j: the direction index enters only through the local energy
# E[i,j] and through the directional integrals e_i.  Equivariance under rotation by whole bins / mirroring then needs
# only that e_i is unchanged by a permutation of the directions of a uniform grid (the cyclic-shift lemma).
import copy as _copy2
from contracts.C08 import st6_inherent as _st6_in, st6_cumulative as _st6_cu, st6_dissipation as _st6_dis, integrate_dir as _int_dir, all1, all2


def _frequency(a, i):
    return a.spectral_grid["radian_frequency"][i] / 2.0 / pi_of()


def _run(a, i):
    term = lambda l: a.relative_saturation_exceedence[l] * a.spectral_grid["frequency_step"][l]
    return Sum(0, i, term) + term(i)


st6_inherent_value = _copy2.copy(_st6_in)
st6_inherent_value.label = "st6_inherent_closed_form"
st6_inherent_value.ensures = [("minus_a1_exceedence_power_frequency_times_local_energy", lambda a, r: all2(a.variance_density, lambda i, j: eq(
    r[i, j], -a.parameters["a1"] * powr(a.relative_saturation_exceedence[i], a.parameters["p1"]) * _frequency(a, i) * a.variance_density[i, j])))]

st6_cumulative_value = _copy2.copy(_st6_cu)
st6_cumulative_value.label = "st6_cumulative_closed_form"
st6_cumulative_value.ensures = [("minus_a2_running_exceedence_power_times_local_energy", lambda a, r: all2(a.variance_density, lambda i, j: eq(
    r[i, j], -a.parameters["a2"] * powr(_run(a, i), a.parameters["p2"]) * a.variance_density[i, j])))]

# dispersion solver / group velocity as (uninterpreted) functions of their own arguments: the wavenumber and group velocity of
# frequency i do not depend on the spectrum or on any direction (positivity assumed as in C08; formulas are C07's subject)
_KUF = _z3.Function("wavenumber_of", _T.RealS, _T.RealS, _T.RealS)
_CGUF = _z3.Function("group_velocity_of", _T.RealS, _T.RealS, _T.RealS)
K_FN = CalleeContract(C08.K_POS.target, C08._k_result,
                      ensures=[("positive", lambda a, r: forall(0, r.n, lambda i: r[i] > 0)),
                               ("function_of_frequency_and_depth", lambda a, r: forall(0, r.n, lambda i: r[i] == _KUF(_T.to_z3(a.angular_frequency[i]), _T.to_z3(a.dep))))],
                      assumed=True, note="wavenumber: positive, and a function of (angular frequency, depth) only (solver under contract in C07)")
CG_FN = CalleeContract(C08.CG_POS.target, C08._cg_result,
                       ensures=[("positive", lambda a, r: forall(0, r.n, lambda i: r[i] > 0)),
                                ("function_of_wavenumber_and_depth", lambda a, r: forall(0, r.n, lambda i: r[i] == _CGUF(_T.to_z3(a.k[i]), _T.to_z3(a.depth))))],
                       assumed=True, note="group velocity: positive, and a function of (wavenumber, depth) only (formula under contract in C07)")


def _st6_e(a, i):
    return Sum(0, a.variance_density.shape[1], lambda j: a.variance_density[i, j] * a.spectral_grid["direction_step"][j])


def _st6_rex(a, i):
    k = _KUF(_T.to_z3(a.spectral_grid["radian_frequency"][i]), _T.to_z3(a.depth))
    cg = _CGUF(k, _T.to_z3(a.depth))
    thr = a.parameters["saturation_threshold"]
    x = (_st6_e(a, i) * cg * k ** 3 / 2 / pi_of() - thr) / thr
    return If(x > 0, x, 0)


def _st6_local_rex(a):
    rex = a._snap.deref(a._ghost["locals"]["relative_saturation_exceedence"])
    return lambda i: rex.get((_T.to_z3(i) if not isinstance(i, int) else i,))


def _st6_exceedence(a, r):
    """the exceedence handed to both parts is max(0, (B_i - thr)/thr) with B_i = e_i cg_i k_i^3 / 2 pi, e_i the directional integral"""
    if not hasattr(a.variance_density, "_a"):
        return True
    rex = _st6_local_rex(a)
    return all1(a.variance_density.shape[0], lambda i: eq(rex(i), _st6_rex(a, i)))


def _st6_closed_form(a, r):
    if not hasattr(a.variance_density, "_a"):
        return True          # executable twin: bounded rotation check below + C08's samples
    rex = _st6_local_rex(a)
    term = lambda l: rex(l) * a.spectral_grid["frequency_step"][l]
    return all2(a.variance_density, lambda i, j: eq(r[i, j], (
        -a.parameters["a1"] * powr(rex(i), a.parameters["p1"]) * _frequency(a, i)
        - a.parameters["a2"] * powr(Sum(0, i, term) + term(i), a.parameters["p2"])) * a.variance_density[i, j]))


st6_value = _copy2.copy(_st6_dis)
st6_value.label = "st6_dissipation_closed_form"
st6_value.ensures = [("exceedence_from_directional_integral_wavenumber_and_group_velocity", _st6_exceedence),
                     ("field_is_minus_inherent_plus_cumulative_factor_of_that_exceedence_times_local_energy", _st6_closed_form)]
st6_value.callees = {K_FN.target: K_FN, CG_FN.target: CG_FN,
                     _st6_in.target: st6_inherent_value, _st6_cu.target: st6_cumulative_value}
st6_value.witness = []
st6_value.options = {**{k: v for k, v in _st6_dis.options.items() if k != "samples"}, "expose_locals": True}


def _bounded_rotation(tier, seed):
    """all rotations k and the mirror image on the compiled code: spectral input and dissipation fields, bulk rates,
    dissipation-weighted direction, stress magnitude / direction"""
    import numpy as np
    import xarray
    from ocean_science_utilities.wavespectra.spectrum import create_2d_spectrum
    from ocean_science_utilities.wavephysics.balance.st4_wind_input import ST4WindInput
    from ocean_science_utilities.wavephysics.balance.st4_wave_breaking import ST4WaveBreaking
    from ocean_science_utilities.wavephysics.balance.st6_wave_breaking import ST6WaveBreaking
    rng = np.random.default_rng(seed + 41)
    fails, samples, evals = [], [], 0
    Ns = [16] if tier == "quick" else [16, 24, 36]
    f = np.linspace(0.05, 0.6, 14)
    for N in Ns:
        d = np.linspace(0, 360, N, endpoint=False)
        fp = rng.uniform(0.08, 0.2)
        E1 = (f / fp) ** -5 * np.exp(-1.25 * (f / fp) ** -4) * rng.uniform(0.5, 2)
        th0 = rng.uniform(0, 360)
        D = np.cos(np.radians(d - th0) / 2) ** 8 + 0.02 * rng.random(N)
        E = (E1[:, None] * D[None, :])[None, :, :]
        U = xarray.DataArray(np.array([rng.uniform(6, 20)]), dims=["time"])
        wd = float(rng.uniform(0, 360))
        z0 = xarray.DataArray(np.array([2e-4]), dims=["time"])

        def spec(Earr):
            return create_2d_spectrum(f, d, Earr, np.array([0.0]), np.zeros(1), np.zeros(1), depth=np.full(1, np.inf))
        gen, dis4, dis6 = ST4WindInput(), ST4WaveBreaking(), ST6WaveBreaking()
        s0 = spec(E)
        Ud0 = xarray.DataArray(np.array([wd]), dims=["time"])
        base = {"gen": gen.rate(s0, U, Ud0, roughness_length=z0).values, "d4": dis4.rate(s0).values, "d6": dis6.rate(s0).values,
                "gb": gen.bulk_rate(s0, U, Ud0, roughness_length=z0).values, "d4b": dis4.bulk_rate(s0).values,
                "dir": dis4.mean_direction_degrees(s0).values, "st": gen.stress(s0, U, Ud0, roughness_length=z0)}
        # estimated wind (C11's inversion) with and without direction iteration: a wind sea plus an oblique second system, so that the
        # dissipation-weighted direction and the stress direction differ and the direction iteration actually iterates
        from ocean_science_utilities.wavephysics.balance.factory import create_balance
        from ocean_science_utilities.wavephysics.windestimate import estimate_u10_from_source_terms
        balance = create_balance("st4", "st4")
        fpw = rng.uniform(0.16, 0.24)
        Ew = (f / fpw) ** -5 * np.exp(-1.25 * (f / fpw) ** -4)
        Ew = Ew / np.trapezoid(Ew, f) * (rng.uniform(1.2, 2.0) / 4) ** 2
        Dw = np.cos(np.radians(d - th0) / 2) ** 10 + 0.5 * np.cos(np.radians(d - th0 - 90.0) / 2) ** 30
        Dw = Dw / (Dw.sum() * 360.0 / N)
        Ewind = (Ew[:, None] * Dw[None, :])[None, :, :]

        def inversion(Earr, di):
            out = estimate_u10_from_source_terms(spec(Earr), balance, direction_iteration=di)
            return float(out["u10"].values[0]), float(out["direction"].values[0])
        inv0 = {di: inversion(Ewind, di) for di in (False, True)}
        ks = list(range(N)) if tier != "quick" else [0, 1, 3, N // 2, N - 1]
        for k in ks + ["mirror"]:
            evals += 1
            if k == "mirror":
                idx = (-np.arange(N)) % N
                Ek, wk, sgn, shift = E[:, :, idx], -wd, -1.0, 0.0
            else:
                idx = (np.arange(N) - k) % N
                Ek, wk, sgn, shift = E[:, :, idx], wd + k * 360.0 / N, 1.0, k * 360.0 / N
            sk = spec(Ek)
            Udk = xarray.DataArray(np.array([wk]), dims=["time"])
            ok = np.allclose(gen.rate(sk, U, Udk, roughness_length=z0).values, base["gen"][:, :, idx], rtol=1e-7, atol=1e-14)
            ok = ok and np.allclose(dis4.rate(sk).values, base["d4"][:, :, idx], rtol=1e-7, atol=1e-14)
            ok = ok and np.allclose(dis6.rate(sk).values, base["d6"][:, :, idx], rtol=1e-7, atol=1e-14)
            ok = ok and np.allclose(gen.bulk_rate(sk, U, Udk, roughness_length=z0).values, base["gb"], rtol=1e-7)
            ok = ok and np.allclose(dis4.bulk_rate(sk).values, base["d4b"], rtol=1e-7)
            dd = (dis4.mean_direction_degrees(sk).values - (sgn * base["dir"] + shift) + 180.0) % 360.0 - 180.0
            ok = ok and np.all(np.abs(dd) < 1e-5)
            stk = gen.stress(sk, U, Udk, roughness_length=z0)
            ok = ok and np.allclose(stk["stress"].values, base["st"]["stress"].values, rtol=1e-7)
            ds = (stk["direction"].values - (sgn * base["st"]["direction"].values + shift) + 180.0) % 360.0 - 180.0
            ok = ok and np.all(np.abs(ds) < 1e-5)
            if not ok:
                fails.append({"N": N, "k": k, "what": "rotated/mirrored result differs from the rotated/mirrored original"})
            if k in ("mirror", 1, N // 2) or tier != "quick":
                for di in (False, True):
                    u0, w0 = inv0[di]
                    uk, wk_ = inversion(Ewind[:, :, idx], di)
                    evals += 1
                    if np.isnan(u0) and np.isnan(uk):
                        continue
                    dw = (wk_ - (sgn * w0 + shift) + 180.0) % 360.0 - 180.0
                    if not (abs(uk - u0) <= 2e-3 * max(1.0, abs(u0)) and abs(dw) <= 0.05):
                        fails.append({"N": N, "k": k, "direction_iteration": di, "what": "estimated wind is not equivariant",
                                      "original": [u0, w0], "transformed": [uk, wk_]})
        if len(samples) < 2:
            samples.append({"N": N, "wind_direction": wd, "ks": [str(x) for x in ks[:5]]})
    return {"evaluations": evals, "distinct": evals, "failures": fails[:6], "samples": samples,
            "domain": f"N in {Ns}, rotations {'0,1,3,N/2,N-1' if tier == 'quick' else 'all k'} and the mirror image; ST4 input, ST4 and ST6 dissipation fields, bulk rates, dissipation-weighted direction, stress magnitude and direction; estimated wind speed / direction (st4/st4, with and without direction iteration, two-system sea) for {'k=1, N/2 and the mirror' if tier == 'quick' else 'all k and the mirror'}"}


BOUNDED = [Bounded("rotation_and_mirror_compiled", _bounded_rotation)]
CONTRACTS = [st4_rot, st6_inherent_value, st6_cumulative_value, st6_value]
TRUSTED = ["cos/sin periodicity and parity instances of the A-table", "positive wavenumber from the dispersion solver (assumed, C07)",
           "a rotation by whole bins of a uniform grid is an index map rot with theta[rot j] = theta[j] - delta + 2 pi w(j): taken as the definition of the transformation"]
EXPLANATION = ("ST4 wind input proved, for every grid size, to depend on the direction only through the cosine of the angle to the wind and the local energy (relational obligation on the result term: "
               "equal mutual-angle cosines and equal local energy give equal input for any two spectra / wind directions), from which equivariance under joint rotation and mirroring follows; "
               "dissipation fields, bulk rates, weighted direction and stress are a bounded check over rotations and the mirror image on the compiled code; roughness and wind inversion (solver outputs) are not covered")
