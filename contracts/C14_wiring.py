"""C14 — wiring above the periodic kernels.

  interpolate/dataset.py::interpolate_dataset_along_axis   along `direction` / `longitude` (periodic by default, period 360): the callee
                                                           NdInterpolator.interpolate carries the periodic-coordinate kernel contract of C14
"""
from pyvc.api import *
from pyvc.api import CalleeContract
import pyvc.terms as T
from pyvc.values import Arr, Obj, Ref
import contracts.C13 as C13
import contracts.C13_wiring as W
import contracts.C14 as K

# ------------------------------------------------------------------ interpolate_dataset_along_axis along a periodic coordinate
KERNELS = {"plain": W.PLAIN_KERNELS["plain"], "periodic": {False: K.ndp_linear, True: K.ndp_nearest}}
# the periodic-coordinate kernel is verified for rank 1 and 2
VARIABLES = [("variance_density", (W.PASSIVE, "@")), ("a", ("@",)), ("c", ("@", W.PASSIVE)), ("spread_per_direction", ("@",)), ("depth", (W.PASSIVE,))]
INSTANCES = [("direction,linear", False, None, None, VARIABLES), ("direction,nearest", True, None, None, VARIABLES),
             ("direction,callers_period_elsewhere", False, None, {"longitude": 360}, VARIABLES)]      # caller: direction not periodic -> plain kernel


def _req(clauses):
    def on(fn):
        return lambda a: fn(NS({"xp": W.DSView(a.data_set).var_coord(W._with_coordinate(a)[0], a.coordinate_name), "x": W._targets(a)}))
    return [(l, on(f)) for l, f in clauses]


def _samples(cname, instances):
    return W._axis_samples(cname, instances, grid=lambda rng, n: K._pgrid_small_gaps(rng, bool(rng.integers(0, 2))), targets=K._ptargets)


NOTE = ("value clauses verified in C14 as NdInterpolator.interpolate.periodic_coordinate.linear / .nearest (rank 1, 2) - in C13 when the caller declares the coordinate "
        "non-periodic; angular data (data_period given): only the result shape is assumed, the unit-vector average is bounded")
along_direction = W.axis_contract("interpolate_dataset_along_axis.periodic_coordinate", "direction", KERNELS, INSTANCES,
                                  _req(K.ndp_linear.requires), NOTE, samples=_samples("direction", INSTANCES))
LON_INSTANCES = [("longitude,linear", False, None, None, VARIABLES)]
along_longitude = W.axis_contract("interpolate_dataset_along_axis.longitude", "longitude", KERNELS, LON_INSTANCES,
                                  _req(K.ndp_linear.requires), NOTE, samples=_samples("longitude", LON_INSTANCES))

CONTRACTS = [along_direction, along_longitude]
