"""C14 - bounded stand-in (never counted as proved): WHICH variables are treated as angular by the track / grid entry points of
interpolate/dataset.py that sit above the contracts of C14_wiring (they need pandas / geometry objects):
  * interpolate_dataset(data_set, geometry): every `*direction*` variable of the data set (not only the last one) is interpolated along
    the shorter arc and returned in [0, 360);
  * interpolate_dataset_grid(..., periodic_data=..., longitude_variable_in_dataset=...): the mapping it builds (or is given) is the one
    used: a longitude variable under another name and a caller-declared angular variable cross the seam the short way.
Expected values come from the statement (shorter arc, equivalent angle), not from the code; the position on the arc is compared with the
linear one to 0.5 degrees only, since the unit-vector average of the library is not linear in the angle (jumps <= 40 degrees here)."""
import numpy as np
from contracts.C14_bounded import wrap, same_angle, on_shorter_arc, _n, _result


def angular_variable_selection(tier, seed):
    import xarray
    from ocean_science_utilities.interpolate.dataset import interpolate_dataset, interpolate_dataset_grid
    from ocean_science_utilities.interpolate.geometry import Track
    from datetime import datetime, timezone, timedelta
    rng = np.random.default_rng(seed + 577)
    fails, evals = [], 0
    t0 = datetime(2022, 1, 1, tzinfo=timezone.utc)
    for case in range(_n(tier, 12, 120)):
        # --- (a) several direction variables at track points ---------------------------------------------------------------
        nvar = int(rng.integers(1, 4))
        names = list(rng.permutation(["mean_direction", "peak_direction", "windDirection"]))[:nvar]
        lon = np.array([10.0, 11.0, 12.0])
        lat = np.array([40.0, 41.0])
        times = np.array([np.datetime64("2022-01-01T00:00:00"), np.datetime64("2022-01-01T06:00:00")])
        vals = {}
        for nm in names:
            a0 = float(rng.choice([350.0, 355.0, 5.0, 20.0]))
            jump = float(rng.choice([20.0, -20.0, 40.0, -30.0]))
            vals[nm] = (a0 + jump * np.arange(3)) % 360.0           # along longitude, crossing the 0/360 seam
        ds = xarray.Dataset({nm: (("time", "latitude", "longitude"), np.broadcast_to(v[None, None, :], (2, 2, 3)).copy()) for nm, v in vals.items()},
                            coords={"time": times, "latitude": lat, "longitude": lon})
        w = float(rng.uniform(0.2, 0.8))
        plon = 10.0 + w
        try:
            out = interpolate_dataset(ds, [40.5, plon])           # one fixed position, followed over the data set's own times
            frame = out[list(out.keys())[0]]
        except Exception as e:
            evals += 1
            fails.append({"case": case, "raised": f"interpolate_dataset: {type(e).__name__}: {e}"[:200]})
            frame = None
        if frame is not None:
            for nm in names:
                evals += 1
                r = float(np.asarray(frame[nm])[0])
                th0, th1 = vals[nm][0], vals[nm][1]
                exp = (th0 + w * float(wrap(th1 - th0))) % 360.0
                if not (np.isfinite(r) and same_angle(r, exp, 0.5) and on_shorter_arc(r, th0, th1, 1e-3) and -1e-4 <= r <= 360.0 + 1e-4):
                    fails.append({"case": case, "what": f"interpolate_dataset: a direction variable is not interpolated along the shorter arc when the data set holds {nvar} direction variable(s)",
                                  "variables": [str(n) for n in names], "variable": str(nm), "neighbours": [float(th0), float(th1)], "weight": w, "result": r, "expected": exp})
        # --- (b) the mapping of interpolate_dataset_grid is the one used ------------------------------------------------------
        tt = np.array([0.0, 1.0, 2.0])
        lonvar = np.array([178.0, -178.0, -170.0])                   # a drifting platform crossing the antimeridian
        heading = np.array([350.0, 10.0, 30.0])
        dsg = xarray.Dataset({"lon": (("t",), lonvar), "heading": (("t",), heading), "plain": (("t",), np.array([1.0, 2.0, 4.0]))}, coords={"t": tt})
        x = np.array([float(rng.uniform(0.1, 0.9))])
        for label, kw, var, seq, dis in (("longitude variable under another name", {"longitude_variable_in_dataset": "lon"}, "lon", lonvar, 180.0),
                                         ("caller-declared angular variable", {"periodic_data": {"heading": (360, 360)}}, "heading", heading, 360.0)):
            evals += 1
            try:
                res = interpolate_dataset_grid({"t": x}, dsg, **kw)
                r = float(res[var].values[0])
                p = float(res["plain"].values[0])
            except Exception as e:
                fails.append({"case": case, "raised": f"interpolate_dataset_grid ({label}): {type(e).__name__}: {e}"[:200]})
                continue
            exp = seq[0] + x[0] * float(wrap(seq[1] - seq[0]))
            if not (same_angle(r, exp, 0.5) and on_shorter_arc(r, seq[0], seq[1], 1e-3) and abs(p - (1.0 + x[0])) < 1e-9):
                fails.append({"case": case, "what": f"interpolate_dataset_grid: {label} is not interpolated along the shorter arc", "variable": var,
                              "neighbours": [float(seq[0]), float(seq[1])], "target": float(x[0]), "result": r, "expected_equivalent_to": float(exp)})
    return _result("angular_variable_selection", "interpolate_dataset with 1..3 direction variables crossing the 0/360 seam along longitude at a track point; interpolate_dataset_grid with a "
                   "longitude variable named otherwise and with a caller-declared angular variable, crossing the seam in time", evals, fails)
