"""C13 / C14 — the wiring above the interpolation kernels (dataset level).

  interpolate/dataset.py::interpolate_dataset_along_axis   real body executed over the xarray model; `NdInterpolator.interpolate`
                                                           is a *callee contract*: its result builder records the state of the
                                                           interpolator object the real `__init__` produced (ghost `nd_calls`), its
                                                           requires / ensures are the clauses of the kernel contract verified in
                                                           C13 (plain coordinate) / C14 (periodic coordinate) for that layout
  interpolate/dataset.py::interpolate_dataset_grid         the coordinates are applied in order, each through
                                                           interpolate_dataset_along_axis (callee, arguments recorded)
"""
from fractions import Fraction
from pyvc.api import *
from pyvc.api import CalleeContract
import pyvc.terms as T
from pyvc.values import Arr, CArr, Obj, Ref
import pyvc.models.xr as xr
import contracts.C13 as K

DS = "interpolate/dataset.py::"
ND_INTERPOLATE = K.ND + "interpolate"
DEFAULT_PERIODIC_COORDINATES = {"longitude": 360, "direction": 360}      # dataset.py:61 (the statement: direction, longitude; period 360)


# ------------------------------------------------------------------ uniform views (symbolic Obj / native xarray)
class Cells:
    """possibly-missing cells of a DataArray: value and missing flag joined (terms.XR) - the vocabulary of the kernel clauses"""

    def __init__(self, da):
        self.native = not isinstance(da, Obj)
        if self.native:
            import numpy as np
            self.v = np.asarray(da.values if hasattr(da, "values") else da, dtype="float64")
            self.shape = self.v.shape
        else:
            self.arr, self.nan = da.fields["arr"], da.fields["nan"]
            self.shape = tuple(self.arr.shape)

    @property
    def n(self):
        return self.shape[0]

    def __len__(self):
        return int(self.shape[0])

    def __getitem__(self, ix):
        ix = ix if isinstance(ix, tuple) else (ix,)
        if self.native:
            return float(self.v[tuple(int(i) for i in ix)])
        return T.xr(self.arr.get(ix), self.nan.get(ix) if self.nan is not None else False)


class DSView:
    """a Dataset argument / result in both modes"""

    def __init__(self, ds):
        self.native = not hasattr(ds, "_o")
        self.ds = ds
        if not self.native:
            self.st, self.o = ds._st, ds._o

    def names(self):
        if self.native:
            # (the replay harness hands the pre-state over as a plain dict name -> DataArray)
            return [str(v) for v in (self.ds.data_vars if hasattr(self.ds, "data_vars") else self.ds.keys())]
        return list(self.o.fields["vars"].keys())

    def _da(self, v):
        return self.st.deref(self.o.fields["vars"][v])

    def ref(self, v):
        """identity token of the variable's DataArray object"""
        if self.native:
            return id(self.ds[v].variable._data)
        r = self.o.fields["vars"][v]
        return r.id if isinstance(r, Ref) else id(r)

    def dims(self, v):
        if self.native:
            return tuple(str(d) for d in self.ds[v].dims)
        return tuple(self._da(v).fields["dims"])

    def cells(self, v):
        return Cells(self.ds[v] if self.native else self._da(v))

    def var_coord(self, v, name):
        """the coordinate `name` attached to variable v (a 1-D array: [i], .n / len)"""
        if self.native:
            import numpy as np
            c = self.ds[v].coords[name].values
            return np.asarray(c, dtype="float64") if c.dtype.kind != "M" else c.astype("datetime64[ns]").astype("int64").astype("float64") / 1e9
        from pyvc.verify import AW
        return AW(self.st, self._da(v).fields["coords"][name])

    def has_var_coord(self, v, name):
        if self.native:
            return name in self.ds[v].coords
        return name in self._da(v).fields["coords"]


def _numeric(x):
    import numpy as np
    x = np.atleast_1d(np.asarray(x))
    if x.dtype.kind == "M":
        return x.astype("datetime64[ns]").astype("int64").astype("float64") / 1e9
    return x.astype("float64")


def _targets(a):
    if hasattr(a.coordinate_value, "_a"):
        return a.coordinate_value
    return _numeric(a.coordinate_value)


# ------------------------------------------------------------------ the callee: NdInterpolator.interpolate by its verified kernel contract
def _pick(cl, inst):
    return [(c[0], c[1]) for c in cl if len(c) < 3 or inst in c[2]]


def _period_of(pc, name):
    return pc[name] if isinstance(pc, dict) and name in pc else None


def _site(a):
    """the call `obj.interpolate(points)` in the vocabulary of the kernel contracts: grid, targets, the data array the object's
    get_data closure (dataset.py) reads, layout, nearest; plus what decides which kernel contract applies"""
    o = a.self
    st = o._st
    f = o._o.fields
    clos = f["get_data"].closure.vars
    ds = st.deref(clos["data_set"])
    var = clos["variable"]
    da = st.deref(ds.fields["vars"][var]) if isinstance(ds, Obj) and ds.cls == "Dataset" and var in ds.fields["vars"] else None
    names = list(o.interp_coord_names)
    name = o.interp_index_coord_name
    coord = list(o.coord)
    grid = [c[1] for c in o.data_coordinates if c[0] == name]
    ns = {"var": var, "name": name, "names": names, "coord": coord, "da": da,
          "data_period": o.data_period, "data_discont": o.data_discont, "nearest": o.nearest_neighbour,
          "coordinate_period": _period_of(o.data_periodic_coordinates, name),
          "x": a.points[name] if isinstance(a.points, dict) and name in a.points else None,
          "xp": grid[0] if len(grid) == 1 else None}
    ns["angular"] = ns["data_period"] is not None
    ns["kind"] = "angular" if ns["angular"] else ("plain" if ns["coordinate_period"] is None else "periodic")
    ns["layout"] = K.layout_of(coord, name) if name in coord else None
    if da is not None:
        ns["y"] = Cells(da)
    return NS(ns)


def _kernel_for(kernels, s):
    """the verified kernel contract for this call, or None"""
    if s.kind == "angular" or not isinstance(s.nearest, bool):
        return None
    k = kernels.get(s.kind, {}).get(s.nearest)
    if k is None or s.layout not in [lab for lab, _ in k.instances]:
        return None
    if s.kind == "periodic" and s.coordinate_period != 360:
        return None
    return k


def _well_formed(kernels):
    """the call is one a kernel contract speaks about (or an angular-data call, about which only the shape is assumed):
    one interpolated coordinate that is a dimension of the data, the data array of dataset.py's closure with the object's
    shape, a layout / period / mode for which the kernel was verified, passive axes of the verified length"""
    def f(a):
        s = _site(a)
        if s.da is None or s.xp is None or s.x is None or s.names != [s.name] or s.layout is None:
            return False
        if tuple(s.da.fields["dims"]) != tuple(s.coord) or tuple(a.self.data_shape) != tuple(s.y.shape):
            return False
        if s.angular:
            return True
        if _kernel_for(kernels, s) is None:
            return False
        return all(n == K.NPASSIVE for d, n in zip(s.coord, s.y.shape) if d != s.name)
    return f


def _nd_result(mk, a):
    """result of the call: a fresh possibly-missing array; the object's state and the targets are recorded (ghost `nd_calls`)"""
    st = mk.st
    o = st.deref(a.self)
    f = o.fields
    clos = f["get_data"].closure.vars
    names = [st.deref(c) for c in st.deref(f["interp_coord_names"])]
    pts = st.deref(a.points)
    m = st.deref(pts[names[0]]).shape[0]
    coord = [st.deref(c) for c in st.deref(f["coord"])]
    shape = tuple(m if c == f["interp_index_coord_name"] else f["data_shape"][i] for i, c in enumerate(coord))
    pc = st.deref(f["data_periodic_coordinates"])
    rec = {"variable": clos["variable"], "data_set": getattr(clos["data_set"], "id", None),
           "coordinates": [(st.deref(c)[0], st.deref(c)[1]) for c in st.deref(f["data_coordinates"])],
           "data_shape": tuple(f["data_shape"]), "interp_coord_names": names, "interp_index_coord_name": f["interp_index_coord_name"],
           "periodic_coordinates": dict(pc) if isinstance(pc, dict) else pc, "periodic_coordinates_ref": getattr(f["data_periodic_coordinates"], "id", None),
           "data_period": f["data_period"], "data_discont": f["data_discont"], "nearest_neighbour": f["nearest_neighbour"],
           "points": {k: v for k, v in pts.items()}}
    res = mk.array("interpolated", shape, "xreal")
    rec["result"] = res
    st.ghost["nd_calls"] = st.ghost.get("nd_calls", ()) + (rec,)
    return res


def nd_interpolate_callee(kernels, note):
    """kernels: {"plain" | "periodic": {nearest(bool): Contract}} - the contracts of NdInterpolator.interpolate verified in C13 / C14"""
    labels_req, labels_ens = [], []
    for per in kernels.values():
        for k in per.values():
            for lab, _ in k.instances:
                labels_req += [l for l, _ in _pick(k.requires, lab) if l not in labels_req]
                labels_ens += [l for l, _ in _pick(k.ensures, lab) if l not in labels_ens]

    def clause(which, label):
        def f(a, *rest):
            s = _site(a)
            if not _well_formed(kernels)(a):
                return True                       # fails `kernel_contract_applies`; nothing else asked or assumed
            k = _kernel_for(kernels, s)
            if k is None:                         # angular data: the unit-vector average is bounded (C14); only the shape is assumed
                if which == "ensures" and label == "shape":
                    return K._shape_is(rest[0], s.layout, K.ln(s.x))
                return True
            for lab, fn in _pick(getattr(k, which), s.layout):
                if lab == label:
                    return fn(s, *rest)
            return True
        return f
    return CalleeContract(ND_INTERPOLATE, _nd_result,
                          [("kernel_contract_applies", _well_formed(kernels))] + [(l, clause("requires", l)) for l in labels_req],
                          [(l, clause("ensures", l)) for l in labels_ens], assumed=False, note=note)


# ------------------------------------------------------------------ interpolate_dataset_along_axis
PASSIVE = "p"
# name -> dims ("@" = the interpolated coordinate).  Two plain variables of different layout, the two kinds of angular data the
# defaults name (a *direction* variable, longitude), a variable whose name only contains "direction" in upper case, and one without
# the coordinate
VARIABLES = [("a", ("@",)), ("b", (PASSIVE, "@")), ("c", ("@", PASSIVE)), ("mean_direction", ("@",)), ("Peak_DIRECTION", ("@",)),
             ("longitude", ("@",)), ("depth", (PASSIVE,))]


def build_dataset(mk, cname, n, variables, prefix=""):
    st = mk.st
    xp = mk.array(prefix + "xp", (n,))
    pas = mk.array(prefix + "passive", (K.NPASSIVE,))
    cvals = {cname: st.deref(xp), PASSIVE: st.deref(pas)}
    vs = {}
    for name, dims in variables:
        dims = tuple(cname if d == "@" else d for d in dims)
        shape = tuple(n if d == cname else K.NPASSIVE for d in dims)
        arr = mk.array(prefix + name, shape)
        nan = mk.array(prefix + name + "_nan", shape, "bool")
        vs[name] = xr.mk_xa(st, dims, st.deref(arr), st.deref(nan), {d: cvals[d] for d in dims})
    used = {d for _, dims in variables for d in dims}
    coords = {k: v for k, v in cvals.items() if k == cname or k in used}
    return st.alloc(Obj("Dataset", {"vars": vs, "coords": coords}), "data_set")


def _p_axis(cname, nearest, pdata=None, pcoords=None, variables=VARIABLES):
    def p(mk):
        n, m = mk.size("n"), mk.size("m")
        ds = build_dataset(mk, cname, n, variables)
        d = {"coordinate_value": mk.array("x", (m,)), "data_set": ds, "coordinate_name": cname,
             "periodic_data": None if pdata is None else mk.st.alloc({k: tuple(v) for k, v in pdata.items()}, "periodic_data"),
             "periodic_coordinates": None if pcoords is None else mk.st.alloc(dict(pcoords), "periodic_coordinates"),
             "nearest_neighbour": nearest}
        mk.st.ghost["pre_vars"] = {k: v.id for k, v in mk.st.deref(ds).fields["vars"].items()}
        return d
    return p


def expected_periodic_data(a, names):
    """dataset.py:54-58 - the caller's mapping, or by default longitude -> (360, 180) and every variable whose name contains
    `direction` (any case) -> (360, 360)"""
    if a.periodic_data is not None:
        return {k: tuple(v) for k, v in a.periodic_data.items()}
    d = {"longitude": (360, 180)}
    for v in names:
        if "direction" in str(v).lower():
            d[v] = (360, 360)
    return d


def expected_periodic_coordinates(a):
    return dict(a.periodic_coordinates) if a.periodic_coordinates is not None else dict(DEFAULT_PERIODIC_COORDINATES)


def _with_coordinate(a):
    ds = DSView(a.data_set)
    return [v for v in ds.names() if ds.has_var_coord(v, a.coordinate_name)]


def _calls(a):
    return {rec["variable"]: rec for rec in a._ghost.get("nd_calls", ())}


def _symbolic(a):
    return hasattr(a, "_ghost")


def _same_array(st, got, want):
    """the array handed over holds the values of `want` (same object, or cell-wise equal)"""
    g, w = st.deref(got), st.deref(want)
    if g is w:
        return True
    if not (isinstance(g, Arr) and isinstance(w, Arr)) or len(g.shape) != 1 or len(w.shape) != 1:
        return False
    i = T.Fresh.int("c")
    import z3
    same = z3.ForAll([i], z3.Implies(z3.And(i >= 0, i < T.to_z3(w.shape[0])), T.to_z3(T.cmp("==", g.get((i,)), w.get((i,))))))
    return And(T.cmp("==", g.shape[0], w.shape[0]), same)


def _wiring(check):
    """a clause over every recorded NdInterpolator call: check(a, ds view, variable, record) -> condition"""
    def f(a, r):
        if not _symbolic(a):
            return True
        ds = DSView(a.data_set)
        calls = _calls(a)
        want = _with_coordinate(a)
        if sorted(calls) != sorted(want) or len(a._ghost.get("nd_calls", ())) != len(want):
            return False
        return And(*[check(a, ds, v, calls[v]) for v in want])
    return f


def _w_own_values(a, ds, v, rec):
    """the interpolator reads this variable of the caller's data set, with this variable's shape and dimension names"""
    return And(rec["data_set"] == a._raw["data_set"].id, rec["variable"] == v,
               tuple(rec["data_shape"]) == tuple(ds.cells(v).shape), [c[0] for c in rec["coordinates"]] == list(ds.dims(v)))


def _w_grid(a, ds, v, rec):
    """every dimension's coordinate values are the variable's own"""
    da = ds._da(v)
    return And(*[_same_array(ds.st, got, da.fields["coords"][d]) for d, got in rec["coordinates"]])


def _w_targets(a, ds, v, rec):
    name = a.coordinate_name
    return And(rec["interp_coord_names"] == [name], rec["interp_index_coord_name"] == name, list(rec["points"]) == [name],
               _same_array(ds.st, rec["points"][name], a._raw["coordinate_value"]))


def _w_periodic_coordinates(a, ds, v, rec):
    return rec["periodic_coordinates"] == expected_periodic_coordinates(a)


def _w_periodic_data(a, ds, v, rec):
    want = expected_periodic_data(a, ds.names()).get(v)
    period, discont = (None, None) if want is None else want
    return And(rec["data_period"] is None if period is None else rec["data_period"] == period,
               rec["data_discont"] is None if discont is None else rec["data_discont"] == discont)


def _w_nearest(a, ds, v, rec):
    got, want = rec["nearest_neighbour"], a.nearest_neighbour
    if isinstance(want, bool) or isinstance(got, bool) or got is None:
        return got is want
    return got == want


def _e_variables(a, r):
    ds, out = DSView(a.data_set), DSView(r)
    return out.names() == ds.names()


def _e_pass_through(a, r):
    """variables without the coordinate are passed through: the same object (native twin: equal values and dimensions)"""
    ds, out = DSView(a.data_set), DSView(r)
    keep = [v for v in ds.names() if v not in _with_coordinate(a)]
    if ds.native:
        import numpy as np
        return all(v in out.names() and out.dims(v) == ds.dims(v) and np.array_equal(out.ds[v].values, ds.ds[v].values, equal_nan=True) for v in keep)
    return all(v in out.names() and out.ref(v) == ds.ref(v) for v in keep)


def _e_operand_unchanged(a, r):
    """the caller's data set still binds the same variables to the same objects; nothing was assigned into it"""
    if not _symbolic(a):
        return True
    o = a.data_set._o
    return {k: v.id for k, v in o.fields["vars"].items()} == a._ghost["pre_vars"] and not o.fields.get("writes")


def _e_result_is_callee_result(a, r):
    """each interpolated variable of the result holds what the interpolator returned for that variable, on the variable's own dimensions"""
    if not _symbolic(a):
        return True
    ds, out = DSView(a.data_set), DSView(r)
    calls = _calls(a)
    cs = []
    for v in _with_coordinate(a):
        if v not in calls or v not in out.names():
            return False
        res = ds.st.deref(calls[v]["result"])
        got = out.cells(v)
        if out.dims(v) != ds.dims(v) or tuple(got.shape) != tuple(res.shape):
            return False
        ix = [T.Fresh.int(f"i{k}") for k in range(len(res.shape))]
        import z3
        rng = z3.And(*[z3.And(i >= 0, i < T.to_z3(s)) for i, s in zip(ix, res.shape)])
        cs.append(z3.ForAll(ix, z3.Implies(rng, T.to_z3(eq(got[tuple(ix)], res.get(tuple(ix)))))))
    return And(*cs)


def _e_coordinates(a, r):
    """the interpolated coordinate of the result holds the targets, the other coordinates are the variable's own"""
    ds, out = DSView(a.data_set), DSView(r)
    name = a.coordinate_name
    x = _targets(a)
    cs = []
    for v in _with_coordinate(a):
        for d in ds.dims(v):
            if not out.has_var_coord(v, d):
                return False
            got = out.var_coord(v, d)
            want = x if d == name else ds.var_coord(v, d)
            cs.append(And(K.ln(got) == K.ln(want), forall(0, K.ln(want), lambda i, got=got, want=want: eq(got[i], want[i]), "i")))
    return And(*cs)


def _kernel_clause(label, kernels, only=None):
    """the kernel contract's clause `label` for every non-angular variable with the coordinate (`only`: for that variable), between the
    caller's data and the result"""
    def f(a, r):
        ds, out = DSView(a.data_set), DSView(r)
        name = a.coordinate_name
        pdata = expected_periodic_data(a, ds.names())
        pcoord = expected_periodic_coordinates(a)
        cs = []
        for v in _with_coordinate(a):
            if v in pdata or (only is not None and v != only):
                continue
            s = NS({"xp": ds.var_coord(v, name), "x": _targets(a), "y": ds.cells(v), "layout": K.layout_of(ds.dims(v), name),
                    "nearest": bool(a.nearest_neighbour), "kind": "plain" if name not in pcoord else "periodic"})
            k = kernels[s.kind][s.nearest]
            for lab, fn in _pick(k.ensures, s.layout):
                if lab == label:
                    cs.append(fn(s, out.cells(v)))
        return And(*cs)
    return f


def _e_angular_shape(a, r):
    ds, out = DSView(a.data_set), DSView(r)
    pdata = expected_periodic_data(a, ds.names())
    x = _targets(a)
    return And(*[K._shape_is(out.cells(v), K.layout_of(ds.dims(v), a.coordinate_name), K.ln(x)) for v in _with_coordinate(a) if v in pdata])


def _axis_native(kw, inst):
    """the call on a real xarray.Dataset rebuilt from the generic arguments"""
    import numpy as np
    import xarray
    d = dict(kw)
    ds = kw["data_set"]
    if not isinstance(ds, xarray.Dataset):
        vs, cs = ds["vars"], ds["coords"]
        coords = {k: np.asarray(v, dtype=float) for k, v in cs.items()}
        data = {}
        for name, da in vs.items():
            val = np.asarray(da["arr"], dtype=float)
            if da.get("nan") is not None:
                val = np.where(np.asarray(da["nan"], dtype=bool), np.nan, val)
            data[name] = (tuple(da["dims"]), val)
        d["data_set"] = xarray.Dataset(data, coords=coords)
    d["coordinate_value"] = np.asarray(kw["coordinate_value"], dtype=float)
    for k in ("periodic_data", "periodic_coordinates"):
        if isinstance(d.get(k), dict):
            d[k] = {kk: (tuple(v) if isinstance(v, (list, tuple)) else v) for kk, v in d[k].items()}
    d["nearest_neighbour"] = bool(kw["nearest_neighbour"])
    return d


def _axis_samples(cname, instances, grid=None, targets=None):
    def f(rng, tier):
        import numpy as np
        import xarray
        out = []
        for _ in range(12 if tier == "quick" else 120):
            label, nearest, pdata, pcoords, variables = instances[int(rng.integers(0, len(instances)))]
            n = int(rng.integers(2, 30))
            xp = (grid or (lambda r, k: K._grid(r, k, bool(r.integers(0, 2)))))(rng, n)
            x = (targets or K._targets)(rng, xp, int(rng.integers(0, 9)))
            coords = {cname: xp, PASSIVE: np.arange(K.NPASSIVE, dtype=float)}
            data = {}
            for name, dims in variables:
                dims = tuple(cname if d == "@" else d for d in dims)
                shape = tuple(len(xp) if d == cname else K.NPASSIVE for d in dims)
                val = np.round(rng.normal(size=shape) * 10, 2)
                if "direction" in name.lower() or name == "longitude":
                    val = val % 360.0
                val[rng.random(shape) < 0.1] = np.nan
                data[name] = (dims, val)
            out.append((label, {"coordinate_value": x, "data_set": xarray.Dataset(data, coords={k: v for k, v in coords.items() if any(k in d for d, _ in data.values())}),
                                "coordinate_name": cname, "periodic_data": pdata, "periodic_coordinates": pcoords, "nearest_neighbour": nearest}))
        return out
    return f


def axis_contract(label, cname, kernels, instances, requires, note, samples=None):
    """instances: [(label, nearest, periodic_data | None, periodic_coordinates | None, variables)]"""
    kernel_labels = []
    for per in kernels.values():
        for k in per.values():
            for lab, _ in k.instances:
                kernel_labels += [l for l, _ in _pick(k.ensures, lab) if l not in kernel_labels]
    ens = [("variables_kept_in_order", _e_variables),
           ("without_the_coordinate_passed_through", _e_pass_through),
           ("operand_unchanged", _e_operand_unchanged),
           ("wiring.one_interpolator_per_variable_over_its_own_values", _wiring(_w_own_values)),
           ("wiring.grid_is_the_variables_coordinates", _wiring(_w_grid)),
           ("wiring.targets_along_the_named_coordinate", _wiring(_w_targets)),
           ("wiring.periodic_coordinates_default_or_callers", _wiring(_w_periodic_coordinates)),
           ("wiring.periodic_data_default_or_callers", _wiring(_w_periodic_data)),
           ("wiring.nearest_neighbour_forwarded", _wiring(_w_nearest)),
           ("result_holds_the_interpolator_results", _e_result_is_callee_result),
           ("coordinate_holds_the_targets", _e_coordinates),
           ("angular_variables.shape", _e_angular_shape)]
    names = []
    for inst in instances:
        names += [v for v, dims in inst[4] if "@" in dims and v not in names]
    # one obligation per kernel clause and variable (for angular variables of an instance the clause is vacuous: see angular_variables.shape)
    ens += [(f"kernel.{l}[{v}]", _kernel_clause(l, kernels, v)) for l in kernel_labels for v in names]
    return Contract(DS + "interpolate_dataset_along_axis", label=label,
                    instances=[(lab, _p_axis(cname, nearest, pdata, pcoords, variables)) for lab, nearest, pdata, pcoords, variables in instances],
                    requires=requires, ensures=ens,
                    callees={ND_INTERPOLATE: nd_interpolate_callee(kernels, note)},
                    native=_axis_native,
                    options={"finite_reals": True, "samples": samples or _axis_samples(cname, instances)})


def _grid_req(cname):
    """the kernels' preconditions, on the data set's coordinate"""
    def on(fn):
        return lambda a: fn(NS({"xp": DSView(a.data_set).var_coord(_with_coordinate(a)[0], a.coordinate_name), "x": _targets(a)}))
    return [(l, on(f)) for l, f in K.GRID_REQ]


PLAIN_KERNELS = {"plain": {False: K.nd_linear, True: K.nd_nearest}}
CALLER_PDATA = {"a": (360, 360), "longitude": (720, 360)}            # a caller's own choice replaces the defaults entirely
CALLER_PCOORDS = {"elsewhere": 360}
AXIS_INSTANCES = [("linear", False, None, None, VARIABLES), ("nearest", True, None, None, VARIABLES),
                  ("linear,callers_periodic_data", False, CALLER_PDATA, CALLER_PCOORDS, VARIABLES)]
NOTE = ("value clauses verified in C13 as NdInterpolator.interpolate.linear / .nearest for the call's layout (C14: along a periodic coordinate); for angular "
        "data (data_period given: the unit-vector average of _periodic_data_interpolator) only the result shape is assumed - bounded in C14")
along_axis = axis_contract("interpolate_dataset_along_axis", "t", PLAIN_KERNELS, AXIS_INSTANCES, _grid_req("t"), NOTE)



# ------------------------------------------------------------------ interpolate_dataset_grid: the coordinates in order, each through the function above
def _axis_call_result(mk, a):
    """interpolate_dataset_along_axis at a call site of the wiring contracts: an uninterpreted application - the result is a fresh
    data set token, the arguments (after binding the defaults) are recorded (ghost `axis_calls`); nothing is assumed about it"""
    st = mk.st
    k = len(st.ghost.get("axis_calls", ()))
    tok = st.alloc(Obj("Dataset", {"vars": {}, "coords": {}, "interpolated_by_call": k}), "interpolated_data_set")
    rec = {key: getattr(a, key) for key in ("coordinate_value", "data_set", "coordinate_name", "periodic_data", "periodic_coordinates", "nearest_neighbour")}
    rec["coordinate_name"] = st.deref(rec["coordinate_name"])
    rec["result"] = tok
    st.ghost["axis_calls"] = st.ghost.get("axis_calls", ()) + (rec,)
    return tok


AXIS_CALL = CalleeContract(DS + "interpolate_dataset_along_axis", _axis_call_result, assumed=False,
                           note="uninterpreted at this call site: the caller's contract is stated relative to it (its own contract is verified in C13 / C14)")


def _p_grid(names, pdata):
    def p(mk):
        st = mk.st
        ds = build_dataset(mk, "t", mk.size("n"), [("a", ("@",)), ("longitude", ("@",)), ("wave_direction", ("@", PASSIVE))])
        coords = {nm: mk.array("x_" + nm, (mk.size("m_" + nm),)) for nm in names}
        st.ghost["pre_vars"] = {k: v.id for k, v in st.deref(ds).fields["vars"].items()}
        return {"coordinates": st.alloc(coords, "coordinates"), "data_set": ds,
                "periodic_data": None if pdata is None else st.alloc({k: tuple(v) for k, v in pdata.items()}, "periodic_data"),
                "longitude_variable_in_dataset": "longitude", "nearest_neighbour": mk.bool("nearest")}
    return p


def _same_ref(x, y):
    return isinstance(x, Ref) and isinstance(y, Ref) and x.id == y.id


def _g_chain(a, r):
    """call k interpolates along the k-th coordinate of the mapping (its name, its values) the data set the previous call returned
    (the caller's for the first); as many calls as coordinates"""
    if not _symbolic(a):
        return True
    calls = a._ghost.get("axis_calls", ())
    st = a._snap
    coords = st.deref(a._raw["coordinates"])
    if len(calls) != len(coords):
        return False
    prev = a._raw["data_set"]
    for rec, (name, value) in zip(calls, coords.items()):
        if rec["coordinate_name"] != name or not _same_ref(rec["coordinate_value"], value) or not _same_ref(rec["data_set"], prev):
            return False
        prev = rec["result"]
    return True


def _g_result(a, r):
    """the last call's result; None for an empty mapping (native twin: equal to folding the real axis function)"""
    if _symbolic(a):
        calls = a._ghost.get("axis_calls", ())
        return a._result_raw is None if not calls else _same_ref(a._result_raw, calls[-1]["result"])
    from ocean_science_utilities.interpolate.dataset import interpolate_dataset_along_axis
    cur = None
    for name, value in a.coordinates.items():
        cur = interpolate_dataset_along_axis(value, a.data_set if cur is None else cur, name, nearest_neighbour=a.nearest_neighbour)
    return (r is None) if cur is None else bool(cur.equals(r))


def _g_nearest(a, r):
    if not _symbolic(a):
        return True
    return And(*[eq(rec["nearest_neighbour"], a.nearest_neighbour) if not isinstance(rec["nearest_neighbour"], bool)
                 else rec["nearest_neighbour"] is a.nearest_neighbour for rec in a._ghost.get("axis_calls", ())])


def _norm(st, v):
    v = st.deref(v) if isinstance(v, Ref) else v
    if isinstance(v, (tuple, list)):
        return tuple(_norm(st, x) for x in v)
    if isinstance(v, dict):
        return {str(k): _norm(st, x) for k, x in v.items()}
    try:
        return int(v) if float(v) == int(v) else float(v)
    except Exception:
        return v


def _g_mapping(a, r):
    """from the statement (angular data are interpolated along the shorter arc; which variables are angular is the mapping built here or
    given by the caller): every axis call is handed the caller's periodic_data mapping when one is given, otherwise the mapping
    {longitude variable (if in the data set): (360, 180), every variable whose name contains 'direction': (360, 360)}; periodic
    coordinates are left to the axis function's defaults.  (The pinned tree computed this mapping and dropped it - fixed in 38ff164; the
    first version of this clause had been derived from that code and demanded the defect.)"""
    if not _symbolic(a):
        return True
    st = a._snap
    given = a._raw["periodic_data"]
    names = [str(k) for k in st.deref(a._raw["data_set"]).fields["vars"].keys()]
    lon = str(st.deref(a._raw["longitude_variable_in_dataset"]) if isinstance(a._raw["longitude_variable_in_dataset"], Ref) else a._raw["longitude_variable_in_dataset"])
    if given is None:
        expected = {}
        if lon in names:
            expected[lon] = (360, 180)
        for v in names:
            if "direction" in v.lower():
                expected[v] = (360, 360)
    else:
        expected = _norm(st, given)
    for rec in a._ghost.get("axis_calls", ()):
        if rec["periodic_coordinates"] is not None or rec["periodic_data"] is None:
            return False
        if not (given is not None and _same_ref(rec["periodic_data"], given)) and _norm(st, rec["periodic_data"]) != expected:
            return False
    return True


def _grid_native(kw, inst):
    d = _axis_native({**kw, "coordinate_value": [], "nearest_neighbour": kw["nearest_neighbour"]}, inst)
    import numpy as np
    return {"coordinates": {k: np.asarray(v, dtype=float) for k, v in kw["coordinates"].items()}, "data_set": d["data_set"],
            "periodic_data": d.get("periodic_data"), "longitude_variable_in_dataset": kw["longitude_variable_in_dataset"],
            "nearest_neighbour": bool(kw["nearest_neighbour"])}


def _grid_samples(rng, tier):
    import numpy as np
    import xarray
    out = []
    for _ in range(6 if tier == "quick" else 60):
        nt, npas = int(rng.integers(2, 12)), int(rng.integers(2, 6))
        t, pas = K._grid(rng, nt), K._grid(rng, npas, True)
        data = {"a": (("t", PASSIVE), rng.normal(size=(nt, npas))), "longitude": (("t",), rng.uniform(0, 360, nt)),
                "wave_direction": ((PASSIVE, "t"), rng.uniform(0, 360, (npas, nt))), "depth": (("elsewhere",), np.array([1.0, 2.0]))}
        ds = xarray.Dataset(data, coords={"t": t, PASSIVE: pas})
        names = [[], ["t"], [PASSIVE], ["t", PASSIVE], [PASSIVE, "t"]][int(rng.integers(0, 5))]
        grids = {"t": t, PASSIVE: pas}
        out.append(("two" if len(names) == 2 else "one" if names else "none",
                    {"coordinates": {nm: K._targets(rng, grids[nm], int(rng.integers(1, 6))) for nm in names}, "data_set": ds, "periodic_data": None,
                     "longitude_variable_in_dataset": "longitude", "nearest_neighbour": bool(rng.integers(0, 2))}))
    return out


grid = Contract(DS + "interpolate_dataset_grid",
                instances=[("none", _p_grid([], None)), ("one", _p_grid(["t"], None)), ("two", _p_grid(["t", PASSIVE], None)),
                           ("two,callers_periodic_data", _p_grid([PASSIVE, "t"], {"a": (360, 360)}))],
                ensures=[("coordinates_applied_in_order_each_to_the_previous_result", _g_chain),
                         ("result_of_the_last_axis", _g_result),
                         ("nearest_neighbour_forwarded", _g_nearest),
                         ("angular_variable_mapping_built_or_given_is_handed_to_every_axis_call", _g_mapping),
                         ("operand_unchanged", _e_operand_unchanged)],
                callees={DS + "interpolate_dataset_along_axis": AXIS_CALL}, native=_grid_native,
                options={"samples": _grid_samples})

CONTRACTS = [along_axis, grid]
