#!/bin/bash
# ./mutant.sh <patch.diff> <Cxx> [more props]  : applies a patch to a scratch copy of /repo (outside /repo and /verif),
# runs the checks against it, removes the copy.
set -u
patch=$(readlink -f "$1"); shift
scratch=$(mktemp -d /tmp/osu-scratch-XXXXXX)
mkdir -p "$scratch/repo" && cp -r /repo/src "$scratch/repo/src" && cp -r /repo/tests "$scratch/repo/tests" 2>/dev/null
( cd "$scratch/repo" && patch -p1 -s < "$patch" ) || { echo "patch failed"; rm -rf "$scratch"; exit 9; }
rc=0
for p in "$@"; do
  OSU_REPO="$scratch/repo" OSU_EVIDENCE_DIR="$scratch/evidence" NUMBA_CACHE_DIR="$scratch/numba" "$(dirname "$0")/check" "$p" ${TIER:+--tier $TIER} ${CHECK_ARGS:-} 2>&1 | tail -${TAILN:-8}
  r=${PIPESTATUS[0]}; echo "exit=$r"; [ "$r" != 0 ] && rc=$r
done
rm -rf "$scratch"
exit $rc
