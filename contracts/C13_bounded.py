"""C13 - bounded stand-ins on the real code (labelled bounded, never counted as proved): what the proved kernels do not
reach - data of rank 3 and 4 with the interpolated axis in any position, datetime64 axes (to_datetime64 conversion of the
targets), multi-coordinate interpolation, pass-through and forwarding of `nearest_neighbour` in dataset.py.
The reference is written from the property statement (slice-level NaN rule, see NOTES-C13)."""
import numpy as np


def reference_1d(xp, data, axis, x, nearest=False):
    """piecewise-linear (or nearest-node) interpolation of `data` along `axis` at the targets x, missing outside the grid;
    a neighbouring slice with any missing entry is dropped, weights renormalised when the valid weight exceeds 1/2"""
    xp = np.asarray(xp, dtype=float)
    data = np.moveaxis(np.asarray(data, dtype=float), axis, 0)
    n = len(xp)
    sgn = 1.0 if xp[-1] > xp[0] else -1.0
    out = np.full((len(x),) + data.shape[1:], np.nan)
    for j, xv in enumerate(x):
        if sgn * xv < sgn * xp[0] or sgn * xv > sgn * xp[-1]:
            continue
        if xv == xp[-1]:
            k, t = n - 1, 0.0
            k1 = n - 1
        else:
            k = max(i for i in range(n - 1) if sgn * xp[i] <= sgn * xv)
            k1 = k + 1
            t = (xv - xp[k]) / (xp[k1] - xp[k])
        if nearest:
            t = 1.0 if t > 0.5 else 0.0
        acc, wsum = 0.0, 0.0
        for node, w in ((k, 1.0 - t), (k1, t)):
            if w > 0 and not np.isnan(data[node]).any():
                acc = acc + w * data[node]
                wsum += w
        if wsum > 0.5:
            out[j] = acc / wsum
    return np.moveaxis(out, 0, axis)


def _n(tier, q, t):
    return q if tier == "quick" else t


def _grid(rng, n, descending):
    xp = np.cumsum(rng.uniform(0.1, 3.0, n)) + rng.uniform(-20, 20)
    return xp[::-1].copy() if descending else xp


def _targets(rng, xp, m):
    lo, hi = min(xp[0], xp[-1]), max(xp[0], xp[-1])
    x = rng.uniform(lo - 1, hi + 1, m)
    for k in range(m):
        u = rng.random()
        if u < 0.3:
            x[k] = xp[int(rng.integers(0, len(xp)))]
        elif u < 0.4:
            x[k] = xp[-1]
    return x


def _dedupe(failures):
    seen, keep = set(), []
    for f in failures:
        key = f.get("raised") or f.get("what")
        if key not in seen:
            seen.add(key)
            keep.append(f)
    return keep[:3]


def dataset_axes(tier, seed):
    """ranks 1..4, interpolated axis in every position, ascending / descending, NaN patterns, linear / nearest, pass-through"""
    import xarray
    from ocean_science_utilities.interpolate.dataset import interpolate_dataset_along_axis
    rng = np.random.default_rng(seed + 131)
    fails, evals = [], 0
    for case in range(_n(tier, 80, 800)):
        rank = int(rng.integers(1, 5))
        axis = int(rng.integers(0, rank))
        n = int(rng.integers(2, 41))
        dims = [f"d{i}" for i in range(rank)]
        dims[axis] = "t"
        shape = [int(rng.integers(1, 4)) for _ in range(rank)]
        shape[axis] = n
        xp = _grid(rng, n, bool(rng.integers(0, 2)))
        y = rng.normal(size=shape) * 10
        y[rng.random(shape) < rng.choice([0.0, 0.05, 0.3])] = np.nan
        x = _targets(rng, xp, int(rng.integers(1, 9)))
        nearest = bool(rng.integers(0, 2))
        coords = {d: (xp if d == "t" else np.arange(s, dtype=float)) for d, s in zip(dims, shape)}
        other = rng.normal(size=4)
        ds = xarray.Dataset({"v": (dims, y), "w": (dims, 2 * y + 1), "other": (("z",), other)}, coords=coords)
        before = y.copy()
        try:
            out = interpolate_dataset_along_axis(x if len(x) > 1 or rng.random() < 0.5 else float(x[0]), ds, coordinate_name="t", nearest_neighbour=nearest)
        except Exception as e:
            fails.append({"case": case, "raised": f"{type(e).__name__}: {e}"})
            continue
        evals += 4
        exp = reference_1d(xp, y, axis, x, nearest)
        if not np.allclose(out["v"].values, exp, rtol=1e-9, atol=1e-9, equal_nan=True):
            fails.append({"case": case, "what": "value", "rank": rank, "axis": axis, "nearest": nearest, "xp": xp.tolist(), "x": x.tolist()})
        if not np.allclose(out["w"].values, reference_1d(xp, 2 * y + 1, axis, x, nearest), rtol=1e-9, atol=1e-9, equal_nan=True):
            fails.append({"case": case, "what": "second variable", "rank": rank, "axis": axis})
        if not ("other" in out and np.array_equal(out["other"].values, other) and list(out["v"].dims) == dims
                and np.array_equal(out["v"].coords["t"].values, np.atleast_1d(x))):
            fails.append({"case": case, "what": "pass-through / coordinates"})
        if not np.array_equal(before, y, equal_nan=True):
            fails.append({"case": case, "what": "operand modified"})
    return {"evaluations": evals, "distinct": evals, "failures": _dedupe(fails),
            "domain": "interpolate_dataset_along_axis: data of rank 1..4, interpolated axis in every position, passive sizes 1..3, grids of 2..40 nodes "
                      "ascending/descending, targets inside/outside/on nodes and end points (array and scalar), NaN fractions {0, .05, .3}, linear and nearest"}


def time_axes_and_grids(tier, seed):
    """datetime64 axes with targets given as datetime64 / datetime / epoch seconds; two-coordinate interpolate_dataset_grid"""
    import xarray
    from datetime import datetime, timezone
    from ocean_science_utilities.interpolate.dataset import interpolate_dataset_along_axis, interpolate_dataset_grid
    rng = np.random.default_rng(seed + 132)
    fails, evals = [], 0
    for case in range(_n(tier, 30, 300)):
        n, nf = int(rng.integers(2, 20)), int(rng.integers(2, 12))
        secs = (np.cumsum(rng.integers(600, 7200, n)) + 1_600_000_000).astype("int64")
        time = secs.astype("datetime64[s]")
        f = np.cumsum(rng.uniform(0.01, 0.1, nf))
        y = rng.normal(size=(n, nf))
        y[rng.random((n, nf)) < 0.05] = np.nan
        ds = xarray.Dataset({"e": (("time", "frequency"), y), "depth": (("time",), rng.uniform(10, 100, n))}, coords={"time": time, "frequency": f})
        k = rng.integers(0, n - 1, 4)
        tsec = np.concatenate([secs[k] + rng.integers(0, 600, 4), [secs[0] - 10, secs[-1]]]).astype("int64")
        kind = int(rng.integers(0, 3))
        if kind == 0:
            tgt = tsec.astype("datetime64[s]")
        elif kind == 1:
            tgt = [datetime.fromtimestamp(int(s), tz=timezone.utc) for s in tsec]
        else:
            tgt = [float(s) for s in tsec]
        try:
            out = interpolate_dataset_along_axis(tgt, ds, coordinate_name="time")
            evals += 2
            exp = reference_1d(secs.astype(float), y, 0, tsec.astype(float))
            if not np.allclose(out["e"].values, exp, rtol=1e-9, atol=1e-9, equal_nan=True):
                fails.append({"case": case, "what": f"time axis, target kind {kind}"})
            if not np.allclose(out["depth"].values, reference_1d(secs.astype(float), ds["depth"].values, 0, tsec.astype(float)), rtol=1e-9, atol=1e-9, equal_nan=True):
                fails.append({"case": case, "what": "1-d variable on the time axis"})
            # grid: time then frequency, nearest forwarded to both
            fx = _targets(rng, f, 3)
            nearest = bool(rng.integers(0, 2))
            g = interpolate_dataset_grid({"time": tsec[:4].astype("datetime64[s]"), "frequency": fx}, ds, nearest_neighbour=nearest)
            evals += 1
            step1 = reference_1d(secs.astype(float), y, 0, tsec[:4].astype(float), nearest)
            exp2 = reference_1d(f, step1, 1, fx, nearest)
            if not np.allclose(g["e"].values, exp2, rtol=1e-9, atol=1e-9, equal_nan=True):
                fails.append({"case": case, "what": f"grid interpolation (nearest={nearest})"})
        except Exception as e:
            fails.append({"case": case, "raised": f"{type(e).__name__}: {e}"})
    return {"evaluations": evals, "distinct": evals, "failures": _dedupe(fails),
            "domain": "datetime64 time axes of 2..19 steps with targets as datetime64 / aware datetime / epoch seconds; interpolate_dataset_grid over (time, frequency), linear and nearest"}


def spectrum_interpolation(tier, seed):
    """spectrum-level interpolation in frequency (1D and 2D; linear and nearest): values at nodes, between neighbours,
    energy-weighted moments for 1D spectra, extrapolation value outside the grid, operand unchanged"""
    import numpy as np
    from ocean_science_utilities.wavespectra.spectrum import create_1d_spectrum, create_2d_spectrum
    rng = np.random.default_rng(seed + 21)
    n = 6 if tier == "quick" else 60
    fails, samples, evals = [], [], 0
    for k in range(n):
        nf = int(rng.integers(4, 12))
        f = np.sort(rng.uniform(0.03, 0.6, nf)) + np.arange(nf) * 1e-3
        E = rng.random((2, nf)) + 0.05
        a1 = rng.uniform(-0.6, 0.6, E.shape)
        b1 = rng.uniform(-0.6, 0.6, E.shape)
        s1 = create_1d_spectrum(f, E, np.arange(2) * 3600.0, np.zeros(2), np.zeros(2), a1=a1, b1=b1, a2=a1 * 0.3, b2=b1 * 0.3, depth=np.full(2, np.inf))
        inner = np.sort(rng.uniform(f[0], f[-1], 5))
        targets = np.concatenate([[f[0] * 0.5], f[[0, nf // 2, -1]], inner, [f[-1] * 1.5]])
        cases = [("linear", 0.0), ("nearest", 0.0), ("linear", -1.0)]
        for method, xval in cases:
            evals += 1
            try:
                before = {v: s1.dataset[v].values.copy() for v in s1.dataset.variables}
                r = s1.interpolate_frequency(targets, extrapolation_value=xval, method=method)
            except Exception as e:
                fails.append({"case": k, "kind": "1d", "method": method, "what": f"raised {type(e).__name__}: {e}"[:220], "known_key": f"spectrum_interpolation:1d:{type(e).__name__}"})
                continue
            Er = r.variance_density.values
            ok = True
            for p in range(2):
                for j, x in enumerate(targets):
                    if x < f[0] or x > f[-1]:
                        ok = ok and np.isclose(Er[p, j], xval)
                        continue
                    i = min(int(np.searchsorted(f, x, side="right")) - 1, nf - 2)
                    t = (x - f[i]) / (f[i + 1] - f[i])
                    if method == "nearest":
                        t = np.rint(t)
                    ok = ok and np.isclose(Er[p, j], (1 - t) * E[p, i] + t * E[p, i + 1], rtol=1e-9)
                    A = ((1 - t) * a1[p, i] * E[p, i] + t * a1[p, i + 1] * E[p, i + 1]) / ((1 - t) * E[p, i] + t * E[p, i + 1])
                    ok = ok and np.isclose(r.a1.values[p, j], A, rtol=1e-8, atol=1e-12)
            after = {v: s1.dataset[v].values for v in s1.dataset.variables}
            ok = ok and all(np.array_equal(before[v], after[v], equal_nan=True) if before[v].dtype.kind == "f" else np.array_equal(before[v], after[v]) for v in before)
            if not ok:
                fails.append({"case": k, "kind": "1d", "method": method, "extrapolation_value": xval, "what": "values differ from the piecewise-linear / nearest / energy-weighted reference, or operand modified",
                              "known_key": f"spectrum_interpolation:1d:{method}:values"})
        # 2D
        nd = 8
        d = np.linspace(0, 360, nd, endpoint=False)
        E2 = rng.random((2, nf, nd)) + 0.05
        s2 = create_2d_spectrum(f, d, E2, np.arange(2) * 3600.0, np.zeros(2), np.zeros(2), depth=np.full(2, np.inf))
        evals += 1
        try:
            r2 = s2.interpolate_frequency(targets)
            ok = True
            Er = r2.variance_density.values
            for j, x in enumerate(targets):
                if x < f[0] or x > f[-1]:
                    ok = ok and np.allclose(Er[:, j, :], 0.0)
                    continue
                i = min(int(np.searchsorted(f, x, side="right")) - 1, nf - 2)
                t = (x - f[i]) / (f[i + 1] - f[i])
                ok = ok and np.allclose(Er[:, j, :], (1 - t) * E2[:, i, :] + t * E2[:, i + 1, :], rtol=1e-9)
            if not ok:
                fails.append({"case": k, "kind": "2d", "what": "2D interpolate_frequency differs from the piecewise-linear reference", "known_key": "spectrum_interpolation:2d:values"})
        except Exception as e:
            fails.append({"case": k, "kind": "2d", "what": f"raised {type(e).__name__}: {e}"[:220], "known_key": f"spectrum_interpolation:2d:{type(e).__name__}"})
        if len(samples) < 2:
            samples.append({"case": k, "nf": nf, "targets": targets.tolist()})
    return {"evaluations": evals, "distinct": evals, "failures": fails[:6], "samples": samples,
            "domain": f"{n} random non-uniform grids (4..12 nodes) x (1D linear / nearest / extrapolation value -1, 2D linear), targets on nodes, inside, at both ends and outside"}
