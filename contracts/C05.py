"""C05 — directional estimators return valid distributions (non-negative, unit integral), batch independence."""
from fractions import Fraction
from pyvc.api import *
from pyvc.api import CalleeContract
from pyvc.loops import LoopContract
from pyvc.run import Lemma, Bounded

PROPERTY = "C05"
LEVEL = "other"
E = "wavespectra/estimators/"


def _n(x):
    return x.n if hasattr(x, "n") else len(x)


# ------------------------------------------------------------------ the distribution builder
def _p_dist(mk):
    N = mk.size("N")
    return {"lagrange_multiplier": mk.carray("lam", 4), "direction_increment": mk.array("dtheta", (N,)),
            "twiddle_factors": mk.array("tw", (4, N))}


def valid_distribution(D, dtheta, rtol=1e-9):
    n = _n(dtheta)
    return And(forall(0, n, lambda j: D[j] >= 0),
               eq(Sum(0, n, lambda j: D[j] * dtheta[j]), 1, rtol=rtol, atol=rtol))


DIST_REQ = [("grid", lambda a: And(_n(a.direction_increment) >= 1,
                                   forall(0, _n(a.direction_increment), lambda j: a.direction_increment[j] > 0)))]

distribution = Contract(
    E + "mem2.py::mem2_directional_distribution",
    params=_p_dist,
    requires=DIST_REQ,
    ensures=[("nonneg", lambda a, r: forall(0, _n(a.direction_increment), lambda j: r[j] >= 0)),
             ("unit", lambda a, r: eq(Sum(0, _n(a.direction_increment), lambda j: r[j] * a.direction_increment[j]), 1))],
    options={"result": lambda mk, a: mk.array("D", mk.st.deref(a.direction_increment).shape)},
)

CONTRACTS = [distribution]
TRUSTED = []
EXPLANATION = ""
