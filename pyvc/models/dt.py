"""Abstract model of datetime / timedelta / numpy.datetime64 (DESIGN §3 C17).

A datetime is (L, off): L = its civil (wall-clock) reading expressed as seconds since
1970-01-01T00:00 *as if it were UTC*, off = None for naive, else the UTC offset in seconds.
The instant it denotes is L - off (naive: L, read as UTC by the repository's convention).
Library contracts assumed:
  replace(tzinfo=utc)            keeps L, sets off = 0
  astimezone(utc) on aware       keeps the instant: L' = L - off, off' = 0
  astimezone(utc) on naive       *uses the machine's local zone* -> unsupported (flagged)
  fromtimestamp(x, tz=utc)       L = x, off = 0
  timestamp() on aware           L - off
  datetime(y,m,d,..,tzinfo=utc)  L = civil(y,m,d)*86400 + h*3600 + mi*60 + s, off = 0
  dt + timedelta(seconds=s)      L + s
  np.datetime64(t,'s') / astype  see functions below
"""
import z3
from fractions import Fraction
from .. import terms as T
from .. import lib
from ..terms import Unsupported, is_sym
from ..values import Obj, LibFunc, Ref, ExcVal, Arr
from ..lib import reg, TypeTag, REG

CIVIL = z3.Function("days_from_civil", T.IntS, T.IntS, T.IntS, T.IntS)
UTC = "utc"


def mk_dt(st, L, off, fields=None):
    f = {"L": L, "off": off}
    f.update(fields or {})
    return st.alloc(Obj("datetime", f), "datetime")


def mk_td(st, total):
    return st.alloc(Obj("timedelta", {"total": total}), "timedelta")


SCALE = {"s": Fraction(1), "ms": Fraction(1, 1000), "us": Fraction(1, 10**6), "ns": Fraction(1, 10**9),
         "m": Fraction(60), "h": Fraction(3600), "D": Fraction(86400)}


def mk_dt64(st, count, unit="s"):
    """numpy.datetime64: integer `count` of `unit`s since the epoch (instant = count*SCALE[unit])"""
    return st.alloc(Obj("datetime64", {"count": count, "unit": unit}), "datetime64")


def dt64_instant(o):
    return T.mul(o.fields["count"], SCALE[o.fields["unit"]])


REG["datetime.timezone"] = Obj("timezone_mod", {"utc": UTC})
REG["datetime.timezone.utc"] = UTC
REG["datetime.date"] = TypeTag("date")


def _strftime(o, fmt):
    """assumed: strftime spells the civil reading; a literal trailing Z is copied verbatim"""
    if not isinstance(fmt, str) or "%z" in fmt or "%Z" in fmt:
        raise Unsupported("strftime format with zone directives")
    return Obj("isostr_in", {"L": o.fields["L"], "off": None, "Z": fmt.endswith("Z"), "fmt": fmt,
                             "written_from_off": o.fields["off"]})


class Plugin:
    def obj_getattr(self, interp, st, ref, o, name):
        if o.cls == "timezone_mod" and name == "utc":
            return UTC
        if o.cls == "datetime":
            if name == "tzinfo":
                off = o.fields["off"]
                if off is None:
                    return None
                return Obj("tzinfo", {"off": off})
            if name == "replace":
                def replace(i, s, a, k):
                    if set(k) != {"tzinfo"}:
                        raise Unsupported("datetime.replace of fields other than tzinfo")
                    tz = s.deref(k["tzinfo"])
                    if tz != UTC:
                        raise Unsupported("replace with a zone other than UTC")
                    return mk_dt(s, o.fields["L"], 0, {k2: v for k2, v in o.fields.items() if k2 not in ("L", "off")})
                return LibFunc("datetime.replace", lib._wrap("datetime.replace", replace))
            if name == "astimezone":
                def astz(i, s, a, k):
                    tz = s.deref(a[0]) if a else s.deref(k.get("tz"))
                    if tz != UTC:
                        raise Unsupported("astimezone to a zone other than UTC")
                    off = o.fields["off"]
                    if off is None:
                        # naive datetimes are interpreted in the *local* zone of the machine
                        return mk_dt(s, T.sub(o.fields["L"], T.Fresh.int("machine_local_offset")), 0)
                    return mk_dt(s, T.sub(o.fields["L"], off), 0)
                return LibFunc("datetime.astimezone", lib._wrap("datetime.astimezone", astz))
            if name == "timestamp":
                def ts(i, s, a, k):
                    off = o.fields["off"]
                    if off is None:
                        return T.sub(o.fields["L"], T.Fresh.int("machine_local_offset"))
                    return T.sub(o.fields["L"], off)
                return LibFunc("datetime.timestamp", lib._wrap("datetime.timestamp", ts))
            if name == "strftime":
                return LibFunc("datetime.strftime", lib._wrap("datetime.strftime", lambda i, s, a, k: _strftime(o, s.deref(a[0]))))
        if o.cls == "datetime64":
            if name == "astype":
                def astype(i, s, a, k):
                    t = s.deref(a[0])
                    if t == "float64":
                        c = o.fields["count"]
                        return T.to_real(c) if is_sym(c) else Fraction(c)
                    if t in ("int64", "int"):
                        return o.fields["count"]
                    for u in SCALE:
                        if t in (f"<M8[{u}]", f"datetime64[{u}]", f"M8[{u}]"):
                            return convert_unit(s, o, u)
                    raise Unsupported(f"datetime64.astype({t})")
                return LibFunc("datetime64.astype", lib._wrap("datetime64.astype", astype))
        return NotImplemented

    def obj_isinstance(self, interp, st, o, typ):
        if isinstance(typ, TypeTag) and isinstance(o.cls, str):
            if typ.name == "datetime":
                return o.cls == "datetime"
            if typ.name == "numpy.datetime64":
                return o.cls == "datetime64"
            if typ.name in ("str",):
                return o.cls in ("isostring", "str")
            if typ.name in ("Number", "int", "float", "list", "tuple", "numpy.ndarray", "timedelta", "bool", "dict"):
                return o.cls == typ.name
            return NotImplemented
        return NotImplemented

    def obj_binop(self, interp, st, opname, a, b):
        if isinstance(a, Obj) and isinstance(b, Obj) and a.cls == "datetime" and b.cls == "timedelta" and opname == "Add":
            return mk_dt(st, T.add(a.fields["L"], b.fields["total"]), a.fields["off"],
                         {"base": {k: v for k, v in a.fields.items() if k not in ("L", "off")}, "delta": b.fields["total"]})
        return NotImplemented


lib.PLUGINS.append(Plugin())


def timedelta(interp, st, args, kwargs):
    if args:
        raise Unsupported("positional timedelta arguments")
    tot = 0
    for k, mult in (("days", 86400), ("hours", 3600), ("minutes", 60), ("seconds", 1)):
        if k in kwargs:
            tot = T.add(tot, T.mul(st.deref(kwargs[k]), mult))
    if set(kwargs) - {"days", "hours", "minutes", "seconds"}:
        raise Unsupported("timedelta keyword")
    return mk_td(st, tot)


def datetime_ctor(interp, st, args, kwargs):
    a = [st.deref(x) for x in args]
    names = ["year", "month", "day", "hour", "minute", "second", "microsecond"]
    f = {n: 0 for n in names}
    for n, v in zip(names, a):
        f[n] = v
    for n in names:
        if n in kwargs:
            f[n] = st.deref(kwargs[n])
    tz = st.deref(kwargs.get("tzinfo")) if "tzinfo" in kwargs else (a[7] if len(a) > 7 else None)
    if tz not in (None, UTC):
        raise Unsupported("datetime with a non-UTC tzinfo")
    L = T.add(T.add(T.add(T.mul(CIVIL(T.to_z3(f["year"]), T.to_z3(f["month"]), T.to_z3(f["day"])), 86400),
                          T.mul(f["hour"], 3600)), T.mul(f["minute"], 60)), f["second"])
    return mk_dt(st, L, 0 if tz == UTC else None, f)


def _fromtimestamp(interp, st, args, kwargs):
    x = st.deref(args[0])
    tz = st.deref(kwargs.get("tz")) if "tz" in kwargs else (st.deref(args[1]) if len(args) > 1 else None)
    if tz != UTC:
        raise Unsupported("fromtimestamp without tz=utc uses the local zone")
    return mk_dt(st, x, 0)


_FROMTS = LibFunc("datetime.fromtimestamp", lib._wrap("datetime.fromtimestamp", _fromtimestamp))


def _fromisoformat(interp, st, args, kwargs):
    s = st.deref(args[0])
    if isinstance(s, Obj) and s.cls == "isostr_in":
        # assumed: fromisoformat parses an ISO-8601 text to the (civil reading, offset) it spells
        if s.fields.get("malformed_for_fromisoformat"):
            from ..interp import PyRaise
            raise PyRaise(ExcVal("ValueError", ("fromisoformat",)))
        return mk_dt(st, s.fields["L"], s.fields["off"])
    raise Unsupported("fromisoformat of a non-abstract string")


_FROMISO = LibFunc("datetime.fromisoformat", lib._wrap("datetime.fromisoformat", _fromisoformat))


def _strptime(interp, st, args, kwargs):
    s = st.deref(args[0])
    if isinstance(s, Obj) and s.cls == "isostr_in":
        if s.fields["off"] is None or s.fields.get("malformed"):
            from ..interp import PyRaise
            raise PyRaise(ExcVal("ValueError", ("strptime %z",)))
        return mk_dt(st, s.fields["L"], s.fields["off"])
    raise Unsupported("strptime of a non-abstract string")


_STRPTIME = LibFunc("datetime.strptime", lib._wrap("datetime.strptime", _strptime))
REG["datetime.datetime"] = TypeTag("datetime", datetime_ctor, {"fromtimestamp": _FROMTS, "fromisoformat": _FROMISO, "strptime": _STRPTIME})
REG["datetime.timedelta"] = TypeTag("timedelta", timedelta)


def convert_unit(st, o, unit):
    """assumed: unit conversion of datetime64 keeps the instant when the new unit is finer and
    takes the floor when it is coarser"""
    ratio = SCALE[o.fields["unit"]] / SCALE[unit]
    c = o.fields["count"]
    if ratio.denominator == 1:
        return mk_dt64(st, T.mul(c, int(ratio)), unit)
    return mk_dt64(st, T.floordiv(c, int(1 / ratio)), unit)


def np_datetime64(interp, st, args, kwargs):
    x = st.deref(args[0])
    unit = st.deref(args[1]) if len(args) > 1 else None
    if isinstance(x, Obj) and x.cls == "datetime64":
        if unit is None:
            return mk_dt64(st, x.fields["count"], x.fields["unit"])
        if unit in SCALE:
            return convert_unit(st, x, unit)
        raise Unsupported("datetime64 cast to this unit")
    if T.is_num(x) and unit in SCALE:
        if (is_sym(x) and z3.is_real(x)) or isinstance(x, Fraction):
            raise Unsupported("datetime64 of a non-integer")
        return mk_dt64(st, x, unit)
    raise Unsupported("np.datetime64 of this value")


REG["numpy.datetime64"] = TypeTag("numpy.datetime64", np_datetime64)


# ---- abstract ISO strings: Obj('isostr_in', L, off|None, Z: bool)
class StrPlugin:
    def special_getitem(self, interp, st, ref, o, idx):
        from ..interp import Slice
        if isinstance(o, Obj) and o.cls == "isostr_in":
            if isinstance(idx, int) and idx == -1:
                return "Z" if o.fields.get("Z") else "0"
            if isinstance(idx, Slice) and idx.lo is None and idx.step is None and isinstance(idx.hi, int) and idx.hi < 0:
                f = dict(o.fields)
                f["chopped"] = -idx.hi
                return Obj("isostr_prefix", f)
            raise Unsupported("subscript of an abstract ISO string")
        return NotImplemented

    def obj_binop(self, interp, st, opname, a, b):
        if isinstance(a, Obj) and a.cls == "isostr_prefix" and opname == "Add" and isinstance(b, str):
            f = dict(a.fields)
            ok = f.get("Z") and f.get("chopped") == 1 and b == "+00:00"
            if ok:
                return Obj("isostr_in", {"L": f["L"], "off": 0, "Z": False})
            # anything else does not spell the same instant any more: treated as unparseable
            return Obj("isostr_in", {"L": f["L"], "off": f["off"], "Z": False, "malformed_for_fromisoformat": True,
                                     "malformed": True})
        return NotImplemented

    def obj_isinstance(self, interp, st, o, typ):
        if isinstance(typ, TypeTag) and isinstance(o.cls, str) and o.cls in ("isostr_in",):
            return typ.name == "str"
        return NotImplemented


lib.PLUGINS.insert(0, StrPlugin())
REG["pandas.Series"] = TypeTag("pandas.Series")
