"""Front end: reads the *real* source under $OSU_REPO (default /repo) on every run.

Nothing is copied: functions are located by `path::qualname` in the current working tree,
parsed with `ast`, and executed symbolically from that AST.  What the extraction drops is
listed in DESIGN §2.2 (decorators, annotations, docstrings)."""
import ast
import hashlib
import os

REPO = os.environ.get("OSU_REPO", "/repo")
PKG = "ocean_science_utilities"


def src_root():
    return os.path.join(os.environ.get("OSU_REPO", "/repo"), "src")


class Module:
    def __init__(self, name, path):
        self.name, self.path = name, path
        with open(path) as f:
            self.text = f.read()
        self.tree = ast.parse(self.text)
        self.defs = {}      # name -> ast node (FunctionDef / ClassDef)
        self.assigns = {}   # name -> expr node (module-level simple assignments, last wins)
        self.imports = {}   # local name -> ("module", modname) | ("from", modname, attr)
        self._scan(self.tree.body)
        self.cache = {}

    def _scan(self, body):
        for st in body:
            if isinstance(st, (ast.FunctionDef, ast.ClassDef)):
                self.defs[st.name] = st
            elif isinstance(st, ast.Assign) and len(st.targets) == 1 and isinstance(st.targets[0], ast.Name):
                self.assigns[st.targets[0].id] = st.value
            elif isinstance(st, ast.AnnAssign) and isinstance(st.target, ast.Name) and st.value is not None:
                self.assigns[st.target.id] = st.value
            elif isinstance(st, ast.Import):
                for a in st.names:
                    self.imports[a.asname or a.name.split(".")[0]] = ("module", a.name if a.asname else a.name.split(".")[0])
            elif isinstance(st, ast.ImportFrom):
                mod = st.module or ""
                if st.level:
                    base = self.name.split(".")
                    base = base[: len(base) - st.level]
                    mod = ".".join(base + ([mod] if mod else []))
                for a in st.names:
                    self.imports[a.asname or a.name] = ("from", mod, a.name)
            elif isinstance(st, (ast.If, ast.Try)):
                # e.g. try: import x / except ImportError
                self._scan(st.body)

    def segment(self, node):
        return ast.get_source_segment(self.text, node) or ""


_modules = {}


def reset():
    _modules.clear()


def module_path(modname):
    parts = modname.split(".")
    base = os.path.join(src_root(), *parts)
    if os.path.isfile(base + ".py"):
        return base + ".py"
    if os.path.isfile(os.path.join(base, "__init__.py")):
        return os.path.join(base, "__init__.py")
    return None


def load_module(modname):
    key = (src_root(), modname)
    if key not in _modules:
        p = module_path(modname)
        if p is None:
            return None
        _modules[key] = Module(modname, p)
    return _modules[key]


def module_of_file(relpath):
    """relpath relative to src/ocean_science_utilities, e.g. 'tools/time.py'."""
    mod = PKG + "." + relpath[:-3].replace("/", ".")
    if mod.endswith(".__init__"):
        mod = mod[:-9]
    m = load_module(mod)
    if m is None:
        raise FileNotFoundError(relpath)
    return m


def locate(spec):
    """'tools/time.py::time_from_timeint' or 'x.py::Class.method' -> (module, node, classnode)."""
    rel, qual = spec.split("::")
    m = module_of_file(rel)
    parts = qual.split(".")
    node = m.defs.get(parts[0])
    cls = None
    for p in parts[1:]:
        if node is None:
            break
        cls = node
        nxt = None
        for st in node.body:
            if isinstance(st, (ast.FunctionDef, ast.ClassDef)) and st.name == p:
                nxt = st   # last definition wins (property setters shadow getters by design)
                if isinstance(st, ast.FunctionDef) and not any(
                        isinstance(d, ast.Attribute) and d.attr in ("setter", "deleter") for d in st.decorator_list):
                    break
        node = nxt
    if node is None:
        raise KeyError(f"function {spec} not found in the current tree")
    return m, node, cls


def fingerprint(m, node):
    seg = m.segment(node)
    return {"file": os.path.relpath(m.path, os.environ.get("OSU_REPO", "/repo")),
            "lines": [node.lineno, node.end_lineno],
            "sha256": hashlib.sha256(seg.encode()).hexdigest()[:16]}
