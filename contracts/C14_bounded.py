"""C14 - bounded stand-ins on the real code (labelled bounded, never counted as proved).

They cover what the symbolic executor does not reach: the unit-vector average of angular data
(`NdInterpolator._periodic_data_interpolator`: complex exponentials), and the wiring in dataset.py / dataframe.py /
geometry.py / dataarray.py (xarray, pandas, datetime64): which variables and coordinates are treated as periodic, with
which period and discontinuity.  Expected values are computed here from the property statement, not from the code."""
import math
import numpy as np


def wrap(x, p=360.0, d=180.0):
    """representative of x modulo p in [d-p, d)"""
    return (np.asarray(x, dtype=float) + p - d) % p - p + d


def same_angle(a, b, tol):
    return bool(np.all(np.abs(wrap(np.asarray(a, dtype=float) - np.asarray(b, dtype=float))) <= tol))


def on_shorter_arc(res, th0, th1, tol):
    """res lies on the shorter arc from th0 to th1 (both senses; for |jump| == 180 either arc is a shortest one)"""
    d = float(wrap(th1 - th0))
    r = float(wrap(res - th0))
    if abs(abs(d) - 180.0) < 1e-9:
        return True
    return (min(0.0, d) - tol) <= r <= (max(0.0, d) + tol)


def _n(tier, q, t):
    return q if tier == "quick" else t


def _series(rng, n):
    """angular series crossing the seam in both senses, with jumps just below and above 180 degrees"""
    steps = rng.choice([179.9, -179.9, 180.1, -180.1, 35.0, -80.0, 0.0, 1.0], n) * rng.choice([1.0, 1.0, 0.5], n)
    return (np.cumsum(steps) + rng.uniform(0, 360)) % 360.0


def _result(name, domain, evals, failures):
    # one report per kind of failure (an exception raised for every input is one failure, not five)
    seen, keep = set(), []
    for f in failures:
        key = f.get("raised") or f.get("what") or f.get("variable") or f.get("column") or "value"
        if key not in seen:
            seen.add(key)
            f["occurrences"] = sum(1 for g in failures if (g.get("raised") or g.get("what") or g.get("variable") or g.get("column") or "value") == key)
            keep.append(f)
    return {"evaluations": evals, "distinct": evals, "failures": keep[:3], "domain": domain}


# ------------------------------------------------------------------ angular data: unit-vector average along a plain coordinate
def angular_data(tier, seed):
    import xarray
    from ocean_science_utilities.interpolate.dataset import interpolate_dataset_along_axis
    rng = np.random.default_rng(seed + 141)
    fails, evals = [], 0
    TOL = 2e-3          # complex64 accumulation in the code
    for case in range(_n(tier, 60, 600)):
        n = int(rng.integers(2, 20))
        t = np.cumsum(rng.uniform(0.5, 2.0, n))
        th = _series(rng, n)
        if rng.random() < 0.3:
            th = th - 360.0 * rng.integers(-1, 2, n)     # same angles, other representatives
        hs = rng.normal(size=n)
        k = rng.integers(0, n - 1, 6)
        w = rng.choice([0.0, 0.25, 0.5, 0.75, 0.1, 0.9], 6)
        x = t[k] + w * (t[k + 1] - t[k])
        x = np.concatenate([x, [t[0] - 1.0, t[-1] + 1.0, t[-1]]])
        ds = xarray.Dataset({"meanDirection": (("t",), th), "Peak_DIRECTION": (("t",), th), "longitude": (("t",), wrap(th)),
                             "dirn": (("t",), th), "hs": (("t",), hs)}, coords={"t": t})
        try:
            out = interpolate_dataset_along_axis(x, ds, coordinate_name="t")
        except Exception as e:
            fails.append({"case": case, "raised": f"{type(e).__name__}: {e}"})
            continue
        for i in range(6):
            th0, th1, wi = th[k[i]], th[k[i] + 1], w[i]
            exp = math.degrees(math.atan2((1 - wi) * math.sin(math.radians(th0)) + wi * math.sin(math.radians(th1)),
                                          (1 - wi) * math.cos(math.radians(th0)) + wi * math.cos(math.radians(th1))))
            antipodal_mid = abs(abs(float(wrap(th1 - th0))) - 180.0) < 1e-6 and abs(wi - 0.5) < 1e-9
            for name in ("meanDirection", "Peak_DIRECTION", "longitude"):
                evals += 1
                r = float(out[name].values[i])
                ok = (0.0 <= r < 360.0) and on_shorter_arc(r, th0, th1, TOL) and (antipodal_mid or same_angle(r, exp, TOL))
                if wi == 0.0:
                    ok = ok and same_angle(r, th0, TOL)
                if not ok:
                    fails.append({"case": case, "variable": name, "neighbours": [float(th0), float(th1)], "weight": float(wi), "result": r, "expected": exp % 360.0})
            # names without "direction" are plain: linear, no wrapping
            evals += 2
            lin = th0 + (th1 - th0) * wi
            if not abs(float(out["dirn"].values[i]) - lin) <= 1e-9 * max(1.0, abs(lin)):
                fails.append({"case": case, "variable": "dirn", "result": float(out["dirn"].values[i]), "expected": lin})
            lh = hs[k[i]] + (hs[k[i] + 1] - hs[k[i]]) * wi
            if not abs(float(out["hs"].values[i]) - lh) <= 1e-9:
                fails.append({"case": case, "variable": "hs", "result": float(out["hs"].values[i]), "expected": lh})
        evals += 3
        for name in ("meanDirection", "hs"):
            if not (np.isnan(out[name].values[6]) and np.isnan(out[name].values[7])):
                fails.append({"case": case, "variable": name, "what": "targets outside a non-periodic axis must be missing", "result": out[name].values[6:8].tolist()})
        if not same_angle(out["meanDirection"].values[8], th[-1], TOL):
            fails.append({"case": case, "what": "last node", "result": float(out["meanDirection"].values[8]), "expected": float(th[-1])})
    return _result("angular_data", "interpolate_dataset_along_axis on variables named *direction* / longitude: series of 2..19 angles crossing the seam "
                   "in both senses, jumps 179.9/180.1, weights {0,.1,.25,.5,.75,.9}; value = argument of the weighted unit-vector sum, on the shorter arc, in [0,360)",
                   evals, fails)


# ------------------------------------------------------------------ periodic coordinate end to end (direction / longitude axes)
def periodic_axis(tier, seed):
    import xarray
    from ocean_science_utilities.interpolate.dataset import interpolate_dataset_along_axis
    rng = np.random.default_rng(seed + 142)
    fails, evals = [], 0
    for case in range(_n(tier, 60, 600)):
        n = int(rng.integers(4, 73))
        name = ["direction", "longitude"][int(rng.integers(0, 2))]
        while True:
            cuts = np.sort(rng.choice(np.arange(0, 1440), n, replace=False)) / 4.0
            gaps = np.diff(np.concatenate([cuts, [cuts[0] + 360.0]]))
            if gaps.max() < 180.0:
                break
        grid = cuts + float(rng.integers(-720, 720)) / 4.0          # arbitrary start, within one period
        if rng.random() < 0.3:
            grid = grid[::-1].copy()
        e = np.round(rng.normal(size=(3, n)) * 10, 3)
        ds = xarray.Dataset({"e": (("f", name), e)}, coords={"f": np.arange(3.0), name: grid})
        x0 = rng.integers(-4000, 4000, 8) / 4.0
        x = np.concatenate([x0, x0 + 360.0, x0 - 720.0, grid[:2] + 360.0])
        try:
            out = interpolate_dataset_along_axis(x, ds, coordinate_name=name)["e"].values
        except Exception as ex:
            fails.append({"case": case, "raised": f"{type(ex).__name__}: {ex}"})
            continue
        asc = np.sort(grid)
        order = np.argsort(grid)
        for i, xv in enumerate(x):
            evals += 1
            red = (xv - asc[0]) % 360.0 + asc[0]
            k = int(np.searchsorted(asc, red, side="right") - 1)
            k1 = (k + 1) % n
            gap = (asc[k1] - asc[k]) % 360.0
            tt = (red - asc[k]) / gap
            exp = e[:, order[k]] * (1 - tt) + e[:, order[k1]] * tt
            if not np.allclose(out[:, i], exp, rtol=1e-9, atol=1e-9):
                fails.append({"case": case, "coordinate": name, "target": float(xv), "result": out[:, i].tolist(), "expected": exp.tolist()})
        evals += 1
        if not (np.allclose(out[:, 0:8], out[:, 8:16], rtol=0, atol=1e-9) and np.allclose(out[:, 0:8], out[:, 16:24], rtol=0, atol=1e-9)):
            fails.append({"case": case, "coordinate": name, "what": "targets 360 apart give different results"})
        if np.isnan(out).any():
            fails.append({"case": case, "coordinate": name, "what": "a target was treated as out of range"})
    return _result("periodic_axis", "interpolate_dataset_along_axis along 'direction' / 'longitude' (default periodic coordinates, period 360): grids of 4..72 nodes, "
                   "arbitrary start, ascending/descending, targets in [-1000,1000] and their translates by 360 and -720",
                   evals, fails)


# ------------------------------------------------------------------ data frames interpolated in time
def dataframe_time(tier, seed):
    import pandas as pd
    from ocean_science_utilities.interpolate.dataframe import interpolate_dataframe_time
    rng = np.random.default_rng(seed + 143)
    fails, evals = [], 0
    for case in range(_n(tier, 40, 400)):
        n = int(rng.integers(2, 15))
        secs = np.cumsum(rng.integers(600, 7200, n)) + 1_600_000_000
        time = secs.astype("datetime64[s]")
        th, th2, hs = _series(rng, n), _series(rng, n), rng.normal(size=n)
        df = pd.DataFrame({"time": time, "meanDirection": th, "peakDIRECTIONALspread_direction": th2, "significantWaveHeight": hs})
        k = rng.integers(0, n - 1, 5)
        w = rng.choice([0.0, 0.25, 0.5, 0.75], 5)
        new_secs = np.concatenate([secs[k] + w * (secs[k + 1] - secs[k]), [secs[0] - 100, secs[-1] + 100]])
        new_time = new_secs.astype("int64").astype("datetime64[s]")
        w = (new_secs[:5].astype("int64") - secs[k]) / (secs[k + 1] - secs[k])
        try:
            out = interpolate_dataframe_time(df, new_time)
        except Exception as e:
            fails.append({"case": case, "raised": f"{type(e).__name__}: {e}"})
            continue
        for col, src in (("meanDirection", th), ("peakDIRECTIONALspread_direction", th2)):
            for i in range(5):
                evals += 1
                exp = (src[k[i]] + float(wrap(src[k[i] + 1] - src[k[i]])) * w[i]) % 360.0
                r = float(out[col].values[i])
                if not (0.0 <= r < 360.0 and same_angle(r, exp, 1e-7) and on_shorter_arc(r, src[k[i]], src[k[i] + 1], 1e-7)):
                    fails.append({"case": case, "column": col, "neighbours": [float(src[k[i]]), float(src[k[i] + 1])], "weight": float(w[i]), "result": r, "expected": exp})
        for i in range(5):
            evals += 1
            exp = hs[k[i]] + (hs[k[i] + 1] - hs[k[i]]) * w[i]
            if not abs(float(out["significantWaveHeight"].values[i]) - exp) <= 1e-9:
                fails.append({"case": case, "column": "significantWaveHeight", "result": float(out["significantWaveHeight"].values[i]), "expected": exp})
        evals += 1
        if not np.isnan(out["meanDirection"].values[5:]).all():
            fails.append({"case": case, "what": "times outside the frame must give missing values", "result": out["meanDirection"].values[5:].tolist()})
    return _result("dataframe_time", "interpolate_dataframe_time: frames of 2..14 rows, datetime64 time, two *direction* columns (one mixed case), one plain column, "
                   "one object column; shortest arc, result in [0,360)", evals, fails)


# ------------------------------------------------------------------ drifter tracks
def track_time(tier, seed):
    from datetime import datetime, timezone, timedelta
    from ocean_science_utilities.interpolate.geometry import Track, SpaceTimePoint
    rng = np.random.default_rng(seed + 144)
    fails, evals = [], 0
    t0 = datetime(2022, 1, 1, tzinfo=timezone.utc)
    for case in range(_n(tier, 40, 400)):
        n = int(rng.integers(2, 10))
        secs = np.cumsum(rng.integers(600, 7200, n))
        lon = wrap(np.cumsum(rng.choice([3.0, -3.0, 179.9, -179.9, 0.5], n)) + rng.choice([178.0, -179.0, 0.0, 359.0]))
        lat = rng.uniform(-60, 60, n)
        pts = [SpaceTimePoint(float(lat[i]), float(lon[i]), "d", t0 + timedelta(seconds=int(secs[i]))) for i in range(n)]
        k = rng.integers(0, n - 1, 5)
        w = rng.choice([0.0, 0.25, 0.5, 0.75], 5)
        tsec = np.concatenate([secs[k] + np.round(w * (secs[k + 1] - secs[k])), [secs[0] - 50, secs[-1] + 50]]).astype(int)
        w = (tsec[:5] - secs[k]) / (secs[k + 1] - secs[k])
        target = [t0 + timedelta(seconds=int(s)) for s in tsec]
        try:
            out = Track(pts, "d").interpolate(target)
            olon, olat = out.longitude, out.latitude
        except Exception as e:
            fails.append({"case": case, "raised": f"{type(e).__name__}: {e}"})
            continue
        for i in range(5):
            evals += 2
            exp = lon[k[i]] + float(wrap(lon[k[i] + 1] - lon[k[i]])) * w[i]
            if not (same_angle(olon[i], exp, 1e-7) and on_shorter_arc(olon[i], lon[k[i]], lon[k[i] + 1], 1e-7) and -180.0 <= olon[i] < 180.0):
                fails.append({"case": case, "what": "longitude", "neighbours": [float(lon[k[i]]), float(lon[k[i] + 1])], "weight": float(w[i]), "result": float(olon[i]), "expected": float(wrap(exp))})
            el = lat[k[i]] + (lat[k[i] + 1] - lat[k[i]]) * w[i]
            if not abs(olat[i] - el) <= 1e-9:
                fails.append({"case": case, "what": "latitude", "result": float(olat[i]), "expected": float(el)})
        evals += 2
        if not (same_angle(olon[5], lon[0], 1e-9) and same_angle(olon[6], lon[-1], 1e-9) and abs(olat[5] - lat[0]) < 1e-12 and abs(olat[6] - lat[-1]) < 1e-12):
            fails.append({"case": case, "what": "outside the track the end positions are used", "result": [float(olon[5]), float(olon[6])]})
    return _result("track_time", "Track.interpolate: tracks of 2..9 fixes crossing the antimeridian in both senses, steps up to 179.9 degrees; longitude on the shorter arc "
                   "as an equivalent angle in [-180,180), latitude linear, end positions outside", evals, fails)


# ------------------------------------------------------------------ gridded data at track points (time x latitude x longitude)
def gridded_at_points(tier, seed):
    import xarray
    from ocean_science_utilities.interpolate.dataset import interpolate_at_points
    rng = np.random.default_rng(seed + 145)
    fails, evals = [], 0
    for case in range(_n(tier, 20, 200)):
        nlon = int(rng.integers(4, 13))
        lon = -180.0 + np.arange(nlon) * (360.0 / nlon) + float(rng.integers(0, 10))
        lat = np.array([10.0, 12.0, 15.0])
        t = np.array([0.0, 1.0, 3.0])
        g = np.round(rng.normal(size=nlon) * 5, 3)                   # values along longitude
        data = 2.0 * t[:, None, None] - 0.5 * lat[None, :, None] + g[None, None, :]
        ds = xarray.Dataset({"u": (("time", "latitude", "longitude"), data)}, coords={"time": t, "latitude": lat, "longitude": lon})
        m = 6
        pl = rng.uniform(-400, 400, m)
        pl[0] = lon[-1] + 0.5 * (360.0 / nlon)                       # inside the bin that spans the wrap
        pl[1] = pl[0] - 360.0
        pts = {"time": rng.uniform(0, 3, m), "latitude": rng.uniform(10, 15, m), "longitude": pl}
        try:
            out = interpolate_at_points(ds, {k: v.copy() for k, v in pts.items()}, independent_variable="time", periodic_coordinates={"longitude": 360})["u"].values
        except Exception as e:
            evals += 1
            fails.append({"case": case, "raised": f"{type(e).__name__}: {e}", "known_key": "at_points_unbound_local"})
            continue
        for i in range(m):
            evals += 1
            red = (pl[i] - lon[0]) % 360.0
            k = int(red // (360.0 / nlon))
            tt = red / (360.0 / nlon) - k
            exp = 2.0 * pts["time"][i] - 0.5 * pts["latitude"][i] + g[k] * (1 - tt) + g[(k + 1) % nlon] * tt
            if not abs(out[i] - exp) <= 1e-8 * max(1.0, abs(exp)):
                fails.append({"case": case, "point": [float(pts["time"][i]), float(pts["latitude"][i]), float(pl[i])], "result": float(out[i]), "expected": float(exp)})
    return _result("gridded_at_points", "interpolate_at_points on time x latitude x longitude grids (4..12 longitudes, arbitrary start), points in [-400,400] degrees "
                   "including the bin across the antimeridian and its translate by 360; data affine in time/latitude", evals, fails)
