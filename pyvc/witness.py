"""python -m pyvc.witness contracts.Cxx : evaluates every contract's witnesses on the real code."""
import importlib
import json
import sys
import traceback
from .replay import setup_path, run_case, verdict


def main():
    setup_path()
    M = importlib.import_module(sys.argv[1])
    for c in M.CONTRACTS:
        for k, w in enumerate(c.witness):
            try:
                inst, kwargs = w() if callable(w) else w
                inputs = dict(kwargs)
                inputs["__native__"] = True
                res = run_case(c, inputs, inst)
                v = verdict(res)
                rec = {"target": c.target, "index": k, "instance": inst, "verdict": v, "res": res,
                       "inputs_repr": repr(kwargs)[:600]}
            except Exception as e:
                rec = {"target": c.target, "index": k, "verdict": "error", "res": traceback.format_exc()[-1500:]}
            print("WITNESS " + json.dumps(rec, default=str))


if __name__ == "__main__":
    main()
