"""C14 — periodic coordinates and angular data interpolate across the wrap.

Kernels under contract (real source, symbolic array lengths):
  tools/math.py::wrapped_difference            value / range / congruence / NaN pass-through
  tools/grid.py::enclosing_points_1d           (period P) cyclic neighbours incl. the wrap bin, never clipped,
                                               targets a multiple of P apart get the same neighbours
  interpolate/general.py::interpolation_weights_1d (period P)  t in [0,1), (1-t, t), periodic in the target
  interpolate/general.py::interpolate_periodic shortest arc, range [D-P, D), left/right for non-periodic x
"""
from fractions import Fraction
from pyvc.api import *
from pyvc.run import Lemma, Bounded

PROPERTY = "C14"
LEVEL = "proof"
P360 = 360


# ------------------------------------------------------------------ helpers usable in both modes
def ln(x):
    return x.n if hasattr(x, "n") else len(x)


def half(p):
    return p / 2 if isinstance(p, float) else Fraction(p) / 2


def is_multiple(d, p, tol=1e-7):
    """d is an integer multiple of the (concrete) period p"""
    if is_symbolic(d):
        import z3
        import pyvc.terms as T
        return T.lift_ite(T.to_real(T.div(d, p)), lambda q: z3.ToReal(z3.ToInt(q)) == q)
    q = d / p
    return q == q and abs(q - round(q)) <= tol


def multiple_hyp(d, p, name="k"):
    """`d is an integer multiple of p` as a *hypothesis* about scalar terms (lemma antecedents only): the integer
    factor is a fresh constant, i.e. the Skolem form of `exists k. d == p*k`"""
    import z3
    import pyvc.terms as T
    return T.cmp("==", d, T.mul(p, z3.ToReal(T.Fresh.int(name))))


def wrap_to(x, p, d):
    """the representative of x modulo p in [d-p, d)   (spec function, from the docstring of wrapped_difference)"""
    return mod(x + p - d, p) - p + d


# ------------------------------------------------------------------ wrapped_difference
def _p_wd(period, discont):
    def p(mk):
        n = mk.size("n")
        return {"delta": mk.array("delta", (n,), "xreal"), "period": period,
                "discont": None if discont == "default" else mk.real("discont")}
    return p


def _D(a):
    return a.discont if a.discont is not None else half(a.period)


def _wd_samples(rng, tier):
    import numpy as np
    out = []
    for _ in range(20 if tier == "quick" else 200):
        n = int(rng.integers(0, 9))
        d = rng.uniform(-1000, 1000, n)
        if n and rng.random() < 0.5:
            d[int(rng.integers(0, n))] = np.nan
        if n and rng.random() < 0.5:
            d[int(rng.integers(0, n))] = float(rng.integers(-3, 4) * 180)
        kind = int(rng.integers(0, 3))
        if kind == 0:
            out.append(("360,default", {"delta": d, "period": 360, "discont": None}))
        elif kind == 1:
            out.append(("360,any", {"delta": d, "period": 360, "discont": float(rng.choice([360.0, 180.0, 0.0, rng.uniform(-50, 400)]))}))
        else:
            out.append(("none", {"delta": d, "period": None, "discont": None}))
    return out


wrapped_difference = Contract(
    "tools/math.py::wrapped_difference",
    instances=[("360,default", _p_wd(P360, "default")), ("360,any", _p_wd(P360, "any")), ("none", _p_wd(None, "default"))],
    requires=[("length", lambda a: ln(a.delta) >= 0)],
    ensures=[
        ("length", lambda a, r: ln(r) == ln(a.delta)),
        ("range", lambda a, r: forall(0, ln(a.delta), lambda i: implies(notnan(a.delta[i]), And(
            notnan(r[i]), valof(r[i]) >= _D(a) - a.period, lt(valof(r[i]), _D(a))))), {"360,default", "360,any"}),
        ("congruent", lambda a, r: forall(0, ln(a.delta), lambda i: implies(notnan(a.delta[i]),
                                                                       is_multiple(valof(r[i]) - valof(a.delta[i]), a.period))), {"360,default", "360,any"}),
        ("fixes_range", lambda a, r: forall(0, ln(a.delta), lambda i: implies(
            And(notnan(a.delta[i]), valof(a.delta[i]) >= _D(a) - a.period, lt(valof(a.delta[i]), _D(a))),
            eq(valof(r[i]), valof(a.delta[i])))), {"360,default", "360,any"}),
        ("nan_stays_nan", lambda a, r: forall(0, ln(a.delta), lambda i: implies(isnan(a.delta[i]), isnan(r[i])))),
        ("identity_without_period", lambda a, r: forall(0, ln(a.delta), lambda i: eq(r[i], a.delta[i])), {"none"}),
    ],
    witness=[lambda: ("360,default", {"delta": __import__("numpy").array([359.0, -1.0, 180.0, -180.0, 540.0, float("nan"), 0.0]), "period": 360, "discont": None}),
             lambda: ("360,any", {"delta": __import__("numpy").array([359.0, -1.0, 360.0, 0.0, 720.0, -360.0]), "period": 360, "discont": 360.0})],
    options={"finite_reals": True, "samples": _wd_samples},
)



# ------------------------------------------------------------------ periodic grids
from contracts.C13 import (strictly_monotone, strictly_increasing, ascending, GRID_REQ, _enc_range, _grid)


def off(xp, v, up):
    """signed distance from the first node, measured in the grid's own direction (up: ascending grid)"""
    return v - xp[0] if up else xp[0] - v


def span(xp):
    n = ln(xp)
    return If(ascending(xp), off(xp, xp[n - 1], True), off(xp, xp[n - 1], False))


def reduced(xp, x, p, up):
    """offset of the target from the first node, reduced into [0, p)"""
    return mod(off(xp, x, up), p)


def gap(xp, k, p, up):
    """length of the cyclic bin that starts at node k (the last one spans the wrap)"""
    n = ln(xp)
    return If(k == n - 1, p - off(xp, xp[n - 1], up), off(xp, xp[If(k == n - 1, k, k + 1)], up) - off(xp, xp[k], up))


def both_directions(xp, fn):
    """fn(up) with up the direction of the grid (case split kept at the boolean level)"""
    return If(ascending(xp), fn(True), fn(False))


def _p_encp(mk):
    n, m = mk.size("n"), mk.size("m")
    return {"xp": mk.array("xp", (n,)), "x": mk.array("x", (m,)), "regular_xp": False, "period": P360}


PGRID_REQ = GRID_REQ + [("within_one_period", lambda a: lt(span(a.xp), a.period))]


def _encp_cyclic(a, r):
    n = ln(a.xp)
    return forall(0, ln(a.x), lambda j: If(r[0, j] == n - 1, r[1, j] == 0, r[1, j] == r[0, j] + 1), "j")


def in_bin_t(xp, t, i0, up):
    """the offset t (from the first node, in grid direction, already reduced into [0, p)) lies in the cyclic bin
    that starts at node i0; the last bin runs up to the wrap"""
    n = ln(xp)
    nxt = If(i0 == n - 1, i0, i0 + 1)
    return And(off(xp, xp[i0], up) <= t, implies(i0 < n - 1, lt(t, off(xp, xp[nxt], up))))


def in_cyclic_bin(xp, x, i0, p):
    return both_directions(xp, lambda up: in_bin_t(xp, reduced(xp, x, p, up), i0, up))


def _encp_bracket(a, r):
    return forall(0, ln(a.x), lambda j: in_cyclic_bin(a.xp, a.x[j], r[0, j], a.period), "j")


class _FnArray:
    """an uninterpreted grid for spec-level lemmas: xp[i], xp.n"""

    def __init__(self, name):
        import z3
        self.f = z3.Function(name, z3.IntSort(), z3.RealSort())
        self.n = z3.Int(name + "_n")

    def __getitem__(self, i):
        import pyvc.terms as T
        return self.f(T.to_z3(i))


def _lemma_same_offset(up):
    """targets a multiple of the period apart have the same reduced offset (quantifier-free)"""
    def build():
        import z3
        xp = _FnArray("xp")
        x1, x2 = z3.Reals("x1 x2")
        return [multiple_hyp(x1 - x2, P360)], eq(reduced(xp, x1, P360, up), reduced(xp, x2, P360, up))
    return build


def _lemma_bins_disjoint(up):
    """a reduced offset lies in exactly one cyclic bin of a strictly monotone grid"""
    def build():
        import z3
        xp = _FnArray("xp")
        t = z3.Real("t")
        i, k = z3.Ints("i k")
        hyps = [xp.n >= 2, strictly_monotone(xp), ascending(xp) if up else Not(ascending(xp)),
                i >= 0, i < xp.n, k >= 0, k < xp.n, in_bin_t(xp, t, i, up), in_bin_t(xp, t, k, up)]
        return hyps, i == k
    return build


def _encp_unique(a, r):
    """whichever cyclic bin holds the reduced target is the one returned (bins are disjoint)"""
    n = ln(a.xp)
    return forall(0, ln(a.x), lambda j: forall(0, n, lambda k: implies(in_cyclic_bin(a.xp, a.x[j], k, a.period), r[0, j] == k), "k"), "j")


def _pgrid(rng, n, descending=False):
    """grid on multiples of 1/4 inside one period (float arithmetic on it is exact)"""
    import numpy as np
    cuts = np.sort(rng.choice(np.arange(1, 4 * 360), size=n, replace=False)) / 4.0
    xp = cuts - cuts[0] + float(rng.integers(-720, 720)) / 4.0
    return xp[::-1].copy() if descending else xp


def _ptargets(rng, xp, m):
    import numpy as np
    x = rng.integers(-4000, 4000, m) / 4.0
    for k in range(m):
        u = rng.random()
        if u < 0.3:
            x[k] = xp[int(rng.integers(0, len(xp)))] + 360.0 * int(rng.integers(-3, 4))
        elif u < 0.5 and k > 0:
            x[k] = x[k - 1] + 360.0 * int(rng.integers(-3, 4))
    return x


def _encp_samples(rng, tier):
    out = []
    for _ in range(30 if tier == "quick" else 300):
        xp = _pgrid(rng, int(rng.integers(2, 73)), bool(rng.integers(0, 2)))
        out.append(("", {"xp": xp, "x": _ptargets(rng, xp, int(rng.integers(0, 12))), "regular_xp": False, "period": 360}))
    return out


enclosing_periodic = Contract(
    "tools/grid.py::enclosing_points_1d",
    label="enclosing_points_1d.periodic",
    params=_p_encp,
    requires=PGRID_REQ,
    ensures=[("shape", lambda a, r: And(r.shape[0] == 2, r.shape[1] == ln(a.x))),
             ("in_range", _enc_range),
             ("cyclic_successor_never_clipped", _encp_cyclic),
             ("cyclic_bracket", _encp_bracket),
             ("cyclic_bracket_unique", _encp_unique)],
    witness=[lambda: ("", {"xp": __import__("numpy").array([10.0, 100.0, 190.0, 280.0]), "regular_xp": False, "period": 360,
                           "x": __import__("numpy").array([10.0, 0.0, 359.0, 370.0, -350.0, 730.0, 280.0, 300.0, -60.0, 1000.0, -1000.0])}),
             lambda: ("", {"xp": __import__("numpy").array([280.0, 190.0, 100.0, 10.0]), "regular_xp": False, "period": 360,
                           "x": __import__("numpy").array([10.0, 0.0, 359.0, 370.0, -350.0, 730.0, 280.0, 300.0, -60.0, 1000.0, -1000.0])})],
    options={"samples": _encp_samples, "finite_reals": True,
             "result": lambda mk, a: mk.array("indices", (2, mk.st.deref(a.x).shape[0]), "int")},
)


# ------------------------------------------------------------------ interpolation_weights_1d on a periodic coordinate
def _p_wp(nearest):
    def p(mk):
        n, m = mk.size("n"), mk.size("m")
        return {"xp": mk.array("xp", (n,)), "x": mk.array("x", (m,)), "indices": mk.array("indices", (2, m), "int"),
                "period": P360, "extrapolate_left": False, "extrapolate_right": False, "nearest_neighbour": nearest}
    return p


def arc_fraction(xp, x, i0, p, up):
    """position of the (reduced) target inside its cyclic bin: the property's interpolation parameter"""
    return (reduced(xp, x, p, up) - off(xp, xp[i0], up)) / gap(xp, i0, p, up)


def _gaps_below_half_period(a):
    """precondition taken from the code: bin lengths are measured with wrapped_difference, which folds at period/2"""
    return both_directions(a.xp, lambda up: forall(0, ln(a.xp), lambda k: lt(gap(a.xp, k, a.period, up), half(a.period)), "k"))


def _wp_fraction(a, r):
    def one(j):
        i0 = a.indices[0, j]
        return And(notnan(r[0, j]), notnan(r[1, j]),
                   both_directions(a.xp, lambda up: eq(valof(r[1, j]), arc_fraction(a.xp, a.x[j], i0, a.period, up))),
                   eq(valof(r[0, j]), 1 - valof(r[1, j])), valof(r[1, j]) >= 0, lt(valof(r[1, j]), 1))
    return forall(0, ln(a.x), one, "j")


def _wp_nearest(a, r):
    def one(j):
        i0 = a.indices[0, j]
        w1 = valof(r[1, j])
        return And(notnan(r[0, j]), notnan(r[1, j]), Or(eq(w1, 0), eq(w1, 1)), eq(valof(r[0, j]), 1 - w1),
                   both_directions(a.xp, lambda up: And(
                       implies(lt(arc_fraction(a.xp, a.x[j], i0, a.period, up), Fraction(1, 2)), eq(w1, 0)),
                       implies(gt(arc_fraction(a.xp, a.x[j], i0, a.period, up), Fraction(1, 2)), eq(w1, 1)))))
    return forall(0, ln(a.x), one, "j")


WP_REQ = PGRID_REQ + [("bins_shorter_than_half_period", _gaps_below_half_period),
                      ("indices_in_range", lambda a: _enc_range(a, a.indices)),
                      ("indices_cyclic", lambda a: _encp_cyclic(a, a.indices)),
                      ("indices_bracket", lambda a: _encp_bracket(a, a.indices))]


def _pgrid_small_gaps(rng, descending=False):
    import numpy as np
    while True:
        xp = _pgrid(rng, int(rng.integers(4, 73)))
        g = np.diff(np.concatenate([xp, [xp[0] + 360.0]]))
        if g.max() < 180.0:
            return xp[::-1].copy() if descending else xp


def _wp_samples(rng, tier):
    from ocean_science_utilities.tools.grid import enclosing_points_1d
    out = []
    for _ in range(30 if tier == "quick" else 300):
        xp = _pgrid_small_gaps(rng, bool(rng.integers(0, 2)))
        x = _ptargets(rng, xp, int(rng.integers(0, 12)))
        inst = ["linear", "nearest"][int(rng.integers(0, 2))]
        out.append((inst, {"xp": xp, "x": x, "indices": enclosing_points_1d(xp, x, period=360), "period": 360,
                           "extrapolate_left": False, "extrapolate_right": False, "nearest_neighbour": inst == "nearest"}))
    return out


def _w_native(kw, inst):
    import numpy as np
    kw = dict(kw)
    kw["indices"] = np.asarray(kw["indices"]).astype("int64")
    return kw


weights_periodic = Contract(
    "interpolate/general.py::interpolation_weights_1d",
    label="interpolation_weights_1d.periodic",
    instances=[("linear", _p_wp(False)), ("nearest", _p_wp(True))],
    requires=WP_REQ,
    ensures=[("shape", lambda a, r: And(r.shape[0] == 2, r.shape[1] == ln(a.x))),
             ("fraction_of_cyclic_bin", _wp_fraction, {"linear"}),
             ("nearest", _wp_nearest, {"nearest"})],
    native=_w_native,
    options={"samples": _wp_samples, "finite_reals": True},
)


# ------------------------------------------------------------------ interpolate_periodic (non-periodic x: time axes of tracks and data frames)
from contracts.C13 import enclosing as ENCLOSING_NONPERIODIC


def _p_ip(fp_period, discont, ends):
    def p(mk):
        n, m = mk.size("n"), mk.size("m")
        d = {"xp": mk.array("xp", (n,)), "fp": mk.array("fpv", (n,)), "x": mk.array("x", (m,)), "x_period": None,
             "fp_period": fp_period, "fp_discont": discont}
        if ends == "values":
            d["left"], d["right"] = mk.real("left"), mk.real("right")
        return d
    return p


# the three ways the repository calls it for angles (data-frame direction columns: (360, 360), NaN ends; track longitude:
# period 360, default discontinuity, end values given) and the two for plain columns / latitude
ANGLE, ANGLE_NAN, ANGLE_TRACK, PLAIN, PLAIN_NAN = "angle,360", "angle,360,nan_ends", "angle,default_discont", "plain", "plain,nan_ends"
IP_INST = [(ANGLE, _p_ip(P360, 360, "values")), (ANGLE_NAN, _p_ip(P360, 360, "nan")), (ANGLE_TRACK, _p_ip(P360, None, "values")),
           (PLAIN, _p_ip(None, None, "values")), (PLAIN_NAN, _p_ip(None, None, "nan"))]
ANGLES = {ANGLE, ANGLE_NAN, ANGLE_TRACK}
PLAINS = {PLAIN, PLAIN_NAN}


def _ipD(a):
    return a.fp_discont if a.fp_discont is not None else half(a.fp_period)


def _end(a, which):
    import math
    v = getattr(a, which, None) if which in a else None
    return v


def _has_end_values(a):
    return "left" in a


def arc_value(fp, k, k1, dx, dxp, p):
    """point at parameter t = dx/dxp on the shorter arc from fp[k] to fp[k1] (unwrapped): the property's angular interpolant"""
    return fp[k] + wrap_to(fp[k1] - fp[k], p, half(p)) * dx / dxp


def _ip_in_range(a, r):
    return forall(0, ln(a.x), lambda j: implies(notnan(r[j]), And(valof(r[j]) >= _ipD(a) - a.fp_period, lt(valof(r[j]), _ipD(a)))), "j")


def _ip_between(a, r, value_ok):
    n = ln(a.xp)

    def one(j):
        return forall(0, n - 1, lambda k: implies(And(a.xp[k] <= a.x[j], a.x[j] < a.xp[k + 1]),
                                                  And(notnan(r[j]), value_ok(valof(r[j]), k, k + 1, a.x[j] - a.xp[k], a.xp[k + 1] - a.xp[k]))), "k")
    return forall(0, ln(a.x), one, "j")


def _ip_shorter_arc(a, r):
    """value = the point on the shorter arc, brought into [D-P, D) (congruent to it modulo P: wrapped_difference.post.congruent)"""
    return _ip_between(a, r, lambda v, k, k1, dx, dxp: eq(v, wrap_to(arc_value(a.fp, k, k1, dx, dxp, a.fp_period), a.fp_period, _ipD(a)),
                                                          rtol=1e-9, atol=1e-7))


def _ip_linear(a, r):
    return _ip_between(a, r, lambda v, k, k1, dx, dxp: eq(v, a.fp[k] + (a.fp[k1] - a.fp[k]) * dx / dxp, rtol=1e-9, atol=1e-9))


def _same_angle(a):
    if a.fp_period is None:
        return lambda v, w: eq(v, w)
    return lambda v, w: eq(v, wrap_to(w, a.fp_period, _ipD(a)), rtol=1e-9, atol=1e-7)


def _ip_nodes(a, r):
    n = ln(a.xp)
    same = _same_angle(a)
    return forall(0, ln(a.x), lambda j: forall(0, n, lambda k: implies(a.x[j] == a.xp[k], And(notnan(r[j]), same(valof(r[j]), a.fp[k]))), "k"), "j")


def _ip_ends(a, r):
    n = ln(a.xp)
    if _has_end_values(a):
        same = _same_angle(a)
        return forall(0, ln(a.x), lambda j: And(implies(a.x[j] < a.xp[0], And(notnan(r[j]), same(valof(r[j]), a.left))),
                                                implies(a.x[j] > a.xp[n - 1], And(notnan(r[j]), same(valof(r[j]), a.right)))), "j")
    return forall(0, ln(a.x), lambda j: implies(Or(a.x[j] < a.xp[0], a.x[j] > a.xp[n - 1]), isnan(r[j])), "j")


def _ip_samples(rng, tier):
    import numpy as np
    out = []
    for _ in range(40 if tier == "quick" else 400):
        n = int(rng.integers(2, 30))
        xp = _grid(rng, n)
        m = int(rng.integers(0, 10))
        x = rng.uniform(xp[0] - 2, xp[-1] + 2, m)
        for k in range(m):
            if rng.random() < 0.3:
                x[k] = xp[int(rng.integers(0, n))]
        inst = [ANGLE, ANGLE_NAN, ANGLE_TRACK, PLAIN, PLAIN_NAN][int(rng.integers(0, 5))]
        # angular series crossing the seam in both senses, jumps just below / above 180 degrees
        fp = np.cumsum(rng.choice([179.9, -179.9, 180.1, -180.1, 10.0, -25.0, 0.0], n) * rng.choice([1.0, 1.0, 0.5], n)) + rng.uniform(-400, 400)
        if rng.random() < 0.5:
            fp = fp % 360.0
        kw = {"xp": xp, "fp": fp, "x": x, "x_period": None, "fp_period": 360 if inst in ANGLES else None,
              "fp_discont": 360 if inst in (ANGLE, ANGLE_NAN) else None}
        if inst in (ANGLE, ANGLE_TRACK, PLAIN):
            kw["left"], kw["right"] = float(fp[0]), float(fp[-1])
        out.append((inst, kw))
    return out


interpolate_periodic = Contract(
    "interpolate/general.py::interpolate_periodic",
    instances=IP_INST,
    requires=[("two_nodes", lambda a: ln(a.xp) >= 2), ("targets", lambda a: ln(a.x) >= 0), ("data_on_grid", lambda a: ln(a.fp) == ln(a.xp)),
              ("increasing_time", lambda a: strictly_increasing(a.xp))],
    ensures=[("length", lambda a, r: ln(r) == ln(a.x)),
             ("range", _ip_in_range, ANGLES),
             ("shorter_arc", _ip_shorter_arc, ANGLES),
             ("linear", _ip_linear, PLAINS),
             ("node_values", _ip_nodes),
             ("outside", _ip_ends)],
    callees={ENCLOSING_NONPERIODIC.target: ENCLOSING_NONPERIODIC},
    options={"samples": _ip_samples, "finite_reals": True},
)


# ------------------------------------------------------------------ NdInterpolator.interpolate along a periodic coordinate ("direction")
import contracts.C13 as C13
weights_periodic.options["result"] = lambda mk, a: mk.array("weights", (2, mk.st.deref(a.x).shape[0]), "xreal")


def _p_ndp(layout, nearest):
    base = C13._p_nd(layout, nearest)

    def p(mk):
        d = base(mk)
        d["coordinate_name"] = "direction"
        return d
    return p


def _ndp_value(a, r, qs=None):
    """every target, however many periods away, is interpolated between the two cyclic neighbours of its bin
    (the last bin spans the wrap) with the NaN rule of C13; nothing is out of range"""
    n = ln(a.xp)
    P = P360
    qs = C13._passive_range(a.layout) if qs is None else qs

    def one(j, k, q):
        nxt = If(k == n - 1, 0, k + 1)
        res = C13._cell(r, a.layout, j, q)

        def rule(tt):
            miss, val = C13.renormalised(C13._cell(a.y, a.layout, k, q), C13._cell(a.y, a.layout, nxt, q),
                                         C13._slice_valid(a.y, a.layout, k), C13._slice_valid(a.y, a.layout, nxt), tt)
            return And(iff(isnan(res), miss), implies(Not(miss), eq(valof(res), val, rtol=1e-9, atol=1e-7)))

        def body(up):
            t = arc_fraction(a.xp, a.x[j], k, P, up)
            if a.nearest:
                return And(implies(lt(t, Fraction(1, 2)), rule(0)), implies(gt(t, Fraction(1, 2)), rule(1)),
                           implies(eq(t, Fraction(1, 2), rtol=0, atol=0), Or(rule(0), rule(1))))
            return rule(t)
        return implies(in_cyclic_bin(a.xp, a.x[j], k, P), both_directions(a.xp, body))
    return forall(0, ln(a.x), lambda j: forall(0, n, lambda k: And(*[one(j, k, q) for q in qs]), "k"), "j")


def _ndp_never_missing_for_complete_data(a, r):
    """no target is out of range: with no missing data every result is present"""
    n = ln(a.xp)
    complete = forall(0, n, lambda k: C13._slice_valid(a.y, a.layout, k), "k")
    return implies(complete, forall(0, ln(a.x), lambda j: And(*[notnan(C13._cell(r, a.layout, j, q)) for q in C13._passive_range(a.layout)]), "j"))


def _ndp_samples(nearest):
    def f(rng, tier):
        import numpy as np
        out = []
        for _ in range(30 if tier == "quick" else 300):
            lay = list(C13.LAYOUTS)[int(rng.integers(0, 3))]
            xp = _pgrid_small_gaps(rng, bool(rng.integers(0, 2)))
            x = _ptargets(rng, xp, int(rng.integers(0, 10)))
            shape = tuple(len(xp) if d == "t" else C13.NPASSIVE for d in C13.LAYOUTS[lay])
            y = np.round(rng.normal(size=shape) * 10, 2)
            y[rng.random(shape) < 0.1] = np.nan
            out.append((lay, {"xp": xp, "x": x, "y": y, "layout": lay, "nearest": nearest, "coordinate_name": "direction"}))
        return out
    return f


def _ndp_contract(nearest):
    mode = "nearest" if nearest else "linear"
    fixed = {"period": P360, "extrapolate_left": False, "extrapolate_right": False, "nearest_neighbour": nearest}
    return Contract(
        C13.ND + "interpolate", label=f"NdInterpolator.interpolate.periodic_coordinate.{mode}",
        instances=[(lay, _p_ndp(lay, nearest)) for lay in C13.LAYOUTS],
        requires=PGRID_REQ_XP + [("bins_shorter_than_half_period", lambda a: _gaps_below_half_period(NS({"xp": a.xp, "period": P360})))],
        ensures=[("shape", C13._nd_shape),
                 ("value_between_cyclic_neighbours", lambda a, r: _ndp_value(a, r, [0])),
                 ("value_between_cyclic_neighbours.passive1", lambda a, r: _ndp_value(a, r, [1]), {"rank2,axis0", "rank2,axis1"}),
                 ("no_target_out_of_range", _ndp_never_missing_for_complete_data)],
        call=C13._nd_call,
        callees={enclosing_periodic.target: C13.callee_of(enclosing_periodic, "", {"period": P360, "regular_xp": False}),
                 weights_periodic.target: C13.callee_of(weights_periodic, mode, fixed),
                 C13.data_interpolator.target: C13.data_interpolator_callee()},
        options={"samples": _ndp_samples(nearest), "finite_reals": True, "native_call": C13._nd_native})


PGRID_REQ_XP = GRID_REQ + [("within_one_period", lambda a: lt(span(a.xp), P360))]
ndp_linear, ndp_nearest = _ndp_contract(False), _ndp_contract(True)

LEMMAS = []
for _up in (True, False):
    _d = "ascending" if _up else "descending"
    LEMMAS += [Lemma(f"periodic_targets_same_offset[{_d}]", _lemma_same_offset(_up),
                     "targets differing by a multiple of the period have the same reduced offset ..."),
               Lemma(f"cyclic_bins_disjoint[{_d}]", _lemma_bins_disjoint(_up),
                     "... and a reduced offset determines its bin; with post.cyclic_bracket / cyclic_successor_never_clipped (and the periodic "
                     "weights' post.fraction) such targets therefore get identical indices and weights")]
CONTRACTS = [wrapped_difference, enclosing_periodic, weights_periodic, interpolate_periodic, ndp_linear, ndp_nearest]
import contracts.C14_wiring as _W          # dataset.py / dataarray.py / dataframe.py / geometry.py wiring above the kernels
CONTRACTS = CONTRACTS + _W.CONTRACTS
import contracts.C14_bounded as _B
BOUNDED = [Bounded("angular_data_unit_vector_average", _B.angular_data,
                   "NdInterpolator._periodic_data_interpolator through interpolate_dataset_along_axis (complex exponentials are outside the executor's subset)"),
           Bounded("periodic_axis_end_to_end", _B.periodic_axis, "default periodic coordinates of dataset.py; the proved kernels composed on real xarray data"),
           Bounded("dataframe_time", _B.dataframe_time, "column rule of interpolate_dataframe_time"),
           Bounded("track_time", _B.track_time, "Track.interpolate: longitude periodic, latitude plain, end positions"),
           Bounded("gridded_at_track_points", _B.gridded_at_points, "interpolate_at_points / interpolate_track_data_arrray across the antimeridian"),
           Bounded("angular_variable_selection", __import__("contracts.C14_selection_bounded", fromlist=["x"]).angular_variable_selection,
                   "interpolate_dataset with several direction variables; interpolate_dataset_grid uses the mapping it builds / is given")]
TRUSTED = ["infinite values are outside the model: every non-NaN float of these contracts is finite (contract option finite_reals)",
           "possibly-NaN floats are pairs (real, flag) with IEEE propagation through + - * / % and comparisons (pyvc.terms.XR)",
           "boolean-mask selection/assignment x[m] = f(y[m]) acts cell by cell on the cells where m holds (masks proved identical)",
           "x % p for floats is x - p*floor(x/p) over the reals (a float result equal to p, e.g. (-1e-20) % 360, is outside the model)",
           "period fixed to 360 in the periodic instances (the only period the repository uses); symbolic periods make the modulo nonlinear",
           "preconditions taken from the code: periodic grid strictly monotone within one period; for the periodic weights every cyclic bin shorter than half a period",
           "interpolate_periodic: x not periodic (the only way the repository calls it), xp strictly increasing (time axes)",
           "NdInterpolator._periodic_data_interpolator (complex exponentials: the unit-vector average of angular data), dataframe.py, geometry.py (Track.interpolate) and "
           "dataset.py::interpolate_dataset (pandas / geometry objects): bounded only",
           "wiring contracts (C14_wiring.py): xarray model entries as in C13 plus Dataset.dims (mapping dimension -> length), Dataset(coords=...), DataArray[coordinate name]; "
           "interpolate_track_data_arrray's interpolator call and interpolate_at_points' per-variable call are uninterpreted (arguments recorded)"]
EXPLANATION = ("proved for all lengths and values: wrapped_difference (range [D-P,D), congruence, fixed points, NaN), enclosing_points_1d with a period (cyclic successor never "
               "clipped, reduced target in its cyclic bin incl. the wrap bin, uniqueness), periodic interpolation_weights_1d (fraction of the cyclic bin, in [0,1)), "
               "interpolate_periodic as the repository calls it (shorter arc, range, nodes, ends), NdInterpolator.interpolate along a periodic coordinate by composition "
               "of the verified contracts; spec lemmas: targets a multiple of 360 apart have the same reduced offset and the same bin, hence identical indices, weights, results; "
               "wiring: interpolate_dataset_along_axis along `direction` / `longitude` (periodic by default, period 360) with the periodic-coordinate kernel contract as callee contract (plain kernel when the "
               "caller declares the coordinate non-periodic); which variables are angular ((360,360) for *direction* names, (360,180) for longitude, or the caller's mapping) is proved in C13/C14 "
               "`wiring.periodic_data_default_or_callers`; interpolate_at_points hands each variable its own (period, discontinuity) from the caller's mapping and the periodic coordinates; "
               "interpolate_track_data_arrray builds the interpolator with the array's own coordinates, the track's coordinates, the caller's periodic coordinates / data period / discontinuity")
