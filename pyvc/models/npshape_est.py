"""Assumed contracts for `ndarray.reshape` (C order) and `numpy.prod` in the forms estimate.py uses them:

* reshape to the same shape (identity on the cells),
* one leading unit axis added or removed ((nf,) <-> (1, nf), (1, nf, N) <-> (nf, N)),
* two leading axes merged into one / one leading axis split into two, trailing axes unchanged
  ((A, B, rest) -> (A*B, rest): out[q, ...] = in[q div B, q mod B, ...];  (A*B, rest) -> (A, B, rest): out[a, b, ...] = in[a*B + b, ...]).

Anything else is unsupported (undecided), never guessed.  The result is marked as a view (a store through it is refused).
Imported by contracts/C05.py only."""
import z3
from .. import lib
from .. import terms as T
from ..lib import reg
from ..terms import Unsupported, is_sym
from ..values import Arr, CArr, LibFunc, Ref, materialise


def _same_dim(a, b):
    if isinstance(a, int) and isinstance(b, int):
        return a == b
    if isinstance(a, bool) or isinstance(b, bool):
        return False
    za, zb = T.to_z3(a), T.to_z3(b)
    return za.eq(zb) or z3.is_true(z3.simplify(za == zb))


def _is_one(d):
    return isinstance(d, int) and not isinstance(d, bool) and d == 1


def _dims(st, shape):
    shape = st.deref(shape)
    if isinstance(shape, (list, tuple)):
        out = [st.deref(x) for x in shape]
    else:
        out = [shape]
    for d in out:
        if isinstance(d, bool) or not (isinstance(d, int) or (is_sym(d) and z3.is_int(d))):
            raise Unsupported("reshape: dimension that is not an integer")
        if isinstance(d, int) and d < 0:
            raise Unsupported("reshape: inferred (-1) dimension")
    return out


def reshape(st, o, new):
    old = list(o.shape)
    new = list(new)
    tail = 0
    while tail < min(len(old), len(new)) and _same_dim(old[len(old) - 1 - tail], new[len(new) - 1 - tail]):
        tail += 1
    lo, ln = old[:len(old) - tail], new[:len(new) - tail]
    nl = len(ln)
    if not lo and not ln:
        f = lambda ix: o.get(tuple(ix))
    elif not lo and all(_is_one(d) for d in ln):
        f = lambda ix: o.get(tuple(ix[nl:]))
    elif not ln and all(_is_one(d) for d in lo):
        f = lambda ix: o.get(tuple([0] * len(lo)) + tuple(ix))
    elif len(lo) == 2 and len(ln) == 1 and _same_dim(T.mul(lo[0], lo[1]), ln[0]):
        B = lo[1]
        f = lambda ix: o.get((T.floordiv(ix[0], B), T.mod(ix[0], B)) + tuple(ix[1:]))
    elif len(lo) == 1 and len(ln) == 2 and _same_dim(T.mul(ln[0], ln[1]), lo[0]):
        B = ln[1]
        f = lambda ix: o.get((T.add(T.mul(ix[0], B), ix[1]),) + tuple(ix[2:]))
    else:
        raise Unsupported(f"reshape {tuple(old)} -> {tuple(new)} is not one of the modelled forms")
    r = Arr(tuple(new), f, (), o.sort)
    r.is_view = True
    lib.USED.add("ndarray.reshape (C order: same shape / leading unit axis / two leading axes merged or split)")
    return st.alloc(materialise(r) if isinstance(o, CArr) else r, "reshaped")


@reg("numpy.prod")
def np_prod(interp, st, args, kwargs):
    """product of a tuple / list of integers (array shapes)"""
    xs = st.deref(args[0])
    if kwargs or len(args) != 1 or not isinstance(xs, (list, tuple)):
        raise Unsupported("np.prod: only the product of a tuple of integers is modelled")
    r = 1
    for x in xs:
        x = st.deref(x)
        if isinstance(x, bool) or not (isinstance(x, int) or (is_sym(x) and z3.is_int(x))):
            raise Unsupported("np.prod of non-integers")
        r = T.mul(r, x)
    return r


class Plugin:
    def value_getattr(self, interp, st, ref, o, name):
        if isinstance(o, Arr) and name == "reshape":
            def impl(i, s, a, k):
                if k:
                    raise Unsupported("reshape keywords")
                shape = a[0] if len(a) == 1 else tuple(a)
                return reshape(s, o, _dims(s, shape))
            return LibFunc("ndarray.reshape", impl)
        return NotImplemented


lib.PLUGINS.append(Plugin())
