"""C01 — spectral moments and integral wave parameters equal their defining integrals."""
from pyvc.api import *
from pyvc.run import Lemma, Bounded
from contracts.spec_common import *
import pyvc.models.xr   # noqa  (library contracts for xarray)

PROPERTY = "C01"
LEVEL = "proof"


# ---------------------------------------------------------------- spec (from the statement)
def e_of(sp, p, i):
    """e(f_i) of batch member p: the density itself (1D) or its directional integral (2D), missing counted as zero"""
    if not sp.two_d:
        return fill0(sp.E(p, i), sp.E_nan(p, i))
    return Sum(0, sp.nd, lambda j: fill0(sp.E(p, i, j) * dtheta(sp, j), sp.E_nan(p, i, j)))


def wrap180(x):
    """wrapped difference into [-180, 180)"""
    if is_symbolic(x):
        return T.sub(T.mod(T.add(x, 180), 360), 180)
    return (x + 180.0) % 360.0 - 180.0


def dtheta(sp, j):
    th, nd = sp.theta, sp.nd
    if is_symbolic(j, nd):
        nxt = If(j + 1 < nd, th[If(j + 1 < nd, j + 1, 0)], th[0])
        return wrap180(nxt - th[j])
    return wrap180(float(th[(j + 1) % nd]) - float(th[j]))


def fpow(f, n):
    return powr(f, n)


def moment_spec(sp, p, power, fmin, fmax):
    """trapezoid over consecutive grid points that both lie in [fmin, fmax)"""
    f = sp.f

    def g(i):
        return e_of(sp, p, i) * fpow(f[i], power)

    def term(i):
        t = (g(i) + g(i + 1)) / 2 * (f[i + 1] - f[i])
        return If(And(in_band(f, i, fmin, fmax), in_band(f, i + 1, fmin, fmax)), t, 0)
    return Sum(0, sp.nf - 1, term)


def _p_moment(kind, power, fmax_inf=False):
    def p(mk):
        return {"self": spectrum(mk, kind, moments=False), "power": power if power is not None else mk.int("power"),
                "fmin": mk.real("fmin"), "fmax": T.INF if fmax_inf else mk.real("fmax")}
    return p


def _native(kw, inst):
    out = dict(kw)
    out["self"] = native_spectrum(kw["self"])
    return out


REQ = [("increasing_frequencies", lambda a: increasing(Spec(a.self).f, Spec(a.self).nf)),
       ("dims", lambda a: And(Spec(a.self).np_ >= 0, Spec(a.self).nf >= 0, (Spec(a.self).nd >= 1) if Spec(a.self).two_d else True))]


def _moment_post(a, r):
    sp = Spec(a.self)
    val, isnan = result_values(r)
    return forall(0, sp.np_, lambda p: And(Not(isnan(p)), eq(val(p), moment_spec(sp, p, a.power, a.fmin, a.fmax), rtol=1e-9, atol=1e-12)), "p")


MOMENT_INST = [(f"{k},power={pw},{'fmax=inf' if inf else 'band'}", _p_moment(k, pw, inf))
               for k in ("1d", "2d") for pw in (0, 1, 2, None) for inf in (False, True) if not (pw is None and inf)]
MOMENT_INST = [(lab.replace("power=None", "power=n"), p) for lab, p in MOMENT_INST]


def _wit_spectra():
    import numpy as np
    from ocean_science_utilities.wavespectra.spectrum import create_1d_spectrum, create_2d_spectrum
    rng = np.random.default_rng(5)
    f = np.array([0.0, 0.03, 0.05, 0.08, 0.1, 0.15, 0.22, 0.3, 0.45, 0.5, 0.8])
    E = rng.random((3, len(f)))
    E[0, 2] = np.nan
    E[1, :] = 0.0
    s1 = create_1d_spectrum(f, E, np.arange(3) * 3600, np.zeros(3), np.zeros(3), a1=rng.random(E.shape) * 0.5, b1=rng.random(E.shape) * 0.5,
                            a2=rng.random(E.shape) * 0.3, b2=rng.random(E.shape) * 0.3, depth=np.array([10.0, np.nan, np.inf]))
    d = np.array([0.0, 20, 45, 90, 135, 200, 250, 300, 340])
    E2 = rng.random((2, len(f), len(d)))
    E2[0, 3, 4] = np.nan
    s2 = create_2d_spectrum(f, d, E2, np.arange(2) * 3600, np.zeros(2), np.zeros(2), depth=np.array([25.0, np.inf]))
    return s1, s2


def _wit_moment():
    s1, s2 = _wit_spectra()
    out = []
    for s, k in ((s1, "1d"), (s2, "2d")):
        for pw in (0, 1, 2, 3):
            lab = f"{k},power={pw if pw < 3 else 'n'},band"
            for fmin, fmax in ((0.0, 0.5), (0.05, 0.31), (0.1, 0.1), (0.2, 0.22), (0.9, 2.0)):
                out.append((lab, {"self": s, "power": pw, "fmin": fmin, "fmax": fmax}))
            out.append((lab.replace("band", "fmax=inf") if pw < 3 else lab, {"self": s, "power": pw, "fmin": 0.04, "fmax": float("inf")}))
    return [(lambda w=w: w) for w in out]


# ---- modular: direction bin widths and e(f) of a 2D spectrum under their own contracts (C02 verifies more about them)
def _result_xa(name, dims_of, shape_of):
    def res(mk, a):
        import pyvc.models.xr as xr_
        from pyvc.values import sym_array
        sp = mk.st.deref(a.self)
        ds = mk.st.deref(sp.fields["dataset"])
        arr = sym_array(T.Fresh.name(name), shape_of(mk, ds))
        coords = {k: v for k, v in ds.fields["coords"].items() if k in dims_of}
        return xr_.mk_xa(mk.st, dims_of, arr, None, coords)
    return res


def _shape_dstep(mk, ds):
    return (ds.fields["coords"][NAME_D].shape[0],)


def _shape_e(mk, ds):
    E = mk.st.deref(ds.fields["vars"][NAME_E]).fields["arr"]
    return (E.shape[0], E.shape[1])


def _p_2d(mk):
    return {"self": spectrum(mk, "2d", moments=False)}


REQ2 = [("dims", lambda a: And(Spec(a.self).np_ >= 0, Spec(a.self).nf >= 0, Spec(a.self).nd >= 1))]


def _dstep_post(a, r):
    sp = Spec(a.self)
    val, isnan = result_values(r)
    return forall(0, sp.nd, lambda j: And(Not(isnan(j)), eq(val(j), dtheta(sp, j))), "j")


direction_step = Contract(
    S + "FrequencyDirectionSpectrum.direction_step", params=_p_2d, requires=REQ2,
    ensures=[("wrapped_forward_difference", _dstep_post)], native=_native,
    options={"result": _result_xa("dstep", (NAME_D,), _shape_dstep), "native_call": lambda kw, inst: kw["self"].direction_step},
    witness=[lambda: ("", {"self": _wit_spectra()[1]})],
)


def _e_post(a, r):
    sp = Spec(a.self)
    if hasattr(r, "_o"):
        arr, nn = r.arr, r.nan
        return forall(0, sp.np_, lambda p: forall(0, sp.nf, lambda i: And(
            Not(nn[p, i]) if nn is not None else True, eq(arr[p, i], e_of(sp, p, i))), "i"), "p")
    import numpy as np
    v = np.asarray(r.values).reshape(sp.np_, sp.nf)
    return all(eq(float(v[p, i]), e_of(sp, p, i), rtol=1e-9, atol=1e-12) for p in range(sp.np_) for i in range(sp.nf))


e_2d = Contract(
    S + "FrequencyDirectionSpectrum.e", params=_p_2d, requires=REQ2,
    ensures=[("directional_sum_with_bin_widths", _e_post)], native=_native,
    callees={direction_step.target: direction_step},
    options={"result": _result_xa("e2d", (P, NAME_F), _shape_e), "native_call": lambda kw, inst: kw["self"].e},
    witness=[lambda: ("", {"self": _wit_spectra()[1]})],
)

frequency_moment = Contract(
    S + "WaveSpectrum.frequency_moment", instances=MOMENT_INST, requires=REQ,
    ensures=[("value", _moment_post)], native=_native, witness=_wit_moment(),
    callees={e_2d.target: e_2d},
)

# ---- integral parameters: Hm0 = 4 sqrt(m0), Tm01 = m0/m1, Tm02 = sqrt(m0/m2)
def _shape_p(mk, ds):
    E = mk.st.deref(ds.fields["vars"][NAME_E]).fields["arr"]
    return (E.shape[0],)


frequency_moment.options["result"] = _result_xa("moment", (P,), _shape_p)


def _p_band(kind, fmax_inf=False):
    def p(mk):
        return {"self": spectrum(mk, kind, moments=False), "fmin": mk.real("fmin"), "fmax": T.INF if fmax_inf else mk.real("fmax")}
    return p


BAND_INST = [(f"{k},{'fmax=inf' if inf else 'band'}", _p_band(k, inf)) for k in ("1d", "2d") for inf in (False, True)]


def _param_post(formula):
    def post(a, r):
        sp = Spec(a.self)
        val, isnan = result_values(r)
        m = lambda n, p: moment_spec(sp, p, n, a.fmin, a.fmax)
        return forall(0, sp.np_, lambda p: formula(val(p), isnan(p), lambda n: m(n, p)), "p")
    return post


def _wit_band():
    s1, s2 = _wit_spectra()
    out = []
    for s, k in ((s1, "1d"), (s2, "2d")):
        for fmin, fmax in ((0.0, 0.5), (0.05, 0.31), (0.04, float("inf"))):
            out.append((f"{k},{'fmax=inf' if fmax == float('inf') else 'band'}", {"self": s, "fmin": fmin, "fmax": fmax}))
    return [(lambda w=w: w) for w in out]


def _band_contract(name, formula, label=None):
    return Contract(S + "WaveSpectrum." + name, instances=BAND_INST, requires=REQ, ensures=[("value", _param_post(formula))],
                    native=_native, witness=_wit_band(), callees={frequency_moment.target: frequency_moment, e_2d.target: e_2d}, label=label)


def _safe_div(x, y):
    if is_symbolic(x, y):
        return x / y
    return x / y if y != 0 else float("nan")


m0_c = _band_contract("m0", lambda v, n, m: eq(v, m(0), rtol=1e-9, atol=1e-12))
m1_c = _band_contract("m1", lambda v, n, m: eq(v, m(1), rtol=1e-9, atol=1e-12))
m2_c = _band_contract("m2", lambda v, n, m: eq(v, m(2), rtol=1e-9, atol=1e-12))
hm0_c = _band_contract("hm0", lambda v, n, m: implies(ge(m(0), 0), eq(v, 4 * sqrt(m(0)), rtol=1e-9, atol=1e-12)))
tm01_c = _band_contract("tm01", lambda v, n, m: implies(Not(eq(m(1), 0, rtol=0, atol=0)), eq(v, _safe_div(m(0), m(1)), rtol=1e-9, atol=1e-12)))
tm02_c = _band_contract("tm02", lambda v, n, m: implies(And(gt(m(2), 0), ge(m(0), 0)), eq(v, sqrt(_safe_div(m(0), m(2))), rtol=1e-9, atol=1e-12)))


def _p_plain(kind):
    return lambda mk: {"self": spectrum(mk, kind, moments=False)}


def _alias(name, formula):
    import math
    inf = float("inf")

    def post(a, r):
        sp = Spec(a.self)
        val, isnan = result_values(r)
        fmax = T.INF if hasattr(a.self, "_o") else inf
        m = lambda n, p: moment_spec(sp, p, n, 0, fmax)
        return forall(0, sp.np_, lambda p: formula(val(p), isnan(p), lambda n: m(n, p)), "p")
    s1, s2 = None, None
    return Contract(S + "WaveSpectrum." + name, instances=[("1d", _p_plain("1d")), ("2d", _p_plain("2d"))], requires=REQ,
                    ensures=[("default_band_value", post)], native=_native,
                    witness=[lambda: ("1d", {"self": _wit_spectra()[0]}), lambda: ("2d", {"self": _wit_spectra()[1]})],
                    callees={frequency_moment.target: frequency_moment, e_2d.target: e_2d},
                    options={"native_call": lambda kw, inst, name=name: getattr(kw["self"], name)})


swh_c = _alias("significant_waveheight", lambda v, n, m: implies(ge(m(0), 0), eq(v, 4 * sqrt(m(0)), rtol=1e-9, atol=1e-12)))
mp_c = _alias("mean_period", lambda v, n, m: implies(Not(eq(m(1), 0, rtol=0, atol=0)), eq(v, _safe_div(m(0), m(1)), rtol=1e-9, atol=1e-12)))
zcp_c = _alias("zero_crossing_period", lambda v, n, m: implies(And(gt(m(2), 0), ge(m(0), 0)), eq(v, sqrt(_safe_div(m(0), m(2))), rtol=1e-9, atol=1e-12)))

def _bounded_consequences(tier, seed):
    """algebraic consequences of the defining integrals (linearity, scale laws, Tm02 <= Tm01, period bounds): corollaries of
    the proved formulas; the inequalities need a Cauchy-Schwarz lemma that is not mechanised, so they are sampled"""
    import numpy as np
    from ocean_science_utilities.wavespectra.spectrum import create_1d_spectrum, create_2d_spectrum
    rng = np.random.default_rng(seed + 13)
    n = 10 if tier == "quick" else 100
    fails, samples, evals = [], [], 0
    for k in range(n):
        nf = int(rng.integers(3, 15))
        f = np.sort(rng.uniform(0.0 if k % 3 == 0 else 0.02, 1.0, nf)) + np.arange(nf) * 1e-4
        if k % 3 == 0:
            f[0] = 0.0
        E1 = rng.random((2, nf)) * (rng.random((2, nf)) > 0.2)
        E2 = rng.random((2, nf))

        def sp(E):
            return create_1d_spectrum(f, E, np.arange(2) * 3600.0, np.zeros(2), np.zeros(2), depth=np.full(2, np.inf))
        s1, s2, s12, sc = sp(E1), sp(E2), sp(E1 + E2), sp(2.5 * E1)
        lo_, hi_ = sorted(rng.uniform(0, 1.0, 2))
        for (fmin, fmax) in ((0.0, np.inf), (lo_, hi_)):
            evals += 1
            ok = True
            for pw in range(0, 5):
                m = lambda s: s.frequency_moment(pw, fmin, fmax).values
                ok = ok and np.allclose(m(s12), m(s1) + m(s2), rtol=1e-9, atol=1e-12) and np.allclose(m(sc), 2.5 * m(s1), rtol=1e-9, atol=1e-12)
            ok = ok and np.allclose(sc.hm0(fmin, fmax).values, np.sqrt(2.5) * s1.hm0(fmin, fmax).values, rtol=1e-9, atol=1e-12)
            with np.errstate(all="ignore"):
                t1, t2 = s1.tm01(fmin, fmax).values, s1.tm02(fmin, fmax).values
                fin = np.isfinite(t1) & np.isfinite(t2) & (s1.m1(fmin, fmax).values > 0)
                ok = ok and np.all(t2[fin] <= t1[fin] * (1 + 1e-9))
                inb = f[(f >= fmin) & (f < fmax)]
                if len(inb) >= 2 and inb[0] > 0:
                    ok = ok and np.all(t1[fin] <= 1 / inb[0] * (1 + 1e-9)) and np.all(t2[fin] >= 1 / inb[-1] * (1 - 1e-9))
                ok = ok and np.allclose(sc.tm01(fmin, fmax).values, t1, rtol=1e-9, equal_nan=True)
            if not ok:
                fails.append({"case": k, "band": [float(fmin), float(fmax)], "what": "linearity / scale law / Tm02<=Tm01 / period bound violated"})
        if len(samples) < 2:
            samples.append({"case": k, "nf": nf, "f0": float(f[0])})
    return {"evaluations": evals, "distinct": evals, "failures": fails[:6], "samples": samples,
            "domain": f"{n} random non-uniform grids (3..14 nodes, every third with f=0), spectra with zero bins, default and random bands, powers 0..4"}


BOUNDED = [Bounded("algebraic_consequences", _bounded_consequences)]


# ---------------------------------------------------------------- consequences of the moment formula, as lemmas over the spec function
# frequency_moment is proved equal to moment_spec above; the lemmas below are properties of moment_spec itself (
# decided in the polynomial normal form of pyvc/calculus.py: ring laws + linearity of finite sums), so they transfer to the code.  Tm02 <= Tm01 is proved further below; the 1/f bounds of the periods stay bounded.
import z3 as _z3


class _View:
    """minimal 1D spectrum view over uninterpreted functions: E(i), missing flag, frequency grid"""
    two_d = False

    def __init__(self, Ef, nanf, ff, nf):
        self._E, self._n, self.nf = Ef, nanf, nf
        self.f = type("A", (), {"__getitem__": lambda s_, i: ff(T.to_z3(i))})()

    def E(self, p, i):
        return self._E(T.to_z3(i))

    def E_nan(self, p, i):
        return self._n(T.to_z3(i))


def _lemma_setup():
    Ef, E2f = _z3.Function("E_l", T.IntS, T.RealS), _z3.Function("E2_l", T.IntS, T.RealS)
    nanf = _z3.Function("missing_l", T.IntS, T.BoolS)
    ff = _z3.Function("f_l", T.IntS, T.RealS)
    nf, n, power = _z3.Ints("nf_l n_l power_l")
    fmin, fmax, c = _z3.Reals("fmin_l fmax_l c_l")
    return Ef, E2f, nanf, ff, nf, n, power, fmin, fmax, c


def _partial(view, power, fmin, fmax):
    """moment_spec with a variable upper bound: the same term as moment_spec (re-used, not re-written)"""
    f = view.f

    def g(i):
        return e_of(view, 0, i) * fpow(f[i], power)

    def term(i):
        t = (g(i) + g(i + 1)) / 2 * (f[i + 1] - f[i])
        return If(And(in_band(f, i, fmin, fmax), in_band(f, i + 1, fmin, fmax)), t, 0)
    return SumOf(term)


def _normal_form_equal(lhs, rhs):
    """lhs == rhs decided in the polynomial normal form of pyvc/calculus.py (ring laws, linearity of finite sums, If(c, x, y) = [c] x + (1 - [c]) y);
    what is not identical there is left to the solver as the difference polynomial"""
    from pyvc.calculus import Algebra
    alg = Algebra()
    pl, pr = alg.from_term(T.to_z3(lhs)), alg.from_term(T.to_z3(rhs))
    if pl == pr:
        return True
    return eq(alg.to_term(alg.add(pl, alg.neg(pr))), 0)


def _lemma_scaling():
    """m_n(c E) = c m_n(E) for every grid, band, power and placement of missing values (the missing flags are those of E)"""
    Ef, E2f, nanf, ff, nf, n, power, fmin, fmax, c = _lemma_setup()
    scaled = lambda i: c * Ef(i)
    S1, S2 = _partial(_View(Ef, nanf, ff, nf), power, fmin, fmax), _partial(_View(scaled, nanf, ff, nf), power, fmin, fmax)
    return [nf >= 1], _normal_form_equal(S2(0, nf - 1), c * S1(0, nf - 1))


def _lemma_additive():
    """m_n(E1 + E2) = m_n(E1) + m_n(E2) (same missing flags)"""
    Ef, E2f, nanf, ff, nf, n, power, fmin, fmax, c = _lemma_setup()
    both = lambda i: Ef(i) + E2f(i)
    S1, S2, S3 = (_partial(_View(x, nanf, ff, nf), power, fmin, fmax) for x in (Ef, E2f, both))
    return [nf >= 1], _normal_form_equal(S3(0, nf - 1), S1(0, nf - 1) + S2(0, nf - 1))


def _lemma_parameters():
    """with m_n' = c m_n (c > 0, m0, m1, m2 > 0): Hm0' = sqrt(c) Hm0 (as squares of non-negative numbers), Tm01 and Tm02 unchanged"""
    m0, m1, m2, c = _z3.Reals("m0_l m1_l m2_l c_l")
    hm0 = lambda m: 4 * T.uf("sqrt", m)
    hyps = [c > 0, m0 > 0, m1 > 0, m2 > 0]
    goal = _z3.And(hm0(c * m0) * hm0(c * m0) == c * (hm0(m0) * hm0(m0)), hm0(c * m0) >= 0,
                   (c * m0) / (c * m1) == m0 / m1, T.uf("sqrt", (c * m0) / (c * m2)) == T.uf("sqrt", m0 / m2))
    return hyps, goal


# ---- Tm02 <= Tm01 for non-negative spectra (Cauchy-Schwarz m1^2 <= m0 m2), in three steps:
#  Q(lam) := trapezoid sum of e(f) (f - lam)^2 over the band;  (1) Q(lam) = m2 - 2 lam m1 + lam^2 m0 (normal form, linearity);  (2) Q(lam) >= 0 (every
#  trapezoid term is non-negative);  (3) with lam = m1/m0: m1^2 <= m0 m2, hence sqrt(m0/m2) <= m0/m1.
def _quadratic_form(view, lam, fmin, fmax):
    f = view.f

    def g(i):
        return e_of(view, 0, i) * ((f[i] - lam) * (f[i] - lam))

    def term(i):
        t = (g(i) + g(i + 1)) / 2 * (f[i + 1] - f[i])
        return If(And(in_band(f, i, fmin, fmax), in_band(f, i + 1, fmin, fmax)), t, 0)
    return SumOf(term)


def _lemma_q_expansion():
    Ef, E2f, nanf, ff, nf, n, power, fmin, fmax, c = _lemma_setup()
    lam = _z3.Real("lam_l")
    v = _View(Ef, nanf, ff, nf)
    m = [_partial(v, k, fmin, fmax)(0, nf - 1) for k in (0, 1, 2)]
    Q = _quadratic_form(v, lam, fmin, fmax)(0, nf - 1)
    return [nf >= 1], _normal_form_equal(Q, m[2] - 2 * lam * m[1] + lam * lam * m[0])


def _lemma_q_nonneg():
    Ef, E2f, nanf, ff, nf, n, power, fmin, fmax, c = _lemma_setup()
    lam = _z3.Real("lam_l")
    i = _z3.Int("qi")
    v = _View(Ef, nanf, ff, nf)
    Q = _quadratic_form(v, lam, fmin, fmax)
    hyps = [nf >= 1, _z3.ForAll([i], _z3.And(Ef(i) >= 0, _z3.Implies(_z3.And(0 <= i, i < nf - 1), ff(i + 1) > ff(i))))]
    return hyps, Q(0, nf - 1) >= 0


def _lemma_cauchy_schwarz_step():
    m0, m1, m2 = _z3.Reals("m0_l m1_l m2_l")
    lam = m1 / m0
    hyps = [m0 > 0, m1 > 0, m2 > 0, m2 - 2 * lam * m1 + lam * lam * m0 >= 0]
    tm02, tm01 = T.uf("sqrt", m0 / m2), m0 / m1
    return hyps, _z3.And(m1 * m1 <= m0 * m2, tm02 <= tm01)


LEMMAS = [Lemma("tm02_le_tm01.quadratic_form_expands_to_the_moments", _lemma_q_expansion, "Q(lam) = m2 - 2 lam m1 + lam^2 m0"),
          Lemma("tm02_le_tm01.quadratic_form_is_nonnegative", _lemma_q_nonneg, "sum of non-negative trapezoid terms"),
          Lemma("tm02_le_tm01.cauchy_schwarz_and_period_order", _lemma_cauchy_schwarz_step, "lam = m1/m0 gives m1^2 <= m0 m2 and sqrt(m0/m2) <= m0/m1"),
          Lemma("moment_scaling", _lemma_scaling, "m_n(c E) = c m_n(E)"),
          Lemma("moment_additive", _lemma_additive, "m_n(E1 + E2) = m_n(E1) + m_n(E2)"),
          Lemma("hm0_scales_with_sqrt_c_periods_scale_invariant", _lemma_parameters, "from m_n' = c m_n")]

CONTRACTS = [direction_step, e_2d, frequency_moment, m0_c, m1_c, m2_c, hm0_c, tm01_c, tm02_c, swh_c, mp_c, zcp_c]
TRUSTED = ["xarray library contracts of pyvc/models/xr.py (alignment by dimension name, skipna sums, trapezoid integrate, lazy boolean isel)",
           "every real other than the literal np.inf is finite",
           "pyvc/calculus.py normal form (ring laws, linearity of finite sums, indicator form of If) for the scaling / additivity lemmas"]
EXPLANATION = ("moments and integral parameters proved equal to their defining trapezoid sums for all grids, bands, NaN placements and batch sizes; "
               "scaling, additivity, Hm0 ~ sqrt(c) and scale-invariant periods and Tm02 <= Tm01 (non-negative spectra) as lemmas over the spec function; period bounds 1/f bounded")
