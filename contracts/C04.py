"""C04 — peak parameters locate the maximum of e(f) inside the requested band."""
from pyvc.api import *
from pyvc.run import Lemma, Bounded
from pyvc.api import CalleeContract
from contracts.spec_common import *
from contracts.C01 import e_of, e_2d, _result_xa, _shape_p, _native, _wit_spectra, REQ, _p_band, BAND_INST, _wit_band
from contracts.C02 import a1_c, b1_c
from contracts.C03 import direction_of, spread_of, mean_direction_static, spread_static, _wit_clean
import pyvc.models.xr   # noqa

PROPERTY = "C04"
LEVEL = "proof"


_E2D = {}
_CUR = {}      # the ghost state (per path) of the clause being evaluated


def _with_ghost(fn):
    def wrapped(a, r=None):
        _CUR["ghost"] = getattr(a, "_ghost", None)
        return fn(a, r) if r is not None or fn.__code__.co_argcount == 2 else fn(a)
    return wrapped


def e_raw(sp, p, i):
    """(value, missing) of e(f_i): 1D stored value; 2D: the value of the spectrum's own e(f) (its contract, verified in
    C01/C02, says it is the directional sum and never missing)"""
    if not sp.two_d:
        return sp.E(p, i), sp.E_nan(p, i)
    if not sp.native and _CUR.get("ghost") and "e2d" in _CUR["ghost"]:
        return _CUR["ghost"]["e2d"].get((p, i)), False
    return e_of(sp, p, i), False


def _capture_e():
    import copy
    c = copy.copy(e_2d)
    c.options = dict(e_2d.options)
    inner = e_2d.options["result"]

    def res(mk, a):
        r = inner(mk, a)
        mk.st.ghost["e2d"] = mk.st.deref(r).fields["arr"]
        return r
    c.options["result"] = res
    return c


E2D_CAP = _capture_e()


def _peak_post(a, r):
    """first index of the maximum of e over the in-band, non-missing frequencies"""
    sp = Spec(a.self)
    val, _ = result_values(r)
    f = sp.f

    def ok(p):
        k = val(p)
        if not is_symbolic(k):
            k = int(k)
        ek, nk = e_raw(sp, p, k)
        some = exists(0, sp.nf, lambda i: And(in_band(f, i, a.fmin, a.fmax), Not(e_raw(sp, p, i)[1])), "some")
        return implies(some, And(
            k >= 0, k < sp.nf, in_band(f, k, a.fmin, a.fmax), Not(nk),
            forall(0, sp.nf, lambda i: implies(And(in_band(f, i, a.fmin, a.fmax), Not(e_raw(sp, p, i)[1])), le(e_raw(sp, p, i)[0], ek, rtol=0, atol=0)), "i"),
            forall(0, sp.nf, lambda i: implies(And(i < k, in_band(f, i, a.fmin, a.fmax), Not(e_raw(sp, p, i)[1])), lt(e_raw(sp, p, i)[0], ek)), "i")))
    return forall(0, sp.np_, ok, "p")


def _some_member_without_candidates(a):
    """a batch member with no non-missing value inside the band: the peak is undefined (xarray: all-NaN slice)"""
    sp = Spec(a.self)
    return exists(0, sp.np_, lambda p: forall(0, sp.nf, lambda i: Not(And(in_band(sp.f, i, a.fmin, a.fmax), Not(e_raw(sp, p, i)[1]))), "i"), "p")


def _no_candidates_default_band(a):
    sp = Spec(a.self)
    inf = T.INF if not sp.native else float("inf")
    return exists(0, sp.np_, lambda p: forall(0, sp.nf, lambda i: Not(And(in_band(sp.f, i, 0, inf), Not(e_raw(sp, p, i)[1]))), "i"), "p")


def _wit_peak():
    import numpy as np
    from ocean_science_utilities.wavespectra.spectrum import create_1d_spectrum
    s1, s2 = _wit_spectra()
    out = []
    for s, k in ((s1, "1d"), (s2, "2d")):
        for fmin, fmax in ((0.0, 0.5), (0.05, 0.31), (0.2, 0.46), (0.04, float("inf"))):
            out.append((f"{k},{'fmax=inf' if fmax == float('inf') else 'band'}", {"self": s, "fmin": fmin, "fmax": fmax}))
    f = np.array([0.05, 0.1, 0.15, 0.2, 0.25, 0.3, 0.35])
    E = np.array([[1.0, 3.0, 3.0, 0.5, 3.0, 0.1, 0.0], [0.0, 0.0, 0.0, 0.0, 0.0, 0.0, 0.0], [5.0, 1.0, np.nan, 2.0, 2.0, 0.1, 4.0]])
    s3 = create_1d_spectrum(f, E, np.arange(3) * 3600, np.zeros(3), np.zeros(3), depth=np.array([10.0, np.nan, np.inf]))
    for fmin, fmax in ((0.0, 1.0), (0.12, 0.33), (0.2, 0.4), (0.3, 0.31)):
        out.append(("1d,band", {"self": s3, "fmin": fmin, "fmax": fmax}))
    return [(lambda w=w: w) for w in out]


peak_index = Contract(
    S + "WaveSpectrum.peak_index", instances=BAND_INST, requires=REQ, ensures=[("first_in_band_maximum", _with_ghost(_peak_post))],
    native=_native, witness=_wit_peak(), callees={e_2d.target: E2D_CAP},
    raises={"ValueError": _with_ghost(lambda a: _some_member_without_candidates(a))},
    options={"result": lambda mk, a: _peak_result(mk, a)},
)


def _peak_result(mk, a):
    from pyvc.values import sym_array
    sp = mk.st.deref(a.self)
    ds = mk.st.deref(sp.fields["dataset"])
    E = mk.st.deref(ds.fields["vars"][NAME_E]).fields["arr"]
    arr = sym_array(T.Fresh.name("peak_index"), (E.shape[0],), "int")
    mk.st.ghost["peak_index"] = arr
    mk.st.ghost["peak_index_band"] = (mk.st.deref(a.fmin), mk.st.deref(a.fmax))
    return xr.mk_xa(mk.st, (P,), arr, None, {})


_LAST = {}


def _idx(p):
    return _CUR["ghost"]["peak_index"].get((p,))


def _same_band(a):
    """the band handed to peak_index is the caller's own (fmin, fmax)"""
    lo, hi = _CUR["ghost"]["peak_index_band"]

    def same(x, y):
        if T._is_inf(x) or T._is_inf(y):
            return T._is_inf(x) and T._is_inf(y)
        return eq(x, y)
    return And(same(lo, a.fmin), same(hi, a.fmax))


# the remaining peak parameters are stated against the index returned by peak_index (modular)
def _pf_post(scale):
    def post(a, r):
        sp = Spec(a.self)
        val, _ = result_values(r)
        if hasattr(r, "_o"):
            return And(_same_band(a), forall(0, sp.np_, lambda p: eq(val(p), scale(sp.f[_idx(p)])), "p"))
        idx = a.self.peak_index(a.fmin, a.fmax).values.reshape(-1)
        return all(eq(val(p), scale(float(sp.f[int(idx[p])])), rtol=1e-12, atol=0) for p in range(sp.np_))
    return post


def _pi_like(x):
    import math
    return T.PI if is_symbolic(x) else math.pi


PK = {peak_index.target: peak_index, e_2d.target: E2D_CAP}
peak_frequency = Contract(S + "WaveSpectrum.peak_frequency", instances=BAND_INST, requires=REQ, ensures=[("grid_frequency_at_peak_index", _with_ghost(_pf_post(lambda x: x)))],
                          native=_native, witness=_wit_peak(), callees=PK)
peak_angular_frequency = Contract(S + "WaveSpectrum.peak_angular_frequency", instances=BAND_INST, requires=REQ,
                                  ensures=[("two_pi_f_at_peak_index", _with_ghost(_pf_post(lambda x: x * _pi_like(x) * 2)))], native=_native, witness=_wit_peak(), callees=PK)
peak_period = Contract(S + "WaveSpectrum.peak_period", instances=BAND_INST, requires=REQ + [("positive_frequencies", lambda a: forall(0, Spec(a.self).nf, lambda i: Spec(a.self).f[i] > 0))],
                       ensures=[("reciprocal_of_peak_frequency", _with_ghost(_pf_post(lambda x: 1 / x)))], native=_native,
                       witness=[w for w in _wit_peak() if w()[1]["self"].frequency.values[0] > 0], callees=PK)


def _p_band1dm(fmax_inf=False):
    def p(mk):
        return {"self": spectrum(mk, "1d"), "fmin": mk.real("fmin"), "fmax": T.INF if fmax_inf else mk.real("fmax")}
    return p


BAND1DM = [("1d,band", _p_band1dm(False)), ("1d,fmax=inf", _p_band1dm(True))]


def _pdir_post(fn):
    def post(a, r):
        sp = Spec(a.self)
        val, isnan = result_values(r)
        if hasattr(r, "_o"):
            return And(_same_band(a), forall(0, sp.np_, lambda p: implies(And(Not(sp.var_nan("a1", p, _idx(p))), Not(sp.var_nan("b1", p, _idx(p)))),
                                                     eq(val(p), fn(sp.var("a1", p, _idx(p)), sp.var("b1", p, _idx(p))))), "p"))
        idx = a.self.peak_index(a.fmin, a.fmax).values.reshape(-1)
        import math
        return all(math.isnan(sp.var("a1", p, int(idx[p]))) or eq(val(p), fn(sp.var("a1", p, int(idx[p])), sp.var("b1", p, int(idx[p]))), rtol=1e-9, atol=1e-9)
                   for p in range(sp.np_))
    return post


peak_direction = Contract(S + "WaveSpectrum.peak_direction", instances=BAND1DM, requires=REQ, ensures=[("direction_of_moments_at_peak_index", _with_ghost(_pdir_post(direction_of)))],
                          native=_native, callees=PK, witness=[lambda: ("1d,band", {"self": _wit_clean(), "fmin": 0.04, "fmax": 0.46})])
peak_spread = Contract(S + "WaveSpectrum.peak_directional_spread", instances=BAND1DM, requires=REQ, ensures=[("spread_of_moments_at_peak_index", _with_ghost(_pdir_post(spread_of)))],
                       native=_native, callees=PK, witness=[lambda: ("1d,band", {"self": _wit_clean(), "fmin": 0.04, "fmax": 0.46})])

# ---- peak wavenumber: the dispersion solver applied to (2 pi f_peak, depth of that batch member; missing depth = deep water)
import z3 as _z3
DISP = _z3.Function("dispersion_solver", T.RealS, T.RealS, T.RealS)


def _disp_result(mk, a):
    from pyvc.values import Arr
    w, d = mk.st.deref(a.angular_frequency), mk.st.deref(a.dep)
    if not (isinstance(w, Arr) and isinstance(d, Arr) and w.ndim == 1 and d.ndim == 1):
        raise T.Unsupported("dispersion solver stub: 1-d arrays expected")
    mk.st.ghost["disp_nanmask"] = getattr(d, "nanmask", None)
    return mk.st.alloc(Arr(w.shape, lambda ix: DISP(T.to_real(T.to_z3(w.get(ix))), T.to_real(T.to_z3(d.get(ix)))), (), "real"), "k")


SOLVER = CalleeContract("wavetheory/lineardispersion.py::inverse_intrinsic_dispersion_relation", _disp_result, assumed=True,
                        note="applied elementwise; its 1e-3 tolerance is the C07 contract (conditional proof + bounded convergence)")


def _depth_post(a, r):
    sp = Spec(a.self)
    val, isnan = result_values(r)
    if hasattr(r, "_o"):
        return forall(0, sp.np_, lambda p: And(Not(isnan(p)), If(sp.var_nan("depth", p), T._is_inf(val(p)) if not T.is_sym(val(p)) else val(p) == T.INF,
                                                                 eq(val(p), sp.var("depth", p)))), "p")
    import math
    return all((math.isinf(val(p)) if sp.var_nan("depth", p) else eq(val(p), sp.var("depth", p))) for p in range(sp.np_))


depth_c = Contract(S + "WaveSpectrum.depth", instances=[("1d", lambda mk: {"self": spectrum(mk, "1d")}), ("2d", lambda mk: {"self": spectrum(mk, "2d")})],
                   requires=REQ[1:], ensures=[("missing_depth_is_deep_water", _depth_post)], native=_native,
                   witness=[lambda: ("1d", {"self": _wit_spectra()[0]}), lambda: ("2d", {"self": _wit_spectra()[1]})],
                   options={"native_call": lambda kw, inst: kw["self"].depth})


def _pk_post(a, r):
    sp = Spec(a.self)
    val, _ = result_values(r)
    if hasattr(r, "_o"):
        dep = lambda p: If(sp.var_nan("depth", p), T.INF, sp.var("depth", p))
        return forall(0, sp.np_, lambda p: eq(val(p), DISP(T.to_real(T.to_z3(sp.f[_idx(p)] * 2 * T.PI)), T.to_real(T.to_z3(dep(p))))), "p")
    import numpy as np
    from ocean_science_utilities.wavetheory.lineardispersion import inverse_intrinsic_dispersion_relation as inv
    idx = a.self.peak_index().values.reshape(-1)
    ok = True
    for p in range(sp.np_):
        d = sp.var("depth", p)
        d = np.inf if np.isnan(d) else d
        w = 2 * np.pi * float(sp.f[int(idx[p])])
        k = val(p)
        ok = ok and eq(k, float(inv(np.array([w]), np.array([d]))[0]), rtol=1e-9) and k > 0
        kd = k * d
        ok = ok and abs(np.sqrt(9.81 * k * (np.tanh(kd) if np.isfinite(kd) else 1.0)) - w) <= 1e-3 * w
    return bool(ok)


def _wit_intermediate_depth():
    """low-frequency peaks at intermediate depth (kd ~ 1): where a loosened solver tolerance shows"""
    import numpy as np
    from ocean_science_utilities.wavespectra.spectrum import create_1d_spectrum
    f = np.array([0.03, 0.05, 0.075, 0.1, 0.125, 0.15, 0.2, 0.3, 0.4])
    E = np.full((4, len(f)), 0.01)
    for p, k in enumerate((3, 4, 1, 2)):
        E[p, k] = 5.0
    return create_1d_spectrum(f, E, np.arange(4) * 3600, np.zeros(4), np.zeros(4), a1=E * 0 + 0.1, b1=E * 0 + 0.1, a2=E * 0, b2=E * 0,
                              depth=np.array([40.0, 26.0, 40.0, 15.0]))


peak_wavenumber = Contract(S + "WaveSpectrum.peak_wavenumber", instances=[("1d", lambda mk: {"self": spectrum(mk, "1d")}), ("2d", lambda mk: {"self": spectrum(mk, "2d")})],
                           requires=REQ, ensures=[("solver_at_peak_frequency_and_own_depth", _with_ghost(_pk_post))], native=_native,
                           raises={"ValueError": _with_ghost(lambda a: _no_candidates_default_band(a))},
                           callees={**PK, SOLVER.target: SOLVER},
                           witness=[lambda: ("1d", {"self": _wit_clean()}), lambda: ("1d", {"self": _wit_intermediate_depth()})],
                           options={"native_call": lambda kw, inst: kw["self"].peak_wavenumber})

CONTRACTS = [peak_index, peak_frequency, peak_angular_frequency, peak_period, peak_direction, peak_spread, depth_c, peak_wavenumber]
TRUSTED = ["xarray library contracts of pyvc/models/xr.py: where(cond, other), argmax(dim) = first index of the maximum with NaN skipped, pointwise isel",
           "peak_wavenumber's dispersion tolerance is the C07 solver contract (bounded there)"]
EXPLANATION = "peak index proved to be the first in-band maximum of e(f) (missing ignored) per batch member; peak frequency/period/direction/spread proved to be the values at that index"
