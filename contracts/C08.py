"""C08 — source terms: sign, support, scaling; bulk rates integrate the spectral rates."""
from pyvc.api import *
from pyvc.run import Lemma, Bounded
from pyvc.api import CalleeContract

PROPERTY = "C08"
LEVEL = "proof"
B = "wavephysics/balance/"

ST4_GEN_PARAMS = ["gravitational_acceleration", "charnock_maximum_roughness", "charnock_constant", "air_density",
                  "water_density", "vonkarman_constant", "wave_age_tuning_parameter", "growth_parameter_betamax",
                  "elevation", "air_viscosity", "viscous_stress_parameter"]


def grid(mk, nf, nd):
    return mk.record("spectral_grid", {"radian_frequency": ("array", (nf,)), "radian_direction": ("array", (nd,)),
                                       "frequency_step": ("array", (nf,)), "direction_step": ("array", (nd,))})


def record(mk, name, fields):
    return mk.record(name, {f: "real" for f in fields})


def positive(rec, fields):
    return And(*[rec[f] > 0 for f in fields])


# assumed contract of the dispersion solver (bounded in C07): positive wavenumbers
def _k_result(mk, a):
    w = mk.st.deref(a.angular_frequency)
    return mk.array("k", w.shape)


K_POS = CalleeContract(
    "wavetheory/lineardispersion.py::inverse_intrinsic_dispersion_relation", _k_result,
    ensures=[("positive", lambda a, r: forall(0, r.n, lambda i: r[i] > 0))],
    assumed=True, note="wavenumber from the Newton solver is positive (sampled in C07)")


def _cg_result(mk, a):
    k = mk.st.deref(a.k)
    return mk.array("cg", k.shape)


CG_POS = CalleeContract(
    "wavetheory/lineardispersion.py::intrinsic_group_velocity", _cg_result,
    ensures=[("positive", lambda a, r: forall(0, r.n, lambda i: r[i] > 0))],
    assumed=True, note="group velocity positive for k,d>0 (formula contract in C07)")

DISP = {K_POS.target: K_POS, CG_POS.target: CG_POS}


# ------------------------------------------------------------------ ST4 wind input (point)
def _st4_point_params(wtype, deep):
    def p(mk):
        nf, nd = mk.size("nf"), mk.size("nd")
        import pyvc.terms as T
        return {"variance_density": mk.array("E", (nf, nd)),
                "wind": (mk.real("U"), mk.real("wdir"), wtype),
                "depth": T.INF if deep else mk.real("depth"),
                "roughness_length": mk.real("z0"),
                "spectral_grid": grid(mk, nf, nd),
                "parameters": record(mk, "parameters", ST4_GEN_PARAMS)}
    return p


def _dims(E):
    return E.shape if hasattr(E, "shape") else None


def _cosm(a, j):
    th = a.spectral_grid["radian_direction"][j]
    wd = a.wind[1]
    if is_symbolic(th, wd):
        import pyvc.terms as T
        return T.uf("cos", th - wd * T.PI / 180)
    import math
    return math.cos(th - wd * math.pi / 180)


def _scaled(a, r, c):
    """result cell under E -> c*E, by substitution of the input symbol in the result term"""
    raise NotImplementedError


st4_point = Contract(
    B + "st4_wind_input.py::_st4_wind_generation_point",
    instances=[(f"{w},{'deep' if d else 'finite'}", _st4_point_params(w, d)) for w in ("u10", "friction_velocity", "ustar") for d in (True, False)],
    requires=[
        ("dims", lambda a: And(a.variance_density.shape[0] >= 0, a.variance_density.shape[1] >= 0)),
        ("nonneg_density", lambda a: forall2((0, a.variance_density.shape[0]), (0, a.variance_density.shape[1]), lambda i, j: a.variance_density[i, j] >= 0)),
        ("positive_parameters", lambda a: positive(a.parameters, ["gravitational_acceleration", "air_density", "water_density", "vonkarman_constant", "growth_parameter_betamax", "elevation"])),
        ("positive_frequencies", lambda a: forall(0, a.variance_density.shape[0], lambda i: a.spectral_grid["radian_frequency"][i] > 0)),
        ("positive_roughness", lambda a: a.roughness_length > 0),
    ],
    ensures=[
        ("nonneg", lambda a, r: forall2((0, a.variance_density.shape[0]), (0, a.variance_density.shape[1]), lambda i, j: r[i, j] >= 0)),
        ("zero_without_energy", lambda a, r: forall2((0, a.variance_density.shape[0]), (0, a.variance_density.shape[1]),
                                                    lambda i, j: implies(a.variance_density[i, j] == 0, r[i, j] == 0))),
        ("zero_upwind", lambda a, r: forall2((0, a.variance_density.shape[0]), (0, a.variance_density.shape[1]),
                                            lambda i, j: implies(_cosm(a, j) <= 0, r[i, j] == 0))),
    ],
    raises={},
    callees=dict(DISP),
)



def all2(E, fn):
    return forall2((0, E.shape[0]), (0, E.shape[1]), fn)


def all1(n, fn):
    return forall(0, n, fn)


def arr_result(name, shape_of):
    return lambda mk, a: mk.array(name, shape_of(mk, a))


def _sh(mk, x):
    return mk.st.deref(x).shape


# ------------------------------------------------------------------ integrators (operations.py)
def _p_integrate(mk):
    nf, nd = mk.size("nf"), mk.size("nd")
    return {"data": mk.array("data", (nf, nd)), "grid": grid(mk, nf, nd)}


integrate2d = Contract(
    "wavespectra/operations.py::numba_integrate_spectral_data",
    params=_p_integrate,
    requires=[("dims", lambda a: And(a.data.shape[0] >= 0, a.data.shape[1] >= 0))],
    ensures=[("value", lambda a, r: eq(r, Sum(0, a.data.shape[0], lambda i: Sum(0, a.data.shape[1], lambda j:
              a.data[i, j] * a.grid["frequency_step"][i] * a.grid["direction_step"][j]))))],
)

integrate_dir = Contract(
    "wavespectra/operations.py::numba_directionally_integrate_spectral_data",
    params=_p_integrate,
    requires=[("dims", lambda a: And(a.data.shape[0] >= 0, a.data.shape[1] >= 0))],
    ensures=[("value", lambda a, r: all1(a.data.shape[0], lambda i: eq(r[i], Sum(0, a.data.shape[1], lambda j: a.data[i, j] * a.grid["direction_step"][j]))))],
)


# ------------------------------------------------------------------ ST4 breaking
def _p_band(mk):
    nf, nd = mk.size("nf"), mk.size("nd")
    return {"variance_density": mk.array("E", (nf, nd)), "group_velocity": mk.array("cg", (nf,)), "wavenumber": mk.array("k", (nf,)),
            "radian_direction": mk.array("theta", (nd,)), "direction_step": mk.array("dtheta", (nd,)),
            "number_of_frequencies": nf, "number_of_directions": nd, "integration_width_degrees": mk.real("width"), "cosine_power": 2}


band_saturation = Contract(
    B + "st4_wave_breaking.py::st4_band_integrated_saturation",
    params=_p_band,
    requires=[("dims", lambda a: And(a.number_of_frequencies >= 0, a.number_of_directions >= 0)),
              ("nonneg_density", lambda a: all2(a.variance_density, lambda i, j: a.variance_density[i, j] >= 0)),
              ("positive_cg_k", lambda a: all1(a.number_of_frequencies, lambda i: And(a.group_velocity[i] > 0, a.wavenumber[i] > 0))),
              ("nonneg_steps", lambda a: all1(a.number_of_directions, lambda j: a.direction_step[j] >= 0))],
    ensures=[("nonneg", lambda a, r: all2(a.variance_density, lambda i, j: r[i, j] >= 0))],
    options={"result": lambda mk, a: mk.array("B", _sh(mk, a.variance_density))},
)


def _p_cumulative(mk):
    nf, nd = mk.size("nf"), mk.size("nd")
    return {"variance_density": mk.array("E", (nf, nd)), "saturation": mk.array("Bsat", (nf, nd)),
            "radian_frequency": mk.array("omega", (nf,)), "group_velocity": mk.array("cg", (nf,)),
            "wave_speed": mk.array("c", (nf,)), "radian_direction": mk.array("theta", (nd,)),
            "direction_step": mk.array("dtheta", (nd,)), "frequency_step": mk.array("df", (nf,)),
            "saturation_threshold": mk.real("Bthr"), "cumulative_breaking_constant": mk.real("Ccu"),
            "cumulative_breaking_max_relative_frequency": mk.real("rfmax"),
            "number_of_frequencies": nf, "number_of_directions": nd}


cumulative_breaking = Contract(
    B + "st4_wave_breaking.py::st4_cumulative_breaking",
    params=_p_cumulative,
    requires=[("dims", lambda a: And(a.number_of_frequencies >= 0, a.number_of_directions >= 0)),
              ("nonneg_density", lambda a: all2(a.variance_density, lambda i, j: a.variance_density[i, j] >= 0)),
              ("nonneg_saturation", lambda a: all2(a.variance_density, lambda i, j: a.saturation[i, j] >= 0)),
              ("positive_cg", lambda a: all1(a.number_of_frequencies, lambda i: a.group_velocity[i] > 0)),
              ("nonneg_steps", lambda a: And(all1(a.number_of_directions, lambda j: a.direction_step[j] >= 0), all1(a.number_of_frequencies, lambda i: a.frequency_step[i] >= 0))),
              ("threshold", lambda a: a.saturation_threshold >= 0)],
    ensures=[("nonpos", lambda a, r: all2(a.variance_density, lambda i, j: r[i, j] <= 0)),
             ("zero_without_energy", lambda a, r: all2(a.variance_density, lambda i, j: implies(a.variance_density[i, j] == 0, r[i, j] == 0)))],
    options={"result": lambda mk, a: mk.array("Scu", _sh(mk, a.variance_density))},
)


def _p_satbreak(mk):
    nf, nd = mk.size("nf"), mk.size("nd")
    return {"variance_density": mk.array("E", (nf, nd)), "band_integrated_saturation": mk.array("B", (nf, nd)),
            "radian_frequency": mk.array("omega", (nf,)), "number_of_frequencies": nf, "number_of_directions": nd,
            "saturation_breaking_constant": mk.real("Csat"), "saturation_breaking_directional_control": mk.real("delta"),
            "saturation_threshold": mk.real("Bthr")}


saturation_breaking = Contract(
    B + "st4_wave_breaking.py::st4_saturation_breaking",
    params=_p_satbreak,
    requires=[("dims", lambda a: And(a.number_of_frequencies >= 0, a.number_of_directions >= 0)),
              ("nonneg_density", lambda a: all2(a.variance_density, lambda i, j: a.variance_density[i, j] >= 0)),
              ("positive_frequencies", lambda a: all1(a.number_of_frequencies, lambda i: a.radian_frequency[i] > 0))],
    ensures=[("nonpos", lambda a, r: all2(a.variance_density, lambda i, j: r[i, j] <= 0)),
             ("zero_without_energy", lambda a, r: all2(a.variance_density, lambda i, j: implies(a.variance_density[i, j] == 0, r[i, j] == 0)))],
    options={"result": lambda mk, a: mk.array("Ssat", _sh(mk, a.variance_density))},
)

ST4_BRK_PARAMS = ["saturation_breaking_constant", "saturation_breaking_directional_control", "saturation_cosine_power",
                  "saturation_integration_width_degrees", "saturation_threshold", "cumulative_breaking_constant",
                  "cumulative_breaking_max_relative_frequency"]


def _p_dissipation(fields, deep=False):
    def p(mk):
        nf, nd = mk.size("nf"), mk.size("nd")
        return {"variance_density": mk.array("E", (nf, nd)), "depth": mk.real("depth"),
                "spectral_grid": grid(mk, nf, nd), "parameters": record(mk, "parameters", fields)}
    return p


def _grid_ok(a):
    nf, nd = a.variance_density.shape
    g = a.spectral_grid
    return And(nf >= 0, nd >= 0, all1(nf, lambda i: And(g["radian_frequency"][i] > 0, g["frequency_step"][i] >= 0)),
               all1(nd, lambda j: g["direction_step"][j] >= 0))


DISSIPATION_ENSURES = [
    ("nonpos", lambda a, r: all2(a.variance_density, lambda i, j: r[i, j] <= 0)),
    ("zero_without_energy", lambda a, r: all2(a.variance_density, lambda i, j: implies(a.variance_density[i, j] == 0, r[i, j] == 0))),
    ("zero_for_empty_spectrum", lambda a, r: implies(all2(a.variance_density, lambda i, j: a.variance_density[i, j] == 0),
                                                    all2(a.variance_density, lambda i, j: r[i, j] == 0))),
]

st4_dissipation = Contract(
    B + "st4_wave_breaking.py::st4_dissipation_breaking",
    params=_p_dissipation(ST4_BRK_PARAMS),
    requires=[("grid", _grid_ok),
              ("nonneg_density", lambda a: all2(a.variance_density, lambda i, j: a.variance_density[i, j] >= 0)),
              ("threshold", lambda a: a.parameters["saturation_threshold"] >= 0)],
    ensures=DISSIPATION_ENSURES,
    callees={**DISP, band_saturation.target: band_saturation, cumulative_breaking.target: cumulative_breaking,
             saturation_breaking.target: saturation_breaking},
)

# ------------------------------------------------------------------ ST6
ST6_PARAMS = ["p1", "p2", "a1", "a2", "saturation_threshold"]


def _p_st6_parts(mk):
    nf, nd = mk.size("nf"), mk.size("nd")
    return {"variance_density": mk.array("E", (nf, nd)), "relative_saturation_exceedence": mk.array("rex", (nf,)),
            "spectral_grid": grid(mk, nf, nd), "parameters": record(mk, "parameters", ST6_PARAMS)}


ST6_PART_REQ = [("grid", _grid_ok),
                ("nonneg_density", lambda a: all2(a.variance_density, lambda i, j: a.variance_density[i, j] >= 0)),
                ("nonneg_exceedence", lambda a: all1(a.variance_density.shape[0], lambda i: a.relative_saturation_exceedence[i] >= 0)),
                ("nonneg_coefficients", lambda a: And(a.parameters["a1"] >= 0, a.parameters["a2"] >= 0))]
ST6_PART_ENS = DISSIPATION_ENSURES[:2]

st6_inherent = Contract(B + "st6_wave_breaking.py::st6_inherent", params=_p_st6_parts, requires=ST6_PART_REQ, ensures=ST6_PART_ENS,
                        options={"result": lambda mk, a: mk.array("Sin", _sh(mk, a.variance_density))})
st6_cumulative = Contract(B + "st6_wave_breaking.py::st6_cumulative", params=_p_st6_parts, requires=ST6_PART_REQ, ensures=ST6_PART_ENS,
                          options={"result": lambda mk, a: mk.array("Scu", _sh(mk, a.variance_density))})

st6_dissipation = Contract(
    B + "st6_wave_breaking.py::st6_dissipation",
    params=_p_dissipation(ST6_PARAMS),
    requires=[("grid", _grid_ok),
              ("nonneg_density", lambda a: all2(a.variance_density, lambda i, j: a.variance_density[i, j] >= 0)),
              ("nonneg_coefficients", lambda a: And(a.parameters["a1"] >= 0, a.parameters["a2"] >= 0, a.parameters["saturation_threshold"] > 0))],
    ensures=DISSIPATION_ENSURES,
    callees={**DISP, st6_inherent.target: st6_inherent, st6_cumulative.target: st6_cumulative},
)

# ------------------------------------------------------------------ Romero (strictly positive spectra)
ROMERO_PARAMS = ["saturation_breaking_constant", "saturation_threshold", "saturation_integrated_threshold",
                 "breaking_probability_constant", "gravitational_acceleration"]

romero_dissipation = Contract(
    B + "romero_wave_breaking.py::romero_dissipation_breaking",
    params=_p_dissipation(ROMERO_PARAMS),
    requires=[("grid", _grid_ok),
              ("positive_density", lambda a: all2(a.variance_density, lambda i, j: a.variance_density[i, j] > 0)),
              ("positive_steps", lambda a: all1(a.variance_density.shape[1], lambda j: a.spectral_grid["direction_step"][j] > 0)),
              ("coefficients", lambda a: And(a.parameters["saturation_breaking_constant"] >= 0, a.parameters["saturation_threshold"] >= 0,
                                             a.parameters["saturation_integrated_threshold"] >= 0, a.parameters["breaking_probability_constant"] >= 0,
                                             a.parameters["gravitational_acceleration"] > 0))],
    ensures=DISSIPATION_ENSURES[:1],
    callees=dict(DISP),
)


# ------------------------------------------------------------------ native side: typed dicts, samplers
def _typed(kw):
    """plain dicts of the model -> numba typed dicts as the real code passes them"""
    from ocean_science_utilities.wavephysics.balance.source_term import _spectral_grid, _numba_parameters
    import numpy as np
    out = dict(kw)
    for gname in ("spectral_grid", "grid"):
        if gname in out and isinstance(out[gname], dict) and not hasattr(out[gname], "_numba_type_"):
            g = out[gname]
            out[gname] = _spectral_grid(*[np.ascontiguousarray(g[k], dtype="float64") for k in
                                          ("radian_frequency", "radian_direction", "frequency_step", "direction_step")])
    if "parameters" in out and isinstance(out["parameters"], dict) and not hasattr(out["parameters"], "_numba_type_"):
        out["parameters"] = _numba_parameters(**{k: float(v) for k, v in out["parameters"].items()})
    if "wind" in out:
        w = out["wind"]
        out["wind"] = (float(w[0]), float(w[1]), w[2])
    if "depth" in out and out["depth"] is None:
        out["depth"] = float("inf")
    return out


def _native(kw, inst):
    import numpy as np
    for k in ("number_of_frequencies", "number_of_directions"):
        if k in kw:
            kw[k] = int(kw[k])
    return _typed(kw)


def _rand_grid(rng, nf, nd):
    import numpy as np
    om = np.sort(rng.uniform(0.3, 6.0, nf)) + np.arange(nf) * 1e-3
    th = (np.linspace(0, 2 * np.pi, nd, endpoint=False) + rng.uniform(0, 2 * np.pi)) % (2 * np.pi)
    return {"radian_frequency": om, "radian_direction": th, "frequency_step": rng.uniform(0.005, 0.05, nf),
            "direction_step": np.full(nd, 360.0 / nd)}


def _rand_E(rng, nf, nd, positive=False):
    import numpy as np
    E = rng.random((nf, nd)) * 0.5
    if not positive:
        E = E * (rng.random((nf, nd)) > 0.3)
        if rng.random() < 0.2:
            E[:] = 0.0
    else:
        E = E + 1e-3
    return E


def _defaults(cls_path):
    import importlib
    mod, cls = cls_path.rsplit(".", 1)
    return dict(getattr(importlib.import_module("ocean_science_utilities.wavephysics.balance." + mod), cls).default_parameters())


def _n(tier, q, t):
    return q if tier == "quick" else t


def _samples_st4_point(rng, tier):
    import numpy as np
    out = []
    for _ in range(_n(tier, 12, 120)):
        nf, nd = int(rng.integers(1, 6)), int(rng.integers(1, 9))
        w = ["u10", "friction_velocity", "ustar"][int(rng.integers(0, 3))]
        deep = bool(rng.integers(0, 2))
        par = _defaults("st4_wind_input.ST4WindInput")
        par["charnock_maximum_roughness"] = 1e6
        par["growth_parameter_betamax"] *= rng.uniform(0.5, 2)
        U = rng.uniform(1, 40) if w == "u10" else rng.uniform(0.05, 1.5)
        kw = {"variance_density": _rand_E(rng, nf, nd), "wind": (U, rng.uniform(0, 360), w),
              "depth": np.inf if deep else rng.uniform(2, 200), "roughness_length": 10 ** rng.uniform(-5, -2),
              "spectral_grid": _rand_grid(rng, nf, nd), "parameters": par}
        out.append((f"{w},{'deep' if deep else 'finite'}", _typed(kw)))
    return out


def _samples_dissipation(cls_path, positive=False):
    def f(rng, tier):
        out = []
        for _ in range(_n(tier, 10, 100)):
            nf, nd = int(rng.integers(1, 6)), int(rng.integers(1, 9))
            par = _defaults(cls_path)
            for k in par:
                if "power" not in k and k not in ("p1", "p2", "saturation_integration_width_degrees", "gravitational_acceleration"):
                    par[k] = par[k] * rng.uniform(0.5, 2.0)
            kw = {"variance_density": _rand_E(rng, nf, nd, positive) * rng.choice([1e-3, 1.0, 30.0]),
                  "depth": float(rng.choice([float("inf"), rng.uniform(2, 200)])),
                  "spectral_grid": _rand_grid(rng, nf, nd), "parameters": par}
            out.append(("", _typed(kw)))
        return out
    return f


def _samples_integrate(rng, tier):
    out = []
    for _ in range(_n(tier, 8, 60)):
        nf, nd = int(rng.integers(1, 6)), int(rng.integers(1, 9))
        out.append(("", _typed({"data": rng.normal(size=(nf, nd)), "grid": _rand_grid(rng, nf, nd)})))
    return out


for _c, _s in ((st4_point, _samples_st4_point), (integrate2d, _samples_integrate), (integrate_dir, _samples_integrate),
               (st4_dissipation, _samples_dissipation("st4_wave_breaking.ST4WaveBreaking")),
               (st6_dissipation, _samples_dissipation("st6_wave_breaking.ST6WaveBreaking")),
               (romero_dissipation, _samples_dissipation("romero_wave_breaking.RomeroWaveBreaking", True))):
    _c.options["samples"] = _s
    _c.native = _native
for _c in (band_saturation, cumulative_breaking, saturation_breaking, st6_inherent, st6_cumulative):
    _c.native = _native

CONTRACTS = [st4_point, integrate2d, integrate_dir, band_saturation, cumulative_breaking, saturation_breaking, st4_dissipation,
             st6_inherent, st6_cumulative, st6_dissipation, romero_dissipation]
TRUSTED = []
