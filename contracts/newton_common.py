"""Exit contract of wavephysics/balance/solvers.py::numba_newton_raphson (shared by C10 and C11).

The hybrid Newton / secant / bisection / Aitken solver is verified ONCE here (real source, arbitrary function `f` of its first argument modelled by
an uninterpreted function, arbitrary guess, hard bounds none / lower / upper / both, arbitrary tolerances, step size, relaxation and iteration
count) and the same clauses (`EXIT_CLAUSES`, over an *exit record*) are what its callers get at their call sites (`newton_at_call`): the
preconditions become call-site obligations, the clauses are assumed for fresh symbols standing for the result, the previous iterate and the bracket.

What the loop supports (derived from the code, not from wishes):
  * range: every iterate, both bracket ends and hence the returned value lie in [min(lo, g - |g|/2), max(hi, g + |g|/2)] for the hard bounds
    (lo, hi) and the guess g: the solver starts from the bracket g -/+ |g|/2 *without* clipping it to the hard bounds, and a sign change found
    there keeps the iterates inside that bracket.  The returned value is within the (closed) hard bounds when the initial bracket is.
    (An iterate that lands exactly on a hard bound is kept: the interval is closed.)
  * bracket: func_at_bounds are the values of f at root_bounds; root_bounded <=> they have strictly opposite signs; root_bounds[0] <= root_bounds[1];
    while bracketed the current iterate is inside the bracket; two-state clause: a bracket with a sign change is never lost and only shrinks.
    Consequence stated as a one-state invariant too: a sign change over the initial bracket is kept, the bracket stays inside the initial one.
  * converged exit (`break`): |r - p| < atol and |r - p| / max(|p|, atol) < rtol for the returned value r (the last iterate) and the previous
    iterate p, which is the point of the last function evaluation in the loop.  With a bracket at exit: f(lo_b) f(hi_b) < 0, lo_b < hi_b and
    lo_b <= r <= hi_b (that a continuous f then has a root in the bracket is the intermediate value theorem: mathematics outside the contract).
  * exhausted exit (for-else): ValueError if error_on_max_iter, otherwise the last iterate is returned without any convergence claim;
    max_iterations <= 1: no iteration at all, the guess is returned (or ValueError).
  * exceptions: ValueError only (stationary point without a bracket, or no convergence).  A division by zero is an unspecified real in the model
    (numba's python error model raises ZeroDivisionError: Aitken step with equal iterates, secant step with equal iterates, relative step size at 0)."""
from fractions import Fraction
import z3 as _z3
from pyvc.api import *
from pyvc.api import CalleeContract
from pyvc import terms as _T
from pyvc.loops import LoopContract

TARGET = "wavephysics/balance/solvers.py::numba_newton_raphson"
FZ = _z3.Function("balance_F", _T.RealS, _T.RealS)
HALF = Fraction(1, 2)


class FnModel:
    """the function handed to the solver: an arbitrary real function of its first argument (trailing arguments fixed)"""

    def __call__(self, interp, st, args, kwargs):
        return FZ(_T.to_z3(_T.to_real(st.deref(args[0]))))


def _F(x):
    return FZ(_T.to_z3(_T.to_real(x)))


BOUNDS = ("unbounded", "lower", "upper", "both")


def _p_solver(bounds, aitken):
    def p(mk):
        lo = mk.real("lower_bound") if bounds in ("lower", "both") else _T.NINF
        hi = mk.real("upper_bound") if bounds in ("upper", "both") else _T.INF
        return {"function": FnModel(), "guess": mk.real("guess"), "function_arguments": (), "hard_bounds": (lo, hi),
                "max_iterations": mk.int("max_iterations"), "aitken_acceleration": aitken, "atol": mk.real("atol"), "rtol": mk.real("rtol"),
                "numerical_stepsize": mk.real("h"), "verbose": False, "error_on_max_iter": mk.bool("error_on_max_iter"),
                "relative_stepsize": mk.bool("relative_stepsize"), "name": "", "under_relaxation": mk.real("under_relaxation")}
    return p


SOLVER_INST = [(f"{b},{'aitken' if k else 'plain'}", _p_solver(b, k)) for b in BOUNDS for k in (True, False)]
import os as _os
if _os.environ.get("NEWTON_ONLY"):          # debugging aid: restrict the solver contract to the instances named (';'-separated)
    SOLVER_INST = [x for x in SOLVER_INST if x[0] in _os.environ["NEWTON_ONLY"].split(";")]


# ---------------------------------------------------------------------------------------------- comparisons that know the infinite bounds
def _ge(x, b):
    return _T.cmp(">=", x, b)


def _le(x, b):
    return _T.cmp("<=", x, b)


def _initial_bracket(g):
    w = absv(g) * HALF
    return g - w, g + w


def _in_range(x, a):
    """min(lo, g - |g|/2) <= x <= max(hi, g + |g|/2)"""
    lo, hi = a.hard_bounds
    b0, b1 = _initial_bracket(a.guess)
    return And(Or(_ge(x, lo), x >= b0), Or(_le(x, hi), x <= b1))


def _conv_test(r, p, atol, rtol):
    d = absv(r - p)
    ap = absv(p)
    return And(d < atol, d / If(ap >= atol, ap, atol) < rtol)


# ---------------------------------------------------------------------------------------------- requires (call-site obligations for the callers)
REQUIRES = [("positive_absolute_tolerance", lambda a: a.atol > 0),
            ("hard_bounds_ordered", lambda a: _le(a.hard_bounds[0], a.hard_bounds[1]))]


# ---------------------------------------------------------------------------------------------- the exit record and the clauses over it
class Exit:
    """what a normal return of the solver exposes: the returned value, the last iterate, the previous iterate p and the function value recorded for it,
    the bracket (ends, recorded function values, flag) and whether the loop was left through its convergence test; `F` is the function"""

    def __init__(self, result, last, previous, f_previous, b_lo, b_hi, f_lo, f_hi, bracketed, converged, F):
        self.result, self.last, self.previous, self.f_previous = result, last, previous, f_previous
        self.b_lo, self.b_hi, self.f_lo, self.f_hi, self.bracketed, self.converged, self.F = b_lo, b_hi, f_lo, f_hi, bracketed, converged, F


def _c_last(a, x):
    return eq(x.result, x.last)


def _c_range(a, x):
    return _in_range(x.result, a)


def _c_hard(a, x):
    lo, hi = a.hard_bounds
    b0, b1 = _initial_bracket(a.guess)
    return implies(And(_ge(b0, lo), _le(b1, hi)), And(_ge(x.result, lo), _le(x.result, hi)))


def _c_converged(a, x):
    return implies(x.converged, And(_conv_test(x.result, x.previous, a.atol, a.rtol), eq(x.f_previous, x.F(x.previous)), _in_range(x.previous, a)))


def _c_bracket(a, x):
    return And(eq(x.f_lo, x.F(x.b_lo)), eq(x.f_hi, x.F(x.b_hi)), iff(x.bracketed, x.F(x.b_lo) * x.F(x.b_hi) < 0), x.b_lo <= x.b_hi,
               _in_range(x.b_lo, a), _in_range(x.b_hi, a),
               implies(x.bracketed, And(x.b_lo < x.b_hi, x.b_lo <= x.result, x.result <= x.b_hi)))


def _c_initial(a, x):
    b0, b1 = _initial_bracket(a.guess)
    return implies(x.F(b0) * x.F(b1) < 0, And(x.bracketed, b0 <= x.b_lo, x.b_hi <= b1))


def _c_exhausted(a, x):
    return And(Or(x.converged, Not(a.error_on_max_iter)),
               implies(a.max_iterations <= 1, And(Not(x.converged), eq(x.result, a.guess))))


EXIT_CLAUSES = [
    ("returned_value_is_the_last_iterate", _c_last),
    ("returned_value_within_hard_bounds_widened_by_the_initial_bracket", _c_range),
    ("returned_value_within_hard_bounds_when_the_initial_bracket_is", _c_hard),
    ("converged_exit_last_step_passes_the_tolerance_test_against_the_last_evaluation_point", _c_converged),
    ("bracket_at_exit_holds_function_values_flag_means_strict_sign_change_and_contains_the_result", _c_bracket),
    ("sign_change_over_the_initial_bracket_is_kept_and_the_bracket_stays_inside_it", _c_initial),
    ("exhausted_exit_returns_only_when_errors_are_off_and_no_iteration_returns_the_guess", _c_exhausted),
]


# ---------------------------------------------------------------------------------------------- loop invariant (one-state) and step clause (two-state)
def _i_values(ns):
    return And(eq(ns.func_at_bounds[0], _F(ns.root_bounds[0])), eq(ns.func_at_bounds[1], _F(ns.root_bounds[1])))


def _i_flag(ns):
    return iff(ns.root_bounded, ns.func_at_bounds[0] * ns.func_at_bounds[1] < 0)


def _i_order(ns):
    rb, it = ns.root_bounds, ns.iterates
    return And(rb[0] <= rb[1], implies(ns.root_bounded, And(rb[0] <= it[2], it[2] <= rb[1])))


def _i_range(ns):
    rb, it = ns.root_bounds, ns.iterates
    return And(*[_in_range(v, ns) for v in (rb[0], rb[1], it[0], it[1], it[2])])


def _i_initial(ns):
    b0, b1 = _initial_bracket(ns.guess)
    return implies(_F(b0) * _F(b1) < 0, And(ns.root_bounded, b0 <= ns.root_bounds[0], ns.root_bounds[1] <= b1))


def _i_eval(ns):
    return implies(ns.current_iteration > 1, eq(ns.func_evals[2], _F(ns.iterates[1])))


def _i_first(ns):
    return implies(ns.current_iteration <= 1, eq(ns.iterates[2], ns.guess))


def _s_shrinks(h, e):
    return implies(h.root_bounded, And(e.root_bounded, h.root_bounds[0] <= e.root_bounds[0], e.root_bounds[1] <= h.root_bounds[1]))


SOLVER_LOOP = LoopContract(
    invariant=[("bracket_function_values_are_f_at_the_bracket_ends", _i_values),
               ("bracket_flag_means_strict_sign_change", _i_flag),
               ("bracket_ordered_and_contains_the_iterate_when_flagged", _i_order),
               ("iterates_and_bracket_within_hard_bounds_widened_by_the_initial_bracket", _i_range),
               ("sign_change_over_the_initial_bracket_is_kept", _i_initial),
               ("last_function_evaluation_is_at_the_previous_iterate", _i_eval),
               ("before_the_first_iteration_the_iterate_is_the_guess", _i_first)],
    step=[("a_sign_change_bracket_is_never_lost_and_only_shrinks", _s_shrinks)])


def _exit_from_locals(a, r):
    """the exit record of the verified run: the function's locals at its normal exit (ghost) and the exit marker of the loop"""
    loc, st = a._ghost["locals"], a._snap
    lst = lambda n: [st.deref(v) for v in st.deref(loc[n])]
    it, fe, rb, fb = lst("iterates"), lst("func_evals"), lst("root_bounds"), lst("func_at_bounds")
    return Exit(r, it[2], it[1], fe[2], rb[0], rb[1], fb[0], fb[1], st.deref(loc["root_bounded"]), a._ghost.get("inv1.exit") == "break", _F)


# ---------------------------------------------------------------------------------------------- executable twin: the real function on concrete functions
DEFAULTS = {"hard_bounds": (-float("inf"), float("inf")), "max_iterations": 100, "aitken_acceleration": True, "atol": 1e-4, "rtol": 1e-4,
            "numerical_stepsize": 1e-4, "verbose": False, "error_on_max_iter": True, "relative_stepsize": False, "name": "", "under_relaxation": 0.9}
ORDER = ["hard_bounds", "max_iterations", "aitken_acceleration", "atol", "rtol", "numerical_stepsize", "verbose", "error_on_max_iter",
         "relative_stepsize", "name", "under_relaxation"]


def _args_ns(kwargs):
    return {**DEFAULTS, **kwargs}


class _NativeRun:
    def __init__(self, exit_record, compiled):
        self.exit, self.compiled = exit_record, compiled

    def __repr__(self):
        x = self.exit
        return (f"compiled={self.compiled!r} python={x.last!r} previous={x.previous!r} bracket=({x.b_lo!r}, {x.b_hi!r}) bracketed={x.bracketed} "
                f"converged={x.converged}")


_JIT = {}


def _test_function():
    """one jitted family (a single compilation of the solver): kind 0: x^2 - c, 1: exp(x) - c, 2: cos(x) - c x, 3: x + c"""
    if "f" not in _JIT:
        import numba
        import numpy as np

        def f(x, kind, c):
            if kind == 0:
                return x * x - c
            elif kind == 1:
                return np.exp(x) - c
            elif kind == 2:
                return np.cos(x) - c * x
            return x + c
        _JIT["py"], _JIT["f"] = f, numba.njit(f)
    return _JIT["py"], _JIT["f"]


def _native_call(kwargs, inst):
    """the compiled solver on a jitted test function (the returned value), and the same source run as python (`py_func`) under a tracer that reads the
    function's locals at its return (previous iterate, bracket, flag, which `return` was taken): the exit record the clauses are evaluated on"""
    import sys
    import inspect
    from ocean_science_utilities.wavephysics.balance.solvers import numba_newton_raphson as solver
    kw = _args_ns(kwargs)
    pyf, jf = _test_function()
    fa = tuple(kw["function_arguments"])
    pos = [tuple(float(b) for b in kw["hard_bounds"])] + [kw[k] for k in ORDER[1:]]
    compiled = solver(jf, float(kw["guess"]), fa, *pos)
    code = solver.py_func.__code__
    lines, first = inspect.getsourcelines(solver.py_func)
    last_line = first + len(lines) - 1
    while not lines[last_line - first].strip():
        last_line -= 1
    box = {}

    def tracer(frame, event, arg):
        if frame.f_code is not code:
            return None

        def local(fr, ev, ar):
            if ev == "return" and ar is not None:
                box["locals"], box["line"] = dict(fr.f_locals), fr.f_lineno
            return local
        return local
    old = sys.gettrace()
    sys.settrace(tracer)
    try:
        solver.py_func(pyf, float(kw["guess"]), fa, *pos)
    finally:
        sys.settrace(old)
    loc = box["locals"]
    it, fe, rb, fb = loc["iterates"], loc["func_evals"], loc["root_bounds"], loc["func_at_bounds"]
    x = Exit(float(compiled), it[2], it[1], fe[2], rb[0], rb[1], fb[0], fb[1], bool(loc["root_bounded"]), box["line"] == last_line,
             lambda v: pyf(v, *fa))
    return _NativeRun(x, float(compiled))


def _clause(fn):
    def clause(a, r):
        if isinstance(r, _NativeRun):
            return fn(NS(_args_ns(a.__dict__)), r.exit)
        return fn(a, _exit_from_locals(a, r))
    return clause


def _witnesses():
    inf = float("inf")
    g = lambda kind, c, guess, **kw: {"function": None, "guess": guess, "function_arguments": (kind, float(c)), **kw}
    return [("both,plain", g(0, 2.0, 1.0, hard_bounds=(0.0, 3.0), aitken_acceleration=False)),
            ("lower,aitken", g(1, 3.0, 0.5, hard_bounds=(0.0, inf))),
            ("both,plain", g(3, 25.0, -18.0, hard_bounds=(-20.0, 0.0), aitken_acceleration=False)),     # root -25 outside the hard bounds, inside the initial bracket
            ("unbounded,plain", g(2, 1.0, 1.0, aitken_acceleration=False)),
            ("unbounded,aitken", g(2, 1.0, 3.0)),
            ("lower,plain", g(0, 2.0, 50.0, hard_bounds=(0.0, inf), aitken_acceleration=False, max_iterations=3, error_on_max_iter=False)),
            ("lower,plain", g(0, 2.0, 50.0, hard_bounds=(0.0, inf), aitken_acceleration=False, max_iterations=3)),                  # ValueError
            ("both,plain", g(0, 2.0, 1.0, hard_bounds=(0.0, 3.0), aitken_acceleration=False, max_iterations=1, error_on_max_iter=False)),
            ("both,plain", g(1, 1e-3, -12.0, hard_bounds=(-20.0, 0.0), aitken_acceleration=False, atol=1e-6, rtol=1e-6)),
            ("upper,plain", g(3, 4.0, -1.0, hard_bounds=(-inf, -2.0), aitken_acceleration=False))]


N_WITNESSES = 10


def solver_contract(instances=None, label=None):
    """the exit contract for the named instances (default: the whole family); C11 verifies the family, C10 re-verifies the instance its call uses"""
    inst = [x for x in SOLVER_INST if instances is None or x[0] in instances]
    names = {x[0] for x in inst}
    c = Contract(
        TARGET, instances=inst,
        requires=REQUIRES,
        ensures=[(lab, _clause(fn)) for lab, fn in EXIT_CLAUSES],
        raises={"ValueError": lambda a: True},
        options={"loop_invariants": {lab: {1: SOLVER_LOOP} for lab, _ in inst},
                 "feasibility": "abstract", "max_paths": 6000, "merge_ifs": True, "expose_locals": True,
                 "native_call": _native_call, "args_ns": _args_ns},
        witness=[(lambda k=k: _witnesses()[k]) for k in range(N_WITNESSES) if _witnesses()[k][0] in names],
        **({"label": label} if label else {}),
    )
    c.loops = {1: SOLVER_LOOP}
    return c


newton = solver_contract()


# ---------------------------------------------------------------------------------------------- the same contract at a call site
def newton_at_call(ghost_key="solver_calls"):
    """`numba_newton_raphson` as proved above, used at a call site: REQUIRES are obligations on the actual arguments, EXIT_CLAUSES are assumed for fresh
    symbols (result, previous iterate, bracket, exit flags) and a fresh function symbol standing for x -> function(x, *function_arguments);
    ValueError may escape.  Every call is recorded as (raw arguments, exit record) under `ghost_key`."""
    from pyvc.verify import wrap as _wrap

    def result(mk, raw):
        st, ctx = mk.st, mk.ctx
        a = NS({k: _wrap(ctx, mk.interp, st, v) for k, v in raw.__dict__.items()})
        if len(a.hard_bounds) != 2:
            raise _T.Unsupported("numba_newton_raphson call: hard bounds")
        for label, fn in REQUIRES:
            ctx.oblige(st, f"pre.numba_newton_raphson.{label}", fn(a))
        f = _z3.Function(_T.Fresh.name("function_at_call"), _T.RealS, _T.RealS)
        F = lambda x: f(_T.to_z3(_T.to_real(x)))
        r = mk.real("root")
        x = Exit(r, r, mk.real("previous_iterate"), mk.real("f_previous"), mk.real("bracket_lo"), mk.real("bracket_hi"), mk.real("f_bracket_lo"),
                 mk.real("f_bracket_hi"), mk.bool("bracketed"), mk.bool("left_by_convergence"), F)
        for label, fn in EXIT_CLAUSES:
            st.assume(_T.to_z3(fn(a, x)))
        st.ghost[ghost_key] = st.ghost.get(ghost_key, ()) + ((raw, x),)
        return r
    cc = CalleeContract(TARGET, result, assumed=False,
                        note="proved in contracts/newton_common.py (exit contract of numba_newton_raphson): preconditions are call-site obligations, "
                             "the exit clauses are assumed for the result; may raise ValueError")
    cc.may_raise = ("ValueError",)
    return cc
