"""Complex scalars / arrays as pairs of real terms (re, im).

A complex value is Obj('complex', {'re': X, 'im': X}) where X is a scalar term or an Arr (numpy broadcasting between the
two parts and between operands goes through lib.ew).  Assumed library contracts (numpy complex arithmetic over the reals,
no NaN / inf cells):
  * the literal `yj` is (0, y); a real operand r is (r, 0);
  * (a+bi) + (c+di) = (a+c) + (b+d)i, likewise -;  (a+bi)(c+di) = (ac-bd) + (ad+bc)i;
    (a+bi)/(c+di) = ((ac+bd) + (bc-ad)i)/(c^2+d^2), with a real divisor (a/c) + (b/c)i;
  * np.exp(a+bi) = e^a cos b + i e^a sin b   (cos / sin are the uninterpreted functions of terms.py; their
    Pythagorean identity is supplied per obligation by the existing 'extra_trig' instances);
  * np.conj, np.real, np.imag, unary minus componentwise; np.abs(z) = sqrt(re^2+im^2), kept lazy (Obj 'complex_abs')
    so that np.abs(z) ** 2 is re^2+im^2 without a square root (any other use materialises the square root);
  * z ** 2 = z z;  indexing / broadcasting indices ([:, None], [None, :], integers, slices) act on both parts;
  * np.sum(z, axis) sums the parts;
  * a DataArray without missing values combined with a complex operand acts through its values, positionally
    (the DataArray wrapper of the product is dropped: np.sum / np.fft.irfft see through it).
Nothing here applies unless a complex literal or a value built from one occurs, so properties that do not import this
module (or never meet `1j`) are unaffected.
"""
from fractions import Fraction
from .. import terms as T
from .. import lib
from ..terms import Unsupported
from ..values import Obj, Arr, CArr, LibFunc, Ref, materialise
from ..lib import REG
from . import xr as _xr   # noqa: imported first so that this plugin can be placed in front of the xarray model


def is_c(o):
    return isinstance(o, Obj) and o.cls == "complex"


def is_cabs(o):
    return isinstance(o, Obj) and o.cls == "complex_abs"


def mk_c(st, re, im):
    return st.alloc(Obj("complex", {"re": re, "im": im}), "complex")


def _d(st, x):
    return st.deref(x)


def _plain(st, x):
    """a real operand as a scalar term or an Arr"""
    x = _d(st, x)
    if is_cabs(x):
        return _d(st, _modulus(st, x))
    if _xr.is_xa(x):
        if x.fields["nan"] is not None or x.fields["masks"]:
            raise Unsupported("complex arithmetic with a DataArray that may hold missing values")
        return x.fields["arr"]
    if isinstance(x, (Arr,)) or T.is_val(x):
        if isinstance(x, T.XR):
            raise Unsupported("complex arithmetic with a possibly-NaN value")
        if isinstance(x, Arr) and (x.sort == "xreal" or getattr(x, "nanmask", None) is not None):
            raise Unsupported("complex arithmetic with a possibly-NaN array")
        return x
    if isinstance(x, (list, tuple)):
        from ..values import carr_from_list
        return carr_from_list([st.deref(e) for e in x])
    raise Unsupported(f"complex arithmetic with {type(x).__name__}")


def parts(st, x):
    x = _d(st, x)
    if is_c(x):
        return _d(st, x.fields["re"]), _d(st, x.fields["im"])
    return _plain(st, x), Fraction(0)


def _ap(st, fn, *ops):
    """fn over scalars / arrays with broadcasting; returns a scalar term or an Arr"""
    ops = [_d(st, o) for o in ops]
    if any(isinstance(o, Arr) for o in ops):
        return _d(st, lib.ew(st, fn, *ops))
    return fn(*ops)


def _zero(x):
    return T.is_conc_num(x) and x == 0


def c_add(st, a, b, sign=1):
    (ar, ai), (br, bi) = parts(st, a), parts(st, b)
    f = T.add if sign > 0 else T.sub
    return mk_c(st, _ap(st, f, ar, br), _ap(st, f, ai, bi))


def c_mul(st, a, b):
    (ar, ai), (br, bi) = parts(st, a), parts(st, b)
    re = _ap(st, lambda p, q, r, s: T.sub(T.mul(p, r), T.mul(q, s)), ar, ai, br, bi)
    im = _ap(st, lambda p, q, r, s: T.add(T.mul(p, s), T.mul(q, r)), ar, ai, br, bi)
    return mk_c(st, re, im)


def c_div(st, a, b):
    (ar, ai), (br, bi) = parts(st, a), parts(st, b)
    if _zero(bi):
        return mk_c(st, _ap(st, T.div, ar, br), _ap(st, T.div, ai, br))

    def den(r, s):
        return T.add(T.mul(r, r), T.mul(s, s))
    re = _ap(st, lambda p, q, r, s: T.div(T.add(T.mul(p, r), T.mul(q, s)), den(r, s)), ar, ai, br, bi)
    im = _ap(st, lambda p, q, r, s: T.div(T.sub(T.mul(q, r), T.mul(p, s)), den(r, s)), ar, ai, br, bi)
    return mk_c(st, re, im)


def c_exp(st, a):
    ar, ai = parts(st, a)
    re = _ap(st, lambda p, q: T.mul(T.uf("exp", p), T.uf("cos", q)), ar, ai)
    im = _ap(st, lambda p, q: T.mul(T.uf("exp", p), T.uf("sin", q)), ar, ai)
    return mk_c(st, re, im)


def c_abs2(st, a):
    ar, ai = parts(st, a)
    return _ap(st, lambda p, q: T.add(T.mul(p, p), T.mul(q, q)), ar, ai)


def _modulus(st, o):
    """materialised |z| of a lazy modulus"""
    v = _ap(st, lambda p, q: T.uf("sqrt", T.add(T.mul(p, p), T.mul(q, q))), _d(st, o.fields["re"]), _d(st, o.fields["im"]))
    return v


def _ret(st, v):
    return st.alloc(v, "arr") if isinstance(v, Arr) else v


def _shape(st, o):
    re, im = _d(st, o.fields["re"]), _d(st, o.fields["im"])
    shapes = [x.shape for x in (re, im) if isinstance(x, Arr)]
    if not shapes:
        return None
    return lib._bshape(st, lib.CUR_INTERP[0], shapes)


def _full(st, x, shape):
    """a part broadcast to the value's full shape (scalar parts of array values, e.g. the zero real part of 1j*x)"""
    x = _d(st, x)
    if isinstance(x, Arr) and tuple(x.shape) == tuple(shape):
        return x
    if isinstance(x, Arr):
        nd = len(shape)
        return Arr(shape, lambda ix, x=x, nd=nd: x.get(tuple(0 if (isinstance(s, int) and s == 1) else i
                                                              for i, s in zip(ix[nd - x.ndim:], x.shape))), (), x.sort)
    return Arr(shape, lambda ix, x=x: x, (), "real")


class CplxPlugin:
    def complex_literal(self, interp, st, v):
        return mk_c(st, T.from_float(v.real) if v.real != 0 else Fraction(0), T.from_float(v.imag))

    def obj_binop(self, interp, st, opname, a, b):
        a, b = _d(st, a), _d(st, b)
        if opname.startswith("ufunc:"):
            u = opname[6:]
            if is_cabs(a):
                raise Unsupported(f"ufunc {u} of a lazy complex modulus")
            if not is_c(a):
                return NotImplemented
            ar, ai = parts(st, a)
            if u == "exp":
                return c_exp(st, a)
            if u == "neg":
                return mk_c(st, _ap(st, T.neg, ar), _ap(st, T.neg, ai))
            if u == "pos":
                return mk_c(st, ar, ai)
            if u in ("abs", "absolute"):
                return st.alloc(Obj("complex_abs", {"re": ar, "im": ai}), "complex_abs")
            raise Unsupported(f"ufunc {u} of a complex value")
        if opname.startswith("ufunc2:"):
            return NotImplemented
        if is_cabs(a) or is_cabs(b):
            if is_cabs(a) and opname == "Pow" and T.is_conc_num(b) and b == 2:
                return _ret(st, c_abs2(st, Obj("complex", a.fields)))
            a2 = _modulus(st, a) if is_cabs(a) else a
            b2 = _modulus(st, b) if is_cabs(b) else b
            return interp.binop(st, opname, _ret(st, a2), _ret(st, b2))
        if not (is_c(a) or is_c(b)):
            return NotImplemented
        if opname == "Add":
            return c_add(st, a, b)
        if opname == "Sub":
            return c_add(st, a, b, -1)
        if opname == "Mult":
            return c_mul(st, a, b)
        if opname == "Div":
            return c_div(st, a, b)
        if opname == "Pow" and T.is_conc_num(b) and b == 2:
            return c_mul(st, a, a)
        raise Unsupported(f"operator {opname} on complex values")

    def obj_getattr(self, interp, st, ref, o, name):
        if is_cabs(o):
            return NotImplemented
        if not is_c(o):
            return NotImplemented
        if name == "real":
            return _ret(st, parts(st, o)[0])
        if name == "imag":
            return _ret(st, parts(st, o)[1])
        if name == "shape":
            s = _shape(st, o)
            return () if s is None else tuple(s)
        if name == "ndim":
            s = _shape(st, o)
            return 0 if s is None else len(s)
        if name == "conj" or name == "conjugate":
            return LibFunc("complex.conj", lib._wrap("numpy.conj", lambda i, s, a, k: _conj(i, s, [o], {})))
        if name == "values":
            return ref
        return NotImplemented

    def special_getitem(self, interp, st, ref, o, idx):
        if is_cabs(o):
            return interp.getitem(st, _ret(st, _modulus(st, o)), idx)
        if not is_c(o):
            return NotImplemented
        shape = _shape(st, o)
        if shape is None:
            raise Unsupported("subscript of a complex scalar")
        out = []
        for p in (o.fields["re"], o.fields["im"]):
            out.append(lib.arr_getitem(interp, st, _full(st, p, shape), idx))
        return mk_c(st, out[0], out[1])

    def special_len(self, interp, st, x):
        if is_c(x):
            s = _shape(st, x)
            if not s:
                raise Unsupported("len of a complex scalar")
            return s[0]
        return NotImplemented

    def obj_isinstance(self, interp, st, o, typ):
        if isinstance(o, Obj) and o.cls in ("complex", "complex_abs") and isinstance(typ, lib.TypeTag):
            if typ.name == "numpy.ndarray":
                return _shape(st, o) is not None
            return False
        return NotImplemented


PLUGIN = CplxPlugin()
lib.PLUGINS.insert(0, PLUGIN)


# ---------------------------------------------------------------- numpy entry points
def _conj(interp, st, args, kwargs):
    x = _d(st, args[0])
    if not is_c(x):
        return args[0]          # the conjugate of a real value is the value
    re, im = parts(st, x)
    return mk_c(st, re, _ap(st, T.neg, im))


def _real(interp, st, args, kwargs):
    x = _d(st, args[0])
    if not is_c(x):
        return args[0]
    return _ret(st, parts(st, x)[0])


def _imag(interp, st, args, kwargs):
    x = _d(st, args[0])
    if not is_c(x):
        raise Unsupported("np.imag of a real value")
    return _ret(st, parts(st, x)[1])


for _n, _f in (("conj", _conj), ("conjugate", _conj), ("real", _real), ("imag", _imag)):
    REG["numpy." + _n] = LibFunc("numpy." + _n, lib._wrap("numpy." + _n, _f))


def _wrap_sum():
    old = REG["numpy.sum"].impl

    def np_sum(interp, st, args, kwargs, old=old):
        x = _d(st, args[0])
        if is_cabs(x):
            return old(interp, st, [_ret(st, _modulus(st, x))] + list(args[1:]), kwargs)
        if not is_c(x):
            return old(interp, st, args, kwargs)
        axis = _d(st, kwargs.get("axis", args[1] if len(args) > 1 else None))
        shape = _shape(st, x)
        if shape is None:
            return args[0]
        out = [lib.reduce_sum(st, _full(st, p, shape), axis) for p in (x.fields["re"], x.fields["im"])]
        return mk_c(st, out[0], out[1])
    REG["numpy.sum"] = LibFunc("numpy.sum", lib._wrap("numpy.sum", np_sum))


_wrap_sum()


if "numpy.squeeze" not in REG:
    def _squeeze(interp, st, args, kwargs):
        """np.squeeze(a): axes of length one are removed (a symbolic length is compared with 1 on each path)"""
        a = _d(st, args[0])
        if not isinstance(a, Arr) or len(args) > 1 or kwargs:
            raise Unsupported("np.squeeze of a non-array / with an axis")
        keep = []
        for k, n in enumerate(a.shape):
            if isinstance(n, int):
                one = n == 1
            else:
                one = interp.truth(st, T.cmp("==", n, 1))
            if not one:
                keep.append(k)
        if len(keep) == a.ndim:
            return args[0]
        shape = tuple(a.shape[k] for k in keep)

        def base(ix, a=a, keep=keep):
            full = [0] * a.ndim
            for k, i in zip(keep, ix):
                full[k] = i
            return a.get(tuple(full))
        r = Arr(shape, base, (), a.sort)
        if not shape:
            return r.get(())
        return st.alloc(materialise(r) if isinstance(a, CArr) else r, "arr")
    REG["numpy.squeeze"] = LibFunc("numpy.squeeze", lib._wrap("numpy.squeeze", _squeeze))
