"""Check driver: ./check Cxx [--tier quick|thorough] [--replay file] [--update-expected]

Exit codes: 0 property held on everything explored / 1 violation (VIOLATION line printed) /
2 undecided (an obligation of the proved core could not be decided) / 3 checker error."""
import argparse
import importlib
import json
import os
import subprocess
import sys
import time
import traceback

HERE = os.path.dirname(os.path.dirname(os.path.abspath(__file__)))


def _env():
    e = dict(os.environ)
    e.setdefault("OSU_REPO", "/repo")
    e.setdefault("NUMBA_CACHE_DIR", os.path.join(HERE, ".cache", "numba"))
    e["PYTHONPATH"] = os.path.join(e["OSU_REPO"], "src") + os.pathsep + HERE + os.pathsep + e.get("PYTHONPATH", "")
    e.setdefault("OSU_VERIF", "1")
    return e


def run_replay_file(path, timeout=900):
    p = subprocess.run([sys.executable, "-m", "pyvc.replay", path], capture_output=True, text=True,
                       cwd=HERE, env=_env(), timeout=timeout)
    for line in p.stdout.splitlines():
        if line.startswith("REPLAY-RESULT "):
            return json.loads(line[len("REPLAY-RESULT "):])
    return {"verdict": "error", "error": (p.stderr or p.stdout)[-2000:]}


class Lemma:
    """Spec-level obligation (independent of the code): build() -> (hyps, goal)."""

    def __init__(self, name, build, note="", meta=None):
        self.name, self.build, self.note = name, build, note
        self.meta = dict(meta or {})      # e.g. {"sum_monotone": True}: lemma schemas to instantiate for this obligation


class Bounded:
    """Bounded stand-in: fn(tier, seed) -> dict(evaluations, distinct, failures=[{case,...}],
    domain=str, samples=[...]).  Never counted as proved."""

    def __init__(self, name, fn, note=""):
        self.name, self.fn, self.note = name, fn, note


def load_known():
    p = os.path.join(HERE, "known_findings.json")
    if not os.path.exists(p):
        return {"findings": [], "fixed": []}
    with open(p) as f:
        return json.load(f)


def match_known(known, pid, obligation, inputs):
    for k in known.get("findings", []):
        if k["property"] != pid:
            continue
        if k.get("obligation") and k["obligation"] != obligation:
            continue
        cond = k.get("when")
        if cond:
            try:
                from pyvc.replay import generic_native
                ok = bool(eval(cond, {"__builtins__": {"abs": abs, "len": len, "all": all, "any": any, "min": min, "max": max}},
                               dict(generic_native(inputs or {}))))
            except Exception:
                ok = False
            if not ok:
                continue
        return k
    return None


def main(argv=None):
    ap = argparse.ArgumentParser()
    ap.add_argument("prop")
    ap.add_argument("--tier", default=os.environ.get("VERIF_TIER", "quick"))
    ap.add_argument("--replay")
    ap.add_argument("--update-expected", action="store_true")
    ap.add_argument("--verbose", "-v", action="store_true")
    ap.add_argument("--only", help="substring filter on contract targets (debugging)")
    args = ap.parse_args(argv)
    tier = args.tier if args.tier in ("quick", "thorough") else "quick"
    os.environ["VERIF_TIER"] = tier     # contract modules with tier-dependent instance sets (TIERED = True) read it; inherited by subprocesses
    seed = int(os.environ.get("VERIF_SEED", "0") or 0)
    pid = args.prop
    os.environ.setdefault("OSU_REPO", "/repo")
    os.environ.setdefault("NUMBA_CACHE_DIR", os.path.join(HERE, ".cache", "numba"))
    sys.path.insert(0, os.path.join(os.environ["OSU_REPO"], "src"))
    sys.path.insert(0, HERE)
    t0 = time.time()
    try:
        if args.replay:
            return do_replay(pid, args.replay)
        return do_check(pid, tier, seed, args, t0)
    except SystemExit:
        raise
    except Exception:
        traceback.print_exc()
        print(f"CHECKER-ERROR property={pid}")
        return 3


def do_replay(pid, path):
    res = run_replay_file(path)
    print(json.dumps(res, indent=1, default=str)[:4000])
    if res.get("verdict") == "fails":
        print(f"VIOLATION property={pid} replay={path}")
        return 1
    if res.get("verdict") == "error":
        return 3
    print(f"replay verdict: {res.get('verdict')}")
    return 0


def do_check(pid, tier, seed, args, t0):
    from pyvc import verify, source
    from pyvc import terms as T
    import z3
    source.reset()
    M = importlib.import_module(f"contracts.{pid}")
    contracts = [c for c in M.CONTRACTS if not args.only or args.only in c.target]
    timeout_ms = getattr(M, "TIMEOUT_MS", {"quick": 30000, "thorough": 180000})[tier]
    known = load_known()
    os.makedirs(os.path.join(HERE, "replays"), exist_ok=True)
    os.makedirs(os.path.join(HERE, "evidence"), exist_ok=True)

    violations, known_hits, undecided, errors = [], [], [], []
    # modules whose instance set depends on the tier (TIERED = True) keep a second name list / hint file for the thorough tier
    tsfx = ".thorough" if (tier == "thorough" and getattr(M, "TIERED", False)) else ""
    exp_path0 = os.path.join(HERE, "contracts", f"{pid}.expected{tsfx}.json")
    if tsfx and not os.path.exists(exp_path0) and not args.update_expected:
        tsfx = ""
        exp_path0 = os.path.join(HERE, "contracts", f"{pid}.expected.json")
    expected_names = set(json.load(open(exp_path0))) if os.path.exists(exp_path0) else None
    reports = []
    for c in contracts:
        reports.extend(verify.verify_contract(pid, c))
    # lemmas as pseudo-reports
    lemma_obls = []
    for lm in getattr(M, "LEMMAS", []):
        try:
            hyps, goal = lm.build()
            lemma_obls.append(verify.Obligation(f"{pid}.lemma.{lm.name}", hyps, goal, {"lemma": True, **getattr(lm, "meta", {})}))
        except Exception as e:
            errors.append(f"lemma {lm.name}: {type(e).__name__}: {e}")
    if lemma_obls:
        lr = verify.FunctionReport("<spec lemmas>", "")
        lr.obligations = lemma_obls
        lr.mk = type("X", (), {"obs": {}})()
        reports.append(lr)
    EXPECTED[0] = expected_names
    del UNDECIDED_EXTRA[:]
    ts = time.time()
    hints_path = os.path.join(HERE, "contracts", f"{pid}.hints{tsfx}.json")
    hints = json.load(open(hints_path)) if os.path.exists(hints_path) and not os.environ.get("OSU_NO_HINTS") else None
    verify.solve(reports, timeout_ms=timeout_ms, hints=hints)
    solver_wall = time.time() - ts

    # small-size refuter: obligations that are open (undecided, or sat with a model that does not
    # replay) are re-generated with every array dimension fixed to a small concrete size, where they
    # are quantifier-free; a model found there is a concrete input that is replayed on the real code
    refuter_notes = small_size_refuter(pid, M, contracts, reports, timeout_ms, known)

    functions = []
    n_obl = n_dis = 0
    by_backend = {}
    solver_time = 0.0
    samples = []
    obligation_names = []
    for rep in reports:
        fn_entry = {"target": rep.target, "instance": rep.instance, "source": rep.fingerprint, "paths": rep.paths,
                    "dropped_by_extraction": rep.dropped, "inlined_callees": sorted(rep.inlined),
                    "callees_by_contract": rep.by_contract, "stats": rep.stats, "library_contracts_used": rep.lib_used}
        if rep.target != "<spec lemmas>":
            functions.append(fn_entry)
        if rep.not_found:
            undecided.append(f"{rep.target}: not found in the current tree ({rep.error})")
            continue
        if rep.error:
            undecided.append(f"{rep.target}[{rep.instance}]: {rep.error}")
        if rep.canary == "unsat":
            errors.append(f"{rep.target}[{rep.instance}]: contradictory preconditions (canary)")
        if rep.target != "<spec lemmas>" and not rep.obligations and not rep.error:
            errors.append(f"{rep.target}[{rep.instance}]: zero obligations generated")
        for ob in rep.obligations:
            n_obl += 1
            obligation_names.append(ob.name)
            solver_time += ob.time
            if ob.status == "discharged":
                n_dis += 1
                by_backend[ob.backend] = by_backend.get(ob.backend, 0) + 1
                if len(samples) < 3:
                    samples.append({"obligation": ob.name, "status": "discharged", "backend": ob.backend,
                                    "smt2_head": _smt_head(ob)})
            elif ob.status == "refuted":
                handle_refuted(pid, M, rep, ob, known, violations, known_hits, refuter_notes.get(ob.name), keep_first=True)
            elif ob.name in refuter_notes:
                handle_refuted(pid, M, rep, ob, known, violations, known_hits, refuter_notes[ob.name])
            else:
                undecided.append(f"{ob.name}: {ob.reason}")
            if args.verbose:
                print(f"  {ob.status:10s} {ob.backend or '-':5s} {ob.time:6.2f}s {ob.name}  {ob.reason}")

    undecided.extend(UNDECIDED_EXTRA)
    # witnesses (cover): the real function satisfies the contract on a concrete input
    wit = run_witnesses(pid, M, contracts, seed, tier)
    for w in wit["failures"]:
        k = match_known(known, pid, w["obligation"], w.get("inputs"))
        if k:
            known_hits.append((k, w["obligation"]))
        else:
            violations.append(w)
    errors.extend(wit["errors"])

    # bounded stand-ins
    bounded_out = []
    for b in ([] if (args.only and os.environ.get("VERIF_ONLY_SKIPS_BOUNDED", "1") == "1") else getattr(M, "BOUNDED", [])):
        try:
            tb = time.time()
            r = b.fn(tier, seed)
            r["name"] = b.name
            r["wall_s"] = round(time.time() - tb, 2)
            bounded_out.append(r)
            for fl in r.get("failures", []):
                name = f"{pid}.bounded.{b.name}"
                rp = os.path.join("replays", f"{name}.{len(violations)}.json".replace("/", "_"))
                with open(os.path.join(HERE, rp), "w") as f:
                    json.dump({"property": pid, "obligation": name, "bounded": True, "case": fl}, f, indent=1, default=str)
                k = match_known(known, pid, name, fl.get("inputs") if isinstance(fl, dict) else None)
                if k is None and isinstance(fl, dict) and fl.get("known_key"):
                    for kk in known.get("findings", []):
                        if kk["property"] == pid and kk.get("key") == fl["known_key"]:
                            k = kk
                if k:
                    known_hits.append((k, name))
                else:
                    violations.append({"obligation": name, "replay": rp, "confirmed": True, "detail": fl})
        except Exception as e:
            errors.append(f"bounded {b.name}: {type(e).__name__}: {e}\n{traceback.format_exc()[-1500:]}")

    # expected obligations (guards against silently losing part of the proved core)
    exp_path = os.path.join(HERE, "contracts", f"{pid}.expected{tsfx}.json")
    if args.update_expected:
        with open(exp_path, "w") as f:
            json.dump(sorted(set(obligation_names)), f, indent=0)
        hs = {ob.name: verify.winning_strategy(ob.reason) for rep in reports for ob in rep.obligations
              if ob.status == "discharged" and verify.winning_strategy(ob.reason) not in (None, "z3[nl-abstraction]", "z3")}
        with open(hints_path, "w") as f:
            json.dump(dict(sorted(hs.items())), f, indent=0)
    elif os.path.exists(exp_path) and not args.only:
        with open(exp_path) as f:
            exp = set(json.load(f))
        missing = sorted(exp - set(obligation_names))
        if missing:
            undecided.append(f"{len(missing)} obligations of the pristine tree were not generated: {missing[:5]}")

    wall = time.time() - t0
    level = getattr(M, "LEVEL", "proof")
    proved_all = (n_obl > 0 and n_dis == n_obl and not undecided)
    ev_level = level if (level != "proof" or proved_all) else "other"
    trusted = list(getattr(M, "TRUSTED", []))
    libs = sorted({l for fn in functions for l in fn["library_contracts_used"]})
    assumed_callees = sorted({t for fn in functions for t, d in fn["callees_by_contract"].items() if d.get("assumed")})
    trusted += [f"library contract: {l}" for l in libs] + [f"assumed contract of repository function: {t}" for t in assumed_callees]
    trusted += ["python floats/numpy float64 treated as mathematical reals; machine integers as unbounded integers",
                "pyvc symbolic executor + loop summariser (this repository, /verif/pyvc)", "z3 5.1 / cvc5 1.0.3"]
    cov = {
        "obligations": n_obl, "discharged": n_dis,
        "checker_cmd": f"./check {pid} --tier {tier}",
        "trusted_base": trusted,
        "functions_under_contract": functions,
        "discharged_by_backend": by_backend,
        "solver_time_s": round(solver_time, 2), "solver_wall_s": round(solver_wall, 2),
        "undecided": undecided,
        "bounded": bounded_out,
        "witness_checks": wit["count"],
        "executor_cpython_crosscheck": wit.get("crosscheck", {}),
        "samples": samples + wit["samples"][:2],
        "explanation": getattr(M, "EXPLANATION", "") or (
            f"{n_dis} of {n_obl} obligations generated from the current source discharged; "
            f"bounded stand-ins: {[b.get('name') for b in bounded_out]} (never counted as proved); see trusted_base and functions_under_contract"),
        "known_findings_reported": [k["what"] for k, _ in known_hits],
    }
    be = sum(b.get("evaluations", 0) for b in bounded_out) + wit["count"]
    bd = sum(b.get("distinct", 0) for b in bounded_out) + wit["count"]
    if be:
        cov["evaluations"] = be
        cov["distinct_nontrivial"] = bd
        cov["rule"] = "bounded stand-ins and witness evaluations on the real code (never counted as proved): " + "; ".join(
            f"{b['name']}: {b.get('domain', '')}" for b in bounded_out)
    ev = {"property_id": pid, "tier": tier, "seed": seed, "level": ev_level, "coverage": cov,
          "assumptions": trusted + list(getattr(M, "ASSUMPTIONS", [])), "wall_s": round(wall, 2),
          "violations": len(violations)}
    evdir = os.environ.get("OSU_EVIDENCE_DIR") or os.path.join(HERE, "evidence")
    os.makedirs(evdir, exist_ok=True)
    with open(os.path.join(evdir, f"{pid}.json"), "w") as f:
        json.dump(ev, f, indent=1, default=str)

    print(f"{pid}: functions={len(functions)} obligations={n_obl} discharged={n_dis} {by_backend} "
          f"undecided={len(undecided)} bounded={[(b['name'], b.get('evaluations')) for b in bounded_out]} wall={wall:.1f}s")
    seen = set()
    for k, name in known_hits:
        if k["what"] not in seen:
            seen.add(k["what"])
            print(f"KNOWN-FINDING: property={pid} {k['what']}")
    for u in undecided:
        print(f"UNDECIDED {u}")
    for e in errors:
        print(f"CHECKER-ERROR {e}")
    for v in violations:
        tail = "" if v.get("confirmed") else " no-failing-input-found"
        print(f"  failed obligation: {v['obligation']}")
        print(f"VIOLATION property={pid} replay={v['replay']}{tail}")
    if violations:
        return 1
    if errors:
        return 3
    if undecided:
        return 2
    return 0


def _smt_head(ob):
    import z3
    try:
        s = z3.Solver()
        s.add(*ob.formulas())
        return s.to_smt2()[:600]
    except Exception:
        return ""


def small_size_refuter(pid, M, contracts, reports, timeout_ms, known):
    from pyvc import verify
    notes = {}
    todo = {}
    for rep in reports:
        if rep.target == "<spec lemmas>" or rep.not_found:
            continue
        for ob in rep.obligations:
            if ob.status in ("undecided", "refuted"):
                todo.setdefault((rep.label, rep.instance), []).append(ob)
    if not todo:
        return notes
    for c in contracts:
        for (label, inst), obs in todo.items():
            if c.short != label:
                continue
            for n in (2, 3):
                try:
                    reps2 = verify.verify_contract(pid, c, sizes={"*": n}, only_instance=inst)
                except Exception:
                    continue
                verify.solve(reps2, timeout_ms=min(timeout_ms, 20000))
                for r2 in reps2:
                    for o2 in r2.obligations:
                        if o2.status != "refuted" or o2.model is None:
                            continue
                        for ob in obs:
                            if ob.name == o2.name and ob.name not in notes:
                                notes[ob.name] = {"model": o2.model, "size": n, "reason": o2.reason}
                if all(ob.name in notes for ob in obs):
                    break
    return notes


EXPECTED = [None]
UNDECIDED_EXTRA = []


def handle_refuted(pid, M, rep, ob, known, violations, known_hits, small=None, keep_first=False):
    """sat: write the replay file, replay on the real code, classify."""
    name = ob.name
    if small is not None and not keep_first:
        ob.model = small["model"]
        ob.reason = (ob.reason or "") + f" | refuted at concrete array size {small['size']}: {small['reason']}"
        small = None
    safe = name.replace("/", "_").replace("[", "_").replace("]", "_")
    rp = os.path.join("replays", f"{safe}.p{ob.meta.get('path', 0)}.json")
    rec = {"property": pid, "obligation": name, "target": rep.target, "instance": rep.instance, "label": getattr(rep, "label", None),
           "contract_module": M.__name__, "source": rep.fingerprint, "inputs": ob.model,
           "solver": {"backend": ob.backend, "output": ob.reason, "time_s": round(ob.time, 3)}, "meta": ob.meta}
    with open(os.path.join(HERE, rp), "w") as f:
        json.dump(rec, f, indent=1, default=str)
    confirmed = False
    res = None
    if rep.target != "<spec lemmas>" and ob.model is not None:
        try:
            res = run_replay_file(os.path.join(HERE, rp))
            confirmed = res.get("verdict") == "fails"
        except Exception as e:
            res = {"verdict": "error", "error": str(e)}
    rec["replay_result"] = res
    if not confirmed and small is not None:
        # second attempt: the counterexample found at a small concrete array size
        rec2 = dict(rec)
        rec2["inputs"] = small["model"]
        rec2["solver"] = {"backend": "z3", "output": f"refuted at concrete array size {small['size']}: {small['reason']}"}
        with open(os.path.join(HERE, rp), "w") as f:
            json.dump(rec2, f, indent=1, default=str)
        try:
            res2 = run_replay_file(os.path.join(HERE, rp))
        except Exception as e:
            res2 = {"verdict": "error", "error": str(e)}
        if res2.get("verdict") == "fails":
            confirmed, rec = True, rec2
            ob.model = small["model"]
        rec["replay_result"] = res2 if confirmed else res
        rec["replay_result_small_size"] = res2
    with open(os.path.join(HERE, rp), "w") as f:
        json.dump(rec, f, indent=1, default=str)
    k = match_known(known, pid, name, ob.model)
    if k:
        known_hits.append((k, name))
        return
    # several paths of the same clause: report once
    for v in violations:
        if v["obligation"] == name:
            if confirmed and not v.get("confirmed"):
                v.update({"replay": rp, "confirmed": True})
            return
    if not confirmed and "candidate only" in (ob.reason or "") and EXPECTED[0] is not None and name not in EXPECTED[0]:
        # unconfirmed model of an abstraction for an obligation that was never discharged on the pristine
        # tree: undecided, not a violation
        ob.status = "undecided"
        UNDECIDED_EXTRA.append(f"{name}: candidate model did not replay and the obligation is not in the pristine expected list ({ob.reason})")
        return
    violations.append({"obligation": name, "replay": rp, "confirmed": confirmed})


def run_witnesses(pid, M, contracts, seed=0, tier="quick"):
    """Evaluates every contract's witnesses on the real code (one subprocess)."""
    out = {"count": 0, "failures": [], "errors": [], "samples": [], "crosscheck": {"agree": 0, "skipped": 0, "differ": 0}}
    if not any(c.witness or c.options.get("samples") for c in contracts):
        return out
    p = subprocess.run([sys.executable, "-m", "pyvc.witness", M.__name__, str(seed), tier], capture_output=True, text=True,
                       cwd=HERE, env=_env(), timeout=6000)
    got = False
    for line in p.stdout.splitlines():
        if line.startswith("CROSSCHECK "):
            r = json.loads(line[len("CROSSCHECK "):])
            out["crosscheck"][r["verdict"]] = out["crosscheck"].get(r["verdict"], 0) + 1
            if r["verdict"] == "differ":
                # the executor disagrees with CPython on a concrete input: an engine fault, never a property verdict
                out["errors"].append(f"executor/CPython cross-check differs for {r['target']}#{r['index']}: {r['detail']}")
            continue
        if line.startswith("WITNESS "):
            got = True
            r = json.loads(line[len("WITNESS "):])
            out["count"] += 1
            if len(out["samples"]) < 3:
                out["samples"].append({"witness_of": r["target"], "inputs": r.get("inputs_repr", "")[:300], "verdict": r["verdict"]})
            if r["verdict"] == "fails":
                name = f"{pid}.{r.get('label') or r['target'].split('::')[1]}.witness{r['index']}"
                rp = os.path.join("replays", f"{name}.json")
                with open(os.path.join(HERE, rp), "w") as f:
                    json.dump(r, f, indent=1, default=str)
                out["failures"].append({"obligation": name, "replay": rp, "confirmed": True, "inputs": None})
            elif r["verdict"] != "holds":
                out["errors"].append(f"witness {r['target']}#{r['index']}: {r['verdict']} {json.dumps(r.get('res'), default=str)[:600]}")
    if not got:
        out["errors"].append("witness run produced no output: " + (p.stderr or "")[-1500:])
    return out


if __name__ == "__main__":
    sys.exit(main())
