"""Differential test of the symbolic executor against CPython: a contract's witness inputs are fed, as *concrete* values, to the
symbolic executor (which then acts as an interpreter of the real source in exact rational arithmetic) and the result is compared
with the result of the real function on the same inputs.  Guards the assumed Python/numpy semantics of pyvc/interp.py and lib.py.
Skipped (not failed) when the inputs have no symbolic counterpart (objects of library classes), when the function goes through
uninterpreted functions (exp, log, ...), or when the executor meets an unsupported construct."""
import copy
import math
from fractions import Fraction


class Skip(Exception):
    pass


def to_sym(st, v):
    import numpy as np
    from .values import carr_from_list
    if v is None or isinstance(v, (bool, str)):
        return v
    if isinstance(v, (int, np.integer)):
        return int(v)
    if isinstance(v, (float, np.floating)):
        if math.isnan(v) or math.isinf(v):
            raise Skip("non-finite input")
        return Fraction(float(v))
    if isinstance(v, np.ndarray):
        if v.dtype.kind not in "fiub":
            raise Skip("array dtype")
        if v.size > 400 or not np.all(np.isfinite(v.astype("float64"))):
            raise Skip("array too large / non-finite")
        conv = (lambda x: bool(x)) if v.dtype.kind == "b" else ((lambda x: int(x)) if v.dtype.kind in "iu" else (lambda x: Fraction(float(x))))
        def rec(a):
            return [rec(x) for x in a] if a.ndim > 0 else conv(a)
        if v.ndim == 0:
            return conv(v)
        return st.alloc(carr_from_list(rec(v), "int" if v.dtype.kind in "iu" else ("bool" if v.dtype.kind == "b" else "real")), "arr")
    if isinstance(v, tuple):
        return tuple(to_sym(st, x) for x in v)
    if isinstance(v, list):
        return st.alloc([to_sym(st, x) for x in v], "list")
    if isinstance(v, dict) and all(isinstance(k, str) for k in v):
        return st.alloc({k: to_sym(st, x) for k, x in v.items()}, "dict")
    raise Skip(f"no symbolic counterpart for {type(v).__name__}")


def flatten_native(v):
    import numpy as np
    if isinstance(v, (bool, np.bool_)):
        return [float(bool(v))]
    if isinstance(v, (int, float, np.integer, np.floating)):
        return [float(v)]
    if isinstance(v, np.ndarray):
        if v.dtype.kind not in "fiub":
            raise Skip("native result dtype")
        return [float(x) for x in v.astype("float64").ravel()]
    if isinstance(v, (tuple, list)):
        out = []
        for x in v:
            out += flatten_native(x)
        return out
    if v is None:
        return []
    raise Skip(f"native result {type(v).__name__}")


def flatten_sym(st, v):
    from .values import Arr, CArr, materialise
    from . import terms as T
    d = st.deref(v)
    if isinstance(d, bool):
        return [float(d)]
    if isinstance(d, (int, Fraction)):
        return [float(d)]
    if isinstance(d, T.XR):
        if d.nan is True:
            return [float("nan")]
        if d.nan is False:
            return flatten_sym(st, d.v)
        raise Skip("symbolic NaN flag")
    if isinstance(d, Arr):
        m = materialise(d)
        if not isinstance(m, CArr):
            raise Skip("symbolic shape")
        out = []
        for k in m.indices():
            out += flatten_sym(st, m.data[k])
        return out
    if isinstance(d, (tuple, list)):
        out = []
        for x in d:
            out += flatten_sym(st, x)
        return out
    if d is None:
        return []
    if T.is_sym(d):
        import z3
        s = z3.simplify(d)
        if z3.is_rational_value(s):
            return [float(Fraction(s.numerator_as_long(), s.denominator_as_long()))]
        if z3.is_int_value(s):
            return [float(s.as_long())]
        if z3.is_true(s) or z3.is_false(s):
            return [float(z3.is_true(s))]
        raise Skip("result is not concrete (uninterpreted function on the way)")
    raise Skip(f"symbolic result {type(d).__name__}")


def crosscheck(pid, contract, instance, kwargs):
    """-> ('agree' | 'differ' | 'skipped', detail)"""
    from . import verify
    from .replay import resolve, safe_copy
    from .api import Contract
    if contract.call is not None or contract.options.get("native_call"):
        return "skipped", "custom call"
    box = {}

    def params(mk):
        box["st"] = mk.st
        return {k: to_sym(mk.st, v) for k, v in kwargs.items()}

    def capture(a, r):
        box["result"] = a._result_raw
        box["snap"] = a._snap
        return True
    c2 = Contract(contract.target, instances=[(instance, params)], ensures=[("crosscheck", capture)], raises={"Exception": lambda a: True},
                  label=(contract.short + ".crosscheck"))
    try:
        fn = resolve(contract.target)
        native = fn(**safe_copy(kwargs))
        nat = flatten_native(native)
    except Skip as e:
        return "skipped", str(e)
    except Exception as e:
        return "skipped", f"native call raised {type(e).__name__}"
    try:
        reps = verify.verify_contract(pid, c2)
    except Skip as e:
        return "skipped", str(e)
    except Exception as e:
        return "skipped", f"executor: {type(e).__name__}: {e}"[:200]
    rep = reps[0]
    if rep.error or "result" not in box:
        return "skipped", str(rep.error or "no normal return")[:200]
    if rep.paths != 1:
        return "skipped", f"{rep.paths} paths on concrete inputs"
    try:
        sym = flatten_sym(box["snap"], box["result"])
    except Skip as e:
        return "skipped", str(e)
    if len(sym) != len(nat):
        return "differ", f"result sizes {len(sym)} (executor) vs {len(nat)} (CPython)"
    for i, (x, y) in enumerate(zip(sym, nat)):
        if math.isnan(x) and math.isnan(y):
            continue
        if not (abs(x - y) <= 1e-9 + 1e-9 * max(abs(x), abs(y))):
            return "differ", f"component {i}: executor {x!r} vs CPython {y!r}"
    return "agree", f"{len(nat)} components"
