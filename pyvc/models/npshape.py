"""numpy shape manipulation used by WaveSpectrum.flatten (assumed library contracts; imported by contracts/C15.py only).

  * np.prod(tuple of ints)                       the product of the entries (1 for the empty tuple);
  * np.unravel_index(ind, (n1, n2))              C order: (ind // n2, ind % n2); every index must lie in [0, n1*n2)
                                                 (numpy raises ValueError otherwise: call-site obligation); rank 1 is
                                                 delegated to the existing entry of lib.py;
  * ndarray.reshape((L, *rest)) of an array of shape (n1, *rest) or (n1, n2, *rest): requires L == n1 resp. L == n1*n2
                                                 (numpy raises ValueError otherwise: checked on the path, unsupported if it
                                                 cannot be shown) and gives, in C order, new[q, r...] = old[q, r...] resp.
                                                 old[q // n2, q % n2, r...].  The result is a new array object (numpy returns a
                                                 view of a contiguous buffer: it is never written by the code under contract -
                                                 a store through an array marked is_view is refused by the executor).
"""
import z3
from .. import terms as T
from .. import lib
from ..terms import Unsupported
from ..values import Arr, CArr, LibFunc
from ..lib import REG


def _np_prod(interp, st, args, kwargs):
    x = st.deref(args[0])
    if not isinstance(x, (tuple, list)) or kwargs:
        raise Unsupported("np.prod of something that is not a tuple of integers")
    r = 1
    for v in x:
        v = st.deref(v)
        if not (isinstance(v, int) or (T.is_sym(v) and z3.is_int(v))):
            raise Unsupported("np.prod of a tuple with non-integer entries")
        r = T.mul(r, v)
    return r


REG["numpy.prod"] = LibFunc("numpy.prod", lib._wrap("numpy.prod", _np_prod))

_old_unravel = REG["numpy.unravel_index"]


def _np_unravel_index(interp, st, args, kwargs):
    shape = lib._shape_arg(st, args[1] if len(args) > 1 else kwargs["shape"])
    if len(shape) != 2:
        return _old_unravel.impl(interp, st, args, kwargs)
    ind = st.deref(args[0])
    if not (isinstance(ind, Arr) and ind.ndim == 1 and ind.sort == "int"):
        raise Unsupported("unravel_index of something that is not a 1-d integer array")
    n1, n2 = shape
    if interp.ctx is not None:
        q = T.Fresh.int("q")
        v = T.to_z3(ind.get((q,)))
        interp.ctx.oblige(st, "pre.unravel_index.in_range",
                          z3.ForAll([q], z3.Implies(z3.And(q >= 0, q < T.to_z3(ind.shape[0])), z3.And(v >= 0, v < T.to_z3(T.mul(n1, n2))))))
    rows = Arr(ind.shape, lambda ix: T.floordiv(ind.get(ix), n2), (), "int")
    cols = Arr(ind.shape, lambda ix: T.mod(ind.get(ix), n2), (), "int")
    return (st.alloc(rows, "arr"), st.alloc(cols, "arr"))


REG["numpy.unravel_index"] = LibFunc("numpy.unravel_index", lib._wrap("numpy.unravel_index", _np_unravel_index))


def _same(interp, st, a, b):
    if isinstance(a, int) and isinstance(b, int):
        return a == b
    if a is b:
        return True
    return interp.valid(st, T.to_z3(T.cmp("==", a, b)), timeout=3000)


def _reshape(interp, st, o, new):
    old = tuple(o.shape)
    new = tuple(new)
    if len(new) < 1:
        raise Unsupported("reshape to rank 0")
    rest = new[1:]
    lead = len(old) - len(rest)
    if lead not in (1, 2) or not all(_same(interp, st, x, y) for x, y in zip(old[lead:], rest)):
        raise Unsupported("reshape other than merging one or two leading axes")
    L = new[0]
    if lead == 1:
        if not _same(interp, st, L, old[0]):
            raise Unsupported("reshape: cannot show that the sizes agree")

        def src(ix):
            return tuple(ix)
    else:
        n2 = old[1]
        if not _same(interp, st, L, T.mul(old[0], n2)):
            raise Unsupported("reshape: cannot show that the sizes agree")

        def src(ix):
            return (T.floordiv(ix[0], n2), T.mod(ix[0], n2)) + tuple(ix[1:])
    r = Arr(new, lambda ix: o.get(src(ix)), (), o.sort)
    nm = getattr(o, "nanmask", None)
    if nm is not None:
        r.nanmask = Arr(new, lambda ix: nm.get(src(ix)), (), "bool")
    return st.alloc(r, "reshaped")


class NpShapePlugin:
    def value_getattr(self, interp, st, ref, o, name):
        if isinstance(o, Arr) and name == "reshape":
            def reshape(i, s, a, k):
                shp = lib._shape_arg(s, a[0]) if len(a) == 1 else tuple(s.deref(x) for x in a)
                return _reshape(i, s, o, shp)
            return LibFunc("ndarray.reshape", lib._wrap("numpy.ndarray.reshape", reshape))
        return NotImplemented


PLUGIN = NpShapePlugin()
lib.PLUGINS.append(PLUGIN)
