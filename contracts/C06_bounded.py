"""C06 bounded stand-in: moment fidelity, solver agreement and rotation/mirror equivariance of the compiled estimators.
Convergence of the MEM2 iterations (Newton, scipy) and the accuracy of MEM are statements about iterative solvers /
discretisation that no contract within reach decides; they are checked here on seeded von-Mises mixtures.  Bounded."""

HARD = [[0.557185, -0.795699, -0.305963, -0.884653], [-0.564027, -0.505376, -0.231672, 0.471163], [-0.533724, 0.751711, -0.27957, -0.808407],
        [0.458456, -0.848485, -0.515151, -0.753666], [0.458456 + 0.06, -0.848485, -0.515151, -0.753666]]
METHODS = (("mem2/newton", "mem2", {"solution_method": "newton"}), ("mem2/scipy", "mem2", {"solution_method": "scipy"}), ("mem", "mem", {}))


def vm_moments(np, N, rng, nlobes, spread_bins=None):
    """moments of 1-2 von-Mises lobes (circular spread >= 1.5 direction bins) plus an isotropic background, by fine quadrature;
    spread_bins: a fixed narrow spread (in bins) with a weak background - the resolvable end of the quantifier"""
    th = np.linspace(0, 2 * np.pi, 14400, endpoint=False)
    D = np.full_like(th, (rng.uniform(0.02, 0.3) if spread_bins is None else 0.01) / (2 * np.pi))
    binw = 2 * np.pi / N
    desc = []
    for _ in range(nlobes):
        sigma = rng.uniform(1.5 * binw, 1.2) if spread_bins is None else spread_bins * binw
        mu = rng.uniform(0, 2 * np.pi)
        lobe = np.exp((np.cos(th - mu) - 1) / sigma ** 2)
        D += rng.uniform(0.3, 1) * lobe / lobe.sum() * len(th) / (2 * np.pi)
        desc.append({"mean_direction_deg": float(np.degrees(mu)), "spread_bins": float(sigma / binw)})
    D /= D.sum() * (th[1] - th[0])
    d = th[1] - th[0]
    return np.array([(D * f).sum() * d for f in (np.cos(th), np.sin(th), np.cos(2 * th), np.sin(2 * th))]), desc


def moments_of(np, D, direction):
    th = np.radians(direction)
    dd = 360.0 / len(direction)
    return np.array([(D * np.cos(th)).sum(-1) * dd, (D * np.sin(th)).sum(-1) * dd, (D * np.cos(2 * th)).sum(-1) * dd, (D * np.sin(2 * th)).sum(-1) * dd]).T


def rotate(np, m, phi):
    a1, b1, a2, b2 = m.T
    return np.array([a1 * np.cos(phi) - b1 * np.sin(phi), a1 * np.sin(phi) + b1 * np.cos(phi),
                     a2 * np.cos(2 * phi) - b2 * np.sin(2 * phi), a2 * np.sin(2 * phi) + b2 * np.cos(2 * phi)]).T


def bounded_fidelity(tier, seed):
    import numpy as np
    import warnings
    warnings.filterwarnings("ignore")
    from ocean_science_utilities.wavespectra.estimators.estimate import estimate_directional_distribution as est
    rng = np.random.default_rng(seed + 6)
    per_grid = 10 if tier == "quick" else 80
    nrot = 2 if tier == "quick" else 6
    fails, evals, samples = [], 0, []
    worst = {}

    def fail(kind, **kw):
        if sum(1 for f in fails if f["kind"] == kind) < 2:
            fails.append({"kind": kind, **kw})

    def note(kind, v):
        worst[kind] = max(worst.get(kind, 0.0), float(v))

    def equivariance(name, method, kw, M, D, direction, label):
        N = len(direction)
        nonlocal evals
        for k in [int(x) for x in rng.integers(1, N, nrot)]:
            Dr = est(*rotate(np, M, np.radians(k * 360.0 / N)).T, direction, method, **kw)
            e = np.abs(Dr - np.roll(D, k, axis=-1)).max(axis=-1)
            evals += len(M)
            note(f"{name}.rotation", e.max())
            for r in np.nonzero(~(e <= 2e-5))[0][:1]:
                fail(f"{name}.rotation", N=N, bins=k, moments=M[r].tolist(), max_abs_difference=float(e[r]), set=label)
        Dm = est(*(M * np.array([1, -1, 1, -1])).T, direction, method, **kw)
        e = np.abs(Dm - D[:, (-np.arange(N)) % N]).max(axis=-1)
        evals += len(M)
        note(f"{name}.mirror", e.max())
        for r in np.nonzero(~(e <= 2e-5))[0][:1]:
            fail(f"{name}.mirror", N=N, moments=M[r].tolist(), max_abs_difference=float(e[r]), set=label)

    for N in (24, 36, 72, 144):
        direction = np.linspace(0, 360, N, endpoint=False)
        gen = [vm_moments(np, N, rng, 1 + (k % 2)) for k in range(per_grid)]
        gen += [vm_moments(np, N, rng, 1, spread_bins=sb) for sb in (1.5, 2.0, 3.0, 5.0)]        # narrow single lobes, all grids
        M = np.array([g[0] for g in gen])
        out = {}
        for name, method, kw in METHODS:
            D = est(M[:, 0], M[:, 1], M[:, 2], M[:, 3], direction, method, **kw)
            out[name] = D
            evals += len(M)
            err = np.linalg.norm(moments_of(np, D, direction) - M, axis=1)
            bound = 0.01 if method == "mem2" else 0.03      # MEM: discretisation/estimator error of narrow or bimodal seas (worst seen 0.0094)
            note(f"{name}.fidelity[N={N}]", err.max())
            for r in np.nonzero(~(err < bound))[0][:1]:
                fail(f"{name}.fidelity", N=N, moments=M[r].tolist(), lobes=gen[r][1], four_moment_error=float(err[r]), bound=bound)
            equivariance(name, method, kw, M, D, direction, "von-mises")
        diff = np.linalg.norm(moments_of(np, out["mem2/newton"], direction) - moments_of(np, out["mem2/scipy"], direction), axis=1)
        note("newton_vs_scipy", diff.max())
        for r in np.nonzero(~(diff < 0.01 + 1e-6))[0][:1]:
            fail("newton_vs_scipy", N=N, moments=M[r].tolist(), four_moment_difference=float(diff[r]))
        if len(samples) < 3:
            samples.append({"N": N, "moments": M[0].tolist(), "lobes": gen[0][1]})
    # the hard cases shipped with the tests (36 directions): equivariance for all five, fidelity for the four the tests use
    direction = np.linspace(0, 360, 36, endpoint=False)
    H = np.array(HARD)
    for name, method, kw in METHODS:
        D = est(*H.T, direction, method, **kw)
        evals += len(H)
        if method == "mem2":
            err = np.linalg.norm(moments_of(np, D, direction) - H, axis=1)[:4]
            note(f"{name}.fidelity[hard]", err.max())
            for r in np.nonzero(~(err < 0.01))[0][:1]:
                fail(f"{name}.fidelity_hard_case", case=int(r), four_moment_error=float(err[r]))
        equivariance(name, method, kw, H, D, direction, "hard cases")
    return {"evaluations": int(evals), "distinct": int(evals), "failures": fails, "samples": samples,
            "domain": (f"estimate_directional_distribution (compiled): mem2/newton, mem2/scipy, mem; N in {{24,36,72,144}}; {per_grid} von-Mises mixtures per grid "
                       f"(1-2 lobes, spread >= 1.5 bins, background) + 4 narrow single lobes (1.5, 2, 3, 5 bins), {nrot} random bin rotations + mirror each; the 5 hard cases of the test-suite with rotations "
                       f"and mirrors; oracles: four-moment error < 0.01 (MEM2), < 0.03 (MEM), Newton vs scipy < 0.01, rotation/mirror max abs difference <= 2e-5; "
                       f"worst seen: " + ", ".join(f"{k}={v:.2e}" for k, v in sorted(worst.items())))}
