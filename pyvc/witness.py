"""python -m pyvc.witness contracts.Cxx [seed] [tier] : evaluates every contract's witnesses and
seeded samples (the executable twin of the contract) on the real code."""
import importlib
import json
import sys
import traceback
import random
from .replay import setup_path, run_case, verdict


def main():
    setup_path()
    M = importlib.import_module(sys.argv[1])
    seed = int(sys.argv[2]) if len(sys.argv) > 2 else 0
    tier = sys.argv[3] if len(sys.argv) > 3 else "quick"
    crosschecks_left = [60]          # at most this many executor/CPython cross-checks per run
    for c in M.CONTRACTS:
        cases = list(c.witness)
        sampler = c.options.get("samples")
        if sampler is not None:
            try:
                import numpy as np
                rng = np.random.default_rng(seed + 12345)
                cases += [(lambda w=w: w) for w in sampler(rng, tier)]
            except Exception:
                print("WITNESS " + json.dumps({"target": c.target, "index": -1, "verdict": "error", "res": traceback.format_exc()[-1500:]}))
        for k, w in enumerate(cases):
            try:
                inst, kwargs = w() if callable(w) else w
                inputs = dict(kwargs)
                inputs["__native__"] = True
                res = run_case(c, inputs, inst)
                v = verdict(res)
                rec = {"target": c.target, "label": c.short, "index": k, "instance": inst, "verdict": v,
                       "res": res if v != "holds" else None, "inputs_repr": repr(kwargs)[:800]}
            except Exception as e:
                rec = {"target": c.target, "label": c.short, "index": k, "verdict": "error", "res": traceback.format_exc()[-1500:]}
            print("WITNESS " + json.dumps(rec, default=str), flush=True)
            if rec.get("verdict") == "holds" and k < len(c.witness) + 2 and crosschecks_left[0] > 0:
                crosschecks_left[0] -= 1
                import signal

                class _TimeUp(Exception):
                    pass

                def _alarm(signum, frame):
                    raise _TimeUp()
                try:
                    from .crosscheck import crosscheck
                    pid = sys.argv[1].split(".")[-1]
                    signal.signal(signal.SIGALRM, _alarm)
                    signal.alarm(15)                      # the executor unrolls concrete loops: bounded effort per witness
                    try:
                        cv, detail = crosscheck(pid, c, inst, kwargs)
                    finally:
                        signal.alarm(0)
                except _TimeUp:
                    cv, detail = "skipped", "time limit (15 s)"
                except Exception as e:
                    cv, detail = "skipped", f"{type(e).__name__}: {e}"[:200]
                print("CROSSCHECK " + json.dumps({"target": c.target, "label": c.short, "index": k, "verdict": cv, "detail": detail}, default=str), flush=True)


if __name__ == "__main__":
    main()
