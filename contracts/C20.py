"""C20 — time integration: exact stencils, start value, per-step closed form, jitter fallback."""
import os
from fractions import Fraction
from pyvc.api import *
from pyvc.loops import LoopContract
from pyvc.run import Lemma, Bounded

PROPERTY = "C20"
LEVEL = "proof"
F = "tools/time_integration.py::"


# ------------------------------------------------------------------ spec (independent of the code)
def spec_stencil(order, n):
    """exact integrals over [e-1, e] (e = order-n) of the Lagrange basis on nodes 0..order-1"""
    e = order - n
    ws = []
    for i in range(order):
        # coefficients of L_i(x) (ascending powers)
        coef = [Fraction(1)]
        den = Fraction(1)
        for m in range(order):
            if m == i:
                continue
            den *= (i - m)
            new = [Fraction(0)] * (len(coef) + 1)
            for p, c in enumerate(coef):
                new[p + 1] += c
                new[p] += -m * c
            coef = new
        w = Fraction(0)
        for p, c in enumerate(coef):
            w += c * (Fraction(e) ** (p + 1) - Fraction(e - 1) ** (p + 1)) / (p + 1)
        ws.append(w / den)
    return ws


def _num(x):
    return x


PAIRS = [(o, n) for o in range(1, 9) for n in range(1, o + 1)]


def _stencil_params(o, n):
    return lambda mk: {"order": o, "number_of_implicit_points": n}


def _as_list(r):
    try:
        return [r[i] for i in range(len(r))]
    except TypeError:
        return list(r)


def _moment_exact(a, r):
    o, n = a.order, a.number_of_implicit_points
    e = o - n
    ws = _as_list(r)
    ok = True
    for d in range(o):
        lhs = sum((w * (Fraction(i) ** d if not isinstance(w, float) else float(i) ** d) for i, w in enumerate(ws)), 0)
        rhs = (Fraction(e) ** (d + 1) - Fraction(e - 1) ** (d + 1)) / (d + 1)
        ok = And(ok, eq(lhs, rhs if not isinstance(lhs, float) else float(rhs), rtol=1e-7, atol=1e-9))
    return ok


integration_stencil = Contract(
    F + "integration_stencil",
    instances=[(f"{o},{n}", _stencil_params(o, n)) for o, n in PAIRS],
    ensures=[
        ("length", lambda a, r: len(_as_list(r)) == a.order),
        ("sum_to_one", lambda a, r: eq(sum(_as_list(r), 0), 1, rtol=1e-9, atol=1e-9)),
        ("moments_exact", _moment_exact),
        ("lagrange_integrals", lambda a, r: And(*[eq(w, (s if not isinstance(w, float) else float(s)), rtol=1e-7, atol=1e-9)
                                               for w, s in zip(_as_list(r), spec_stencil(a.order, a.number_of_implicit_points))])),
    ],
    witness=[(lambda o=o, n=n: (f"{o},{n}", {"order": o, "number_of_implicit_points": n})) for o, n in PAIRS],
)


# ------------------------------------------------------------------ integrate
def dt(time, k):
    return time[k] - time[k - 1]


def trap(signal, k):
    return (signal[k - 1] + signal[k]) / 2


def prim(signal, k, order, n):
    ws = spec_stencil(order, n)
    acc = 0
    for j, w in enumerate(ws):
        wj = w if is_symbolic(signal[k]) else float(w)
        acc = acc + wj * signal[k - (order - n) + j]
    return acc


def prev_dt_of(time, k):
    """the step before step k (the first step is its own predecessor)"""
    return If(k >= 2, dt(time, k - 1), dt(time, 1)) if is_symbolic(k) else (dt(time, k - 1) if k >= 2 else dt(time, 1))


def fut_dt_of(time, k, n, nt):
    if is_symbolic(k, nt):
        return If(k + n - 1 < nt, dt(time, k + n - 1), dt(time, k))
    return dt(time, k + n - 1) if k + n - 1 < nt else dt(time, k)


def jitter(time, k, n, nt):
    return absv(fut_dt_of(time, k, n, nt) - prev_dt_of(time, k)) > Fraction(1, 100) * dt(time, k) if is_symbolic(k, nt, time[0]) else \
        abs(fut_dt_of(time, k, n, nt) - prev_dt_of(time, k)) > 0.01 * dt(time, k)


def tail(k, n, nt):
    return Not(k + n - 1 < nt)


def step_is_trap(out, time, signal, k):
    return eq(out[k], out[k - 1] + dt(time, k) * trap(signal, k), rtol=1e-7, atol=1e-9)


def step_is_prim(out, time, signal, k, order, n):
    if not is_symbolic(k) and (k - (order - n) < 0 or k + n - 1 >= len(signal)):
        return False
    return eq(out[k], out[k - 1] + dt(time, k) * prim(signal, k, order, n), rtol=1e-7, atol=1e-9)


def window_regular(time, k, order, n, nt):
    """no jitter on the last `order` steps up to and including k"""
    if not is_symbolic(k, nt):
        return all((k - j < 1) or not jitter(time, k - j, n, nt) for j in range(order))
    return And(*[implies(m >= 1, Not(jitter(time, m, n, nt))) for m in [k - j for j in range(order)]])


def _inv(order, n):
    W = order

    def out(ns):
        return ns.integrated_signal
    return [
        ("range", lambda ns: And(ns.ii >= 1, ns.ii <= ns.nt)),
        ("start", lambda ns: eq(out(ns)[0], ns.start_value)),
        ("step", lambda ns: forall(1, ns.ii, lambda k: Or(
            step_is_trap(out(ns), ns.time, ns.signal, k),
            And(k >= W + 1, k + n - 1 < ns.nt, step_is_prim(out(ns), ns.time, ns.signal, k, order, n),
                window_regular(ns.time, k, order, n, ns.nt))), "k")),
        ("lowmode", lambda ns: forall(1, ns.ii, lambda k: implies(Or(jitter(ns.time, k, n, ns.nt), tail(k, n, ns.nt), k <= W),
                                                                   step_is_trap(out(ns), ns.time, ns.signal, k)), "k")),
        ("prev_dt", lambda ns: eq(ns.prev_dt, prev_dt_of(ns.time, ns.ii))),
        ("count", lambda ns: And(ns.number_of_constant_time_steps >= 0, ns.number_of_constant_time_steps <= ns.ii - 1,
                                 implies(Not(ns.restart), ns.number_of_constant_time_steps >= W),
                                 ns.number_of_constant_time_steps <= W if False else True)),
        ("window", lambda ns: forall(ns.ii - ns.number_of_constant_time_steps + 1, ns.ii,
                                     lambda m: implies(m >= 1, Not(jitter(ns.time, m, n, ns.nt))), "m")),
    ]


def _integrate_params(order, n):
    def p(mk):
        nt = mk.size("nt")
        return {"time": mk.array("time", (nt,)), "signal": mk.array("signal", (nt,)), "order": order, "n": n,
                "start_value": mk.real("start_value")}
    return p


# Instance set by tier: the invariant below is generic in (order, n); every one of the 36 pairs with 1 <= n <= order <= 8 verifies
# (8270 obligations, about 4 min on a quiet 16-core machine), which is too slow for the quick tier.  The quick tier takes the
# default (4,1), the lowest order (1,1: the primary stencil is the implicit rectangle rule and is reached after ONE regular step),
# fully implicit layouts n = order (no past sample: (2,2), (3,3), (4,4), (8,8)), one implicit point (2,1), (3,1)
# and mixed layouts (4,2), (6,3); the thorough tier takes all 36.
TIERED = True
_TIER = os.environ.get("VERIF_TIER", "quick")
QUICK_INST = [(4, 1), (2, 1), (3, 1), (4, 2), (1, 1), (2, 2), (3, 3), (4, 4), (6, 3), (8, 8)]
INTEGRATE_INST = QUICK_INST + [p for p in PAIRS if p not in QUICK_INST] if _TIER == "thorough" else list(QUICK_INST)
if os.environ.get("C20_ONLY"):      # debugging: C20_ONLY="8,8 4,1"
    INTEGRATE_INST = [p for p in PAIRS if f"{p[0]},{p[1]}" in os.environ["C20_ONLY"].split()]


def _post_step(a, r):
    nt = a.signal.n if hasattr(a.signal, "n") else len(a.signal)
    if not is_symbolic(nt):
        return all(step_is_trap(r, a.time, a.signal, k) or
                   (k >= a.order + 1 and k + a.n - 1 < nt and step_is_prim(r, a.time, a.signal, k, a.order, a.n)
                    and window_regular(a.time, k, a.order, a.n, nt)) for k in range(1, nt))
    return forall(1, nt, lambda k: Or(step_is_trap(r, a.time, a.signal, k),
                                     And(k >= a.order + 1, k + a.n - 1 < nt, step_is_prim(r, a.time, a.signal, k, a.order, a.n),
                                         window_regular(a.time, k, a.order, a.n, nt))), "k")


def _post_trapezoid(a, r):
    nt = a.signal.n if hasattr(a.signal, "n") else len(a.signal)
    # "near the ends": the last n - 1 steps (the stencil would reach past the last sample) and the first `order` steps (the
    # higher-order stencil is only switched on after `order` regular steps, also for fully implicit layouts that need no past sample)
    return forall(1, nt, lambda k: implies(Or(jitter(a.time, k, a.n, nt), tail(k, a.n, nt), k <= a.order), step_is_trap(r, a.time, a.signal, k)), "k")


def _wit_integrate():
    import numpy as np
    out = []
    rng = np.random.default_rng(7)
    for (o, n) in INTEGRATE_INST:
        t = np.arange(0, 40) * 0.4
        out.append((f"{o},{n}", {"time": t, "signal": rng.normal(size=40), "order": o, "n": n, "start_value": 0.0}))
        dts = np.full(60, 0.4)
        dts[[7, 8, 9, 30]] = [0.8, 0.4, 0.6, 1.3]
        t2 = np.concatenate([[0.0], np.cumsum(dts)])
        out.append((f"{o},{n}", {"time": t2, "signal": np.sin(t2) + 0.3 * rng.normal(size=61), "order": o, "n": n, "start_value": 0.0}))
        out.append((f"{o},{n}", {"time": t2[:2], "signal": np.array([1.0, 3.0]), "order": o, "n": n, "start_value": 2.5}))
    return [(lambda w=w: w) for w in out]


integrate = Contract(
    F + "integrate",
    instances=[(f"{o},{n}", _integrate_params(o, n)) for o, n in INTEGRATE_INST],
    requires=[("two_samples", lambda a: (a.signal.n if hasattr(a.signal, "n") else len(a.signal)) >= 2),
              ("increasing_time", lambda a: forall(1, a.time.n if hasattr(a.time, "n") else len(a.time), lambda k: a.time[k] > a.time[k - 1], "k"))],
    ensures=[
        ("start", lambda a, r: eq(r[0], a.start_value)),
        ("step", _post_step),
        ("trapezoid_on_jitter_and_ends", _post_trapezoid),
    ],
    loops={1: None},  # filled below per instance
    witness=_wit_integrate(),
    options={"check_bounds": True, "feasibility": "abstract"},
)
# the loop contract depends on (order, n): resolved per instance through a small indirection
integrate.loops = {1: LoopContract(invariant=None)}
integrate.options["loop_invariants"] = {f"{o},{n}": {1: LoopContract(invariant=_inv(o, n))} for o, n in INTEGRATE_INST}


# ------------------------------------------------------------------ lemmas over the spec
def _lemma_cubic():
    import z3
    a0, a1, a2, a3, t0, h = z3.Reals("a0 a1 a2 a3 t0 h")
    p = lambda t: a0 + a1 * t + a2 * t * t + a3 * t * t * t
    P = lambda t: a0 * t + a1 * t * t / 2 + a2 * t * t * t / 3 + a3 * t * t * t * t / 4
    ws = spec_stencil(4, 1)
    import pyvc.terms as T
    lhs = h * sum((T.to_z3(w) * p(t0 + (j - 3) * h) for j, w in enumerate(ws)), z3.RealVal(0))
    return [], lhs == P(t0) - P(t0 - h)


def _lemma_linear(width=4):
    import z3
    import pyvc.terms as T
    a, b, d = z3.Reals("a b d")
    s1 = [z3.Real(f"s1_{j}") for j in range(width)]
    s2 = [z3.Real(f"s2_{j}") for j in range(width)]
    o1, o2 = z3.Reals("o1 o2")
    w = [z3.Real(f"w_{j}") for j in range(width)]     # any weights that do not depend on the signal
    step = lambda o, s: o + d * sum((w[j] * s[j] for j in range(width)), z3.RealVal(0))
    s3 = [a * s1[j] + b * s2[j] for j in range(width)]
    return [], step(a * o1 + b * o2, s3) == a * step(o1, s1) + b * step(o2, s2)


LEMMAS = [Lemma("cubic_exact_order4", _lemma_cubic, "one primary step on 4 equally spaced samples of a cubic adds its exact integral"),
          Lemma("step_linear", _lemma_linear, "a step with signal-independent weights is linear in (signal, previous value)")] + \
         [Lemma(f"step_linear_width{w}", (lambda w=w: _lemma_linear(w)), f"the same for a stencil of {w} samples") for w in (1, 2, 3, 5, 6, 7, 8)]

CONTRACTS = [integration_stencil, integrate]
TRUSTED = ["numba compiles the source faithfully (the witnesses call the compiled functions)",
           "np.empty_like returns an array of the same shape with unspecified cells; np.array / np.zeros literals"]
EXPLANATION = ("stencil table: all 36 (order,n) pairs executed on the real source in exact rational arithmetic (finite table, exhaustive); "
               "integrate: inductive invariant (start value, closed form per step, trapezoid on jitter / on the last n-1 steps / on the first `order` steps, "
               "jitter-free window of `order` steps behind every higher-order step, index safety at both ends, restart after a jitter) over all lengths, "
               "time grids and signals; quick tier: 10 (order,n) pairs incl. order 1, the fully implicit layouts n = order in {1,2,3,4,8}, n = 1 for "
               "orders 1-4, mixed (4,2),(6,3); thorough tier: all 36 pairs with 1 <= n <= order <= 8 (8270 obligations). "
               "`integrate` has no other caller in the repository (complex_response / integrated_response_factor_spectral_tail only use the stencil table; "
               "cumulative_distance is a different recurrence outside the statement)")
