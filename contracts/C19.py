"""C19 — file cache: failed or interrupted downloads never poison the cache.

Same abstract file system and class invariant as C18.  Here the remote answers not-found, raises before any write,
raises after a partial write, post-processing raises, or a cached copy is rejected by its validation directive
(validator returns False or raises IOError) and the re-download then succeeds / fails in each of these ways.  For
every such fault at every position of a request FileCache.__getitem__ must either omit the URI (missing object in
tolerant mode) or let the exception escape *in a state that satisfies the class invariant*: everything cached before
(and not rejected) intact, the failed URI neither registered nor on disk (so the next request fetches it afresh),
other downloads registered with the right bytes or absent.  Crash points: after every file-system step of the
operation every cache-pattern file on disk is complete -- a crash is FileCache.__init__ on that state, and C18 proves
that __init__ adopts exactly the pattern files (obligations crash.stepN.<site>)."""
import itertools

from pyvc.api import *
from pyvc.run import Lemma, Bounded
from contracts import fc_bounded as FB
from contracts.fc_sym import *
from contracts import fc_sym as S
from contracts.C18 import getitem_contract, F

PROPERTY = "C19"
LEVEL = "proof"
TIMEOUT_MS = {"quick": 20000, "thorough": 120000}

FAULTS = ("notfound", "raise_before", "raise_partial", "pp_raise")


def _instances():
    out = []
    # download faults: every kind at every position; the other URIs of the request are hits or clean misses
    shapes = [
        ("solo", (), ("a",), 0), ("solo_other_cached", ("b",), ("a",), 0),
        ("first_of_two", (), ("a", "b"), 0), ("second_of_two", (), ("b", "a"), 1),
        ("after_hit", ("b",), ("b", "a"), 1), ("before_hit", ("b",), ("a", "b"), 0),
        ("first_of_three", ("c",), ("a", "b", "c"), 0), ("middle_of_three", (), ("b", "a", "c"), 1), ("last_of_three", ("b",), ("b", "c", "a"), 2),
    ]
    for name, cached, req, pos in shapes:
        u = req[pos]
        multi = len([x for x in req if x not in cached]) > 1
        for kind in FAULTS:
            kinds = {u: kind} if kind != "pp_raise" else {}
            dirs = {u: "postprocess"} if kind == "pp_raise" else {}
            out.append(getitem_contract(f"{kind}.{name}", cached, req, kinds=kinds, directives=dirs, pp_raises=(kind == "pp_raise"),
                                        allow=None if kind == "notfound" else True, parallel=None if multi else False, crash=True))
    # a tolerated missing object next to a successful download that may evict a bystander
    out.append(getitem_contract("notfound.with_bystander", ("b",), ("a", "c"), kinds={"a": "notfound"}, allow=None, parallel=None, crash=True))
    # post-processing that succeeds (content is the post-processed resource), with and without a neighbour
    out.append(getitem_contract("pp_ok.solo", (), ("a",), directives={"a": "postprocess"}, allow=True, parallel=False, crash=True))
    out.append(getitem_contract("pp_ok.after_hit", ("b",), ("b", "a"), directives={"a": "postprocess"}, allow=True, parallel=False, crash=True))
    # validation directive: accepted copy is a hit; rejected copy (False / IOError) is re-fetched, and the re-download may fail
    out.append(getitem_contract("validate_accepts", ("a", "b"), ("a",), directives={"a": "validate"}, validate=True, allow=True,
                                parallel=False, crash=True))
    for verdict in (False, "ioerror"):
        vname = "rejects" if verdict is False else "ioerror"
        for kind in ("ok",) + FAULTS[:3]:
            for name, cached, req in (("solo", ("a",), ("a",)), ("with_hit", ("a", "b"), ("b", "a")), ("with_miss", ("a",), ("a", "c"))):
                multi = name == "with_miss"
                out.append(getitem_contract(f"validate_{vname}.redownload_{kind}.{name}", cached, req, kinds={"a": kind},
                                            directives={"a": "validate"}, validate=verdict,
                                            allow=None if kind == "notfound" else True, parallel=None if multi else False, crash=True))
    return out


# ----------------------------------------------------------------------------- the local-file resource really copies in two steps
def _copy_params(mk):
    d = sym_world(mk, cached=(), parallel=False, allow=True, crash=True)
    st = mk.st
    fs.add_file(st, "/data/source.nc", exists=True, size=mk.int("src_size"), cid=mk.int("src_cid"), mtime=mk.int("src_mtime"),
                atime=mk.int("src_atime"))
    return {"w": d["w"], "uri": "file:///data/source.nc", "filepath": PATH("a") + ".part"}


def _copy_call(interp, st, fv, args):
    from pyvc import source
    cls = interp.module_attr(st, source.module_of_file("filecache/remote_resources.py"), "RemoteResourceLocal")
    res = interp.instantiate(st, cls, [], {})
    f = interp.call_method(st, res, "download", [], {})
    return interp.call(st, f, [args["uri"], args["filepath"]], {})


copy_file = Contract(
    "filecache/remote_resources.py::RemoteResourceLocal.download", label="RemoteResourceLocal.download",
    params=_copy_params,
    ensures=[("copied", lambda a, r: And(bool(a.w["fs"][a.filepath].exists), bool(a.w["fs"][a.filepath].complete),
                                         eq(a.w["fs"][a.filepath].cid, a.w["fs"]["/data/source.nc"].cid),
                                         eq(a.w["fs"][a.filepath].size, a.w["fs"]["/data/source.nc"].size))),
             ("source_unchanged", lambda a, r: And(eq(a.w["fs"]["/data/source.nc"].cid, a.old.w["fs"]["/data/source.nc"].cid),
                                                   bool(a.w["fs"]["/data/source.nc"].exists)))],
    call=_copy_call,
    notes="the copy goes to the path it is given; with the atomic-download fix that is the temporary name, so the crash "
          "obligations (no incomplete pattern file) hold at both steps of copyfile",
)

CONTRACTS = _instances() + [copy_file]

BOUNDED = [Bounded("faults", FB.faults, "fault injection at every download position on the real FileCache, followed by retry and by reopen")]

TRUSTED = [
    "abstract file system / clock / remote model of pyvc/models/fs.py: a write is create-incomplete then complete (two steps, a crash point after each); os.replace and os.remove are atomic",
    "ThreadPool.imap(f, xs) == [f(x) for x in xs]: in the model the workers of a request run in order and stop at the first exception (real threads may finish later downloads; the bounded check runs real threads)",
    "one fault per request in the symbolic instances (the bounded check on the real classes has the same restriction in the quick tier)",
    "URI alphabet of three resources (concrete names)",
]

EXPLANATION = (
    "FileCache.__getitem__ is executed symbolically from its current source (with get_cache_misses, _download_from_resources and _worker inlined) "
    "on the abstract file system for every fault kind at every request position (the remote raising not-found / before a write / after a "
    "partial write, post-processing raising, the validator rejecting or failing on a cached copy followed by each re-download outcome). Normal "
    "exits carry the C18 postconditions; every exceptional exit must satisfy the class invariant with the failed URI absent; after every "
    "file-system step no incomplete cache-pattern file may exist (crash-point obligations), which with C18's contract of __init__ gives the "
    "statement after a reopen. The same scenarios run on the real classes with retry and reopen (bounded)."
)
