#!/bin/bash
# ./confirm_seed.sh <Cxx> <k> : independently confirms a seeded change produced by a sub-agent
# (patch applies; demo passes without / fails with; the 52 baseline tests still pass with it),
# then stores it under /verif/seeded/<Cxx>-<k>/.  Uses a scratch worktree under /tmp, removed afterwards.
set -u
pid=$1; k=$2
src=/tmp/seedout/$pid/$k
dst=/verif/seeded/$pid-$k
wt=/tmp/confirm-$pid-$k
log=/tmp/confirm-$pid-$k.log
exec >"$log" 2>&1
git -C /repo worktree remove --force "$wt" 2>/dev/null
git -C /repo worktree add -q --detach "$wt" HEAD || exit 9
export NUMBA_CACHE_DIR=$wt/.numba_cache
run_demo() { OSU_SRC=$wt/src PYTHONPATH=$wt/src timeout 1800 /venv/bin/python "$src/demo.py" >/dev/null 2>&1; echo $?; }
d0=$(run_demo)
( cd "$wt" && git apply "$src/patch.diff" ) || { echo "PATCH-FAILED"; git -C /repo worktree remove --force "$wt"; exit 8; }
d1=$(run_demo)
( cd "$wt" && PYTHONPATH=$wt/src timeout 3000 /venv/bin/python -m pytest -q -p no:cacheprovider --timeout=900 --continue-on-collection-errors --junitxml=$wt/junit.xml tests >/dev/null 2>&1 )
/venv/bin/python - "$wt/junit.xml" > "$wt/tests.txt" <<'PY'
import json, sys, xml.etree.ElementTree as ET
stable = set(json.load(open('/root/.vp/BASELINE.json'))['stable_pass'])
ok = set()
for tc in ET.parse(sys.argv[1]).getroot().iter('testcase'):
    if not any(c.tag in ('failure', 'error', 'skipped') for c in tc):
        ok.add(f"{tc.get('classname')}::{tc.get('name')}")
missing = sorted(stable - ok)
print(len(stable & ok), len(missing), missing[:5])
PY
t=$(cat "$wt/tests.txt")
echo "demo_pristine_exit=$d0 demo_patched_exit=$d1 stable_pass_and_missing=$t"
npass=$(echo "$t" | cut -d' ' -f1)
if [ "$d0" = 0 ] && [ "$d1" != 0 ] && [ "$npass" = 52 ]; then
  mkdir -p "$dst" && cp "$src/patch.diff" "$src/demo.py" "$dst/"
  /venv/bin/python - "$src/meta.json" "$dst/meta.json" "$d0" "$d1" "$t" <<'PY'
import json, sys
m = json.load(open(sys.argv[1]))
m["confirmed"] = {"demo_exit_pristine": int(sys.argv[3]), "demo_exit_patched": int(sys.argv[4]),
                  "baseline_tests_passing_with_patch(of 52), missing": sys.argv[5],
                  "how": "confirm_seed.sh: scratch worktree of /repo HEAD under /tmp, git apply, demo.py with OSU_SRC, full pytest with junit compared to BASELINE.json stable_pass; worktree removed"}
json.dump(m, open(sys.argv[2], "w"), indent=1)
PY
  echo CONFIRMED
else
  echo REJECTED
fi
git -C /repo worktree remove --force "$wt"
