"""Symbolic world for the file-cache contracts (C18 / C19) and its native twin for replay.

Symbolic side: a FileCache object on the abstract file system of pyvc/models/fs.py.  URIs and file
names are concrete (a three-letter alphabet, real md5 names); which of them are cached and how the
remote answers is fixed per contract instance; every size, content id, time stamp, the clock and
the configured limit are symbolic.  Native side: the same state built on a temporary directory
with the real classes (times rank-compressed, which preserves every comparison the code and the
clauses make)."""
import json
import os
import shutil
import tempfile
import warnings

from pyvc.api import *
from pyvc import lib, source
from pyvc import terms as T
import pyvc.models.fs as fs
from contracts import fc_world as W

ROOT = "/cache"
CFG = ROOT + "/" + W.CONFIG
GB = 1000 ** 3
MB = 1000 ** 2
FOREIGN = sorted(W.FOREIGN)
CO = "filecache/cache_object.py"


def U(x):
    return W.SCHEME + x


def DL(x):
    """download uri of a letter: the comment is not sent to the resource"""
    return U(x).split("<<")[0]


LETTERS = ("a", "b", "c", "a<<v2")


def NAME(x):
    return W.name_of(U(x) if "://" not in x else x)


def PATH(x):
    return ROOT + "/" + NAME(x)


def is_pattern(path):
    b = os.path.basename(path)
    return b.startswith(W.PREFIX) and b.endswith(W.POSTFIX)


def repo_class(st, rel, name):
    return lib.CUR_INTERP[0].module_attr(st, source.module_of_file(rel), name)


# ----------------------------------------------------------------------------- symbolic world
def crash_hook(interp, st, site):
    """crash-point obligation (C19): right after this file-system step a new process may open the directory;
    FileCache.__init__ adopts every pattern file, so each of them must be complete *now*"""
    n = st.ghost.get("crash_n", 0) + 1
    st.ghost["crash_n"] = n
    F = st.deref(st.ghost["fs"])
    ok = all(bool(st.deref(r).fields["complete"]) for p, r in F.items()
             if is_pattern(p) and st.deref(r).fields["exists"])
    interp.ctx.oblige(st, f"crash.step{n}.{site}", ok, {"crash_site": site})


def sym_world(mk, cached=(), universe=("a", "b", "c"), kinds=None, allow=None, parallel=None, validate=True,
              pp_raises=False, with_config_file=True, extra=None, crash=False):
    """-> {'self': FileCache object, 'w': ghost world}; kinds: letter -> remote behaviour (default ok)"""
    st = mk.st
    kinds = kinds or {}
    clock0 = mk.int("clock0")
    fs.init_ghost(st, dirs=[ROOT], clock=clock0)
    if crash:
        st.ghost["crash"] = crash_hook
    remote = st.deref(st.ghost["remote"])
    for u in universe:
        tag = u.replace("<<", "_")
        if DL(u) not in remote:
            rsize, rcid = mk.int(f"rsize_{tag}"), mk.int(f"rcid_{tag}")
            remote[DL(u)] = st.alloc(fs.Obj("remote", {"kind": kinds.get(u, "ok"), "size": rsize, "cid": rcid}), "remote")
        fs.add_file(st, PATH(u), exists=u in cached, size=mk.int(f"fsize_{tag}"), cid=mk.int(f"fcid_{tag}"),
                    mtime=mk.int(f"mtime_{tag}"), atime=mk.int(f"atime_{tag}"), complete=True)
    for u in universe:
        fs.add_file(st, PATH(u) + ".part", exists=False)
    for k, n in enumerate(FOREIGN):
        fs.add_file(st, ROOT + "/" + n, exists=True, size=mk.int(f"gsize_{k}"), cid=mk.int(f"gcid_{k}"),
                    mtime=mk.int(f"gmtime_{k}"), atime=mk.int(f"gatime_{k}"), complete=True)
    size_gb = mk.real("size_gb")
    par = mk.bool("parallel") if parallel is None else parallel
    alw = mk.bool("allow_missing") if allow is None else allow
    if with_config_file:
        fs.add_file(st, CFG, exists=True, size=mk.int("cfg_size"), cid=mk.int("cfg_cid"), mtime=mk.int("cfg_mtime"),
                    atime=mk.int("cfg_atime"), complete=True,
                    content={"size_gb": size_gb, "parallel": par, "allow_for_missing_files": alw})
    cfg = st.alloc(fs.Obj(repo_class(st, CO, "FileCacheConfig"),
                          {"path": ROOT, "size_gb": size_gb, "_parallel": par, "_allow_for_missing_files": alw}), "config")
    res = st.alloc(fs.Obj("ModelResource", {"prefix": W.SCHEME}), "resource")
    directives = st.alloc({"validate": st.alloc({"chk": fs.validate_fn(validate)}, "d"),
                           "postprocess": st.alloc({"pp": fs.postprocess_fn(pp_raises)}, "d")}, "directives")
    entries = st.alloc({NAME(u): PATH(u) for u in universe if u in cached}, "entries")
    cache = st.alloc(fs.Obj(repo_class(st, CO, "FileCache"), {
        "path": ROOT, "config": cfg, "_cache_misses": mk.int("n_misses"), "_cache_hits": mk.int("n_hits"),
        "_cache_evictions": mk.int("n_evictions"), "disable_progress_bar": False, "_entries": entries,
        "directives": directives, "description": "Caching", "resources": st.alloc([res], "resources")}), "cache")
    w = st.alloc({"fs": st.ghost["fs"], "log": st.ghost["log"], "remote": st.ghost["remote"], "clock0": clock0,
                  "validate": validate, "pp_raises": pp_raises}, "world")
    out = {"self": cache, "w": w}
    out.update(extra or {})
    return out


def call_without_world(interp, st, fv, args):
    return interp.call_function(st, fv, [], {k: v for k, v in args.items() if k != "w"})


# ----------------------------------------------------------------------------- clause vocabulary (dual mode)
def trunc(x):
    if is_symbolic(x):
        return lib.REG["builtins.int"].impl(None, _DerefOnly(), [x], {})
    return int(x)


class _DerefOnly:
    def deref(self, v):
        return v


def maxb(cfg):
    """configured limit in bytes, as the statement counts it"""
    return trunc(cfg.size_gb * GB)


def recency(f):
    return If(f.atime > f.mtime, f.atime, f.mtime)


def pp(cid):
    if is_symbolic(cid):
        return fs.PP(T.to_z3(cid))
    return ("pp", cid)


def pattern_paths(a):
    return [p for p in a.w["fs"] if is_pattern(p) and os.path.dirname(p) == ROOT]


def foreign_paths(a):
    return [p for p in a.w["fs"] if not is_pattern(p) and p != CFG and not p.endswith(".part")]


def total(a):
    t = 0
    for p in pattern_paths(a):
        if a.w["fs"][p].exists:
            t = t + a.w["fs"][p].size
    return t


def letter_of(path):
    for u in LETTERS:
        if path == PATH(u):
            return u
    return None


def inv_structure(a):
    """Inv 1-3: entries = pattern files on disk, each at join(path, name), each complete"""
    ok = True
    ent = a.self._entries
    F = a.w["fs"]
    for p in pattern_paths(a):
        n = os.path.basename(p)
        ok = And(ok, bool(F[p].exists) == (n in ent))
        if n in ent:
            ok = And(ok, ent[n] == p)
        if F[p].exists:
            ok = And(ok, bool(F[p].complete))
    for n in ent:
        ok = And(ok, (ROOT + "/" + n) in F)
    for p in F:
        if p.endswith(".part"):
            ok = And(ok, not F[p].exists)       # no temporary download file is left behind
    return ok


def inv_content(a, expect=None):
    """Inv 2: every cached file holds its resource's bytes (content id and size of the remote object)"""
    ok = True
    F, R = a.w["fs"], a.w["remote"]
    for p in pattern_paths(a):
        u = letter_of(p)
        if F[p].exists and u is not None:
            want = (expect or {}).get(u, R[DL(u)].cid)
            ok = And(ok, eq(F[p].cid, want))
            if u not in (expect or {}):
                ok = And(ok, eq(F[p].size, R[DL(u)].size))
    return ok


def inv_pre(a):
    """precondition form of the invariant, plus the model's sanity conditions (sizes >= 0, times in the past)"""
    ok = And(inv_structure(a), inv_content(a))
    F = a.w["fs"]
    for p in F:
        if p.endswith(".part"):
            continue
        ok = And(ok, F[p].size >= 0, F[p].mtime <= a.w["clock0"], F[p].atime <= a.w["clock0"])
    for u, r in a.w["remote"].items():
        ok = And(ok, r.size >= 0)
    return ok


def foreign_untouched(a):
    ok = True
    F, O = a.w["fs"], a.old.w["fs"]
    for p in foreign_paths(a):
        ok = And(ok, bool(F[p].exists) == bool(O[p].exists))
        if F[p].exists:
            ok = And(ok, eq(F[p].size, O[p].size), eq(F[p].cid, O[p].cid), eq(F[p].mtime, O[p].mtime))
    return ok


def config_persisted(a):
    """the persisted settings are the object's settings (what the next open loads)"""
    if is_symbolic(a.self.config.size_gb) or hasattr(a.w["fs"][CFG], "content"):
        c = a.w["fs"][CFG].content
        if c is None:
            return False
        return And(eq(c["size_gb"], a.self.config.size_gb))
    return True


def size_bound(a):
    return le(total(a), maxb(a.self.config))


# ----------------------------------------------------------------------------- native twin (replay)
class NativeWorld:
    """the model state on a real temporary directory with the real classes"""

    def __init__(self, inputs):
        from ocean_science_utilities.filecache.cache_object import FileCache
        from ocean_science_utilities.filecache.remote_resources import RemoteResource, _RemoteResourceUriNotFound
        self.dir = tempfile.mkdtemp(prefix="fc-native-")
        w = inputs["w"]
        self.remote = {u: dict(r) for u, r in w["remote"].items()}
        self.validate, self.pp_raises = w.get("validate", True), w.get("pp_raises", False)
        self.log = []
        self.reg = {}
        self.paths = list(w["fs"])
        times = sorted({int(f[k]) for f in w["fs"].values() for k in ("mtime", "atime") if isinstance(f.get(k), int)}
                       | {int(w["clock0"])})
        self.rank = {t: 1000 + i for i, t in enumerate(times)}
        self.clock0 = self.rank[int(w["clock0"])]
        world = self

        class Res(RemoteResource):
            URI_PREFIX = W.SCHEME

            def download(self):
                def fetch(uri, filepath):
                    world.log.append(uri)
                    r = world.remote.get(uri)
                    kind = r["kind"] if r else "notfound"
                    if kind == "notfound":
                        raise _RemoteResourceUriNotFound(uri)
                    if kind == "raise_before":
                        raise OSError("injected before write")
                    if kind == "raise_partial":
                        world.put(filepath, r["cid"], max(0, int(r["size"]) // 3), partial=True)
                        raise OSError("injected after a partial write")
                    world.put(filepath, r["cid"], int(r["size"]))
                    return True
                return fetch
        cfgrec = w["fs"].get(CFG)
        for p, f in w["fs"].items():
            if p != CFG and f["exists"]:
                self.put(self.real(p), f["cid"], int(f["size"]))
        s = inputs["self"]
        with warnings.catch_warnings():
            warnings.simplefilter("ignore")
            c = FileCache(self.dir, size_GB=10 ** 6, resources=[Res()], parallel=bool(s["config"]["_parallel"]),
                          allow_for_missing_files=bool(s["config"]["_allow_for_missing_files"]))
        c.disable_progress_bar = True
        c.config.size_gb = s["config"]["size_gb"]
        c.config._write_config()
        c._entries = {n: self.real(p) for n, p in s["_entries"].items()}
        c.set_directive_function("validate", "chk", self._validate)
        c.set_directive_function("postprocess", "pp", self._postprocess)
        self.cache = c
        for p, f in w["fs"].items():
            if f["exists"] and os.path.exists(self.real(p)) and isinstance(f.get("mtime"), int):
                os.utime(self.real(p), (self.rank[int(f["atime"])], self.rank[int(f["mtime"])]))

    def __deepcopy__(self, memo):
        return self

    def real(self, p):
        return os.path.join(self.dir, os.path.relpath(p, ROOT))

    def modelpath(self, rp):
        return ROOT + "/" + os.path.relpath(rp, self.dir)

    def put(self, rp, cid, size, partial=False):
        """file of `size` bytes (sparse); content id and completeness are recorded by inode (survives os.replace)"""
        if size > 2 ** 40:
            raise RuntimeError("replay harness: file size beyond what a sparse file can stand in for")
        with open(rp, "wb") as f:
            f.truncate(size)
        self.reg[os.stat(rp).st_ino] = (cid, not partial)

    def _validate(self, filepath):
        if self.validate == "ioerror":
            raise IOError("validator cannot read")
        return bool(self.validate)

    def _postprocess(self, filepath):
        if self.pp_raises:
            raise RuntimeError("injected in post-processing")
        ino = os.stat(filepath).st_ino
        cid, complete = self.reg.get(ino, (None, True))
        self.reg[ino] = (("pp", cid), complete)
        os.utime(filepath)

    def observe(self):
        """-> namespace pieces in the vocabulary of the clauses"""
        F = {}
        names = set(os.listdir(self.dir))
        for p in set(self.paths) | {self.modelpath(os.path.join(self.dir, n)) for n in names}:
            rp = self.real(p)
            if not os.path.exists(rp):
                F[p] = NS({"exists": False, "size": 0, "cid": None, "mtime": 0, "atime": 0, "complete": False, "content": None})
                continue
            st = os.stat(rp)
            cid, complete = self.reg.get(st.st_ino, (None, True))
            content = None
            if p == CFG:
                try:
                    with open(rp) as f:
                        content = json.load(f)
                except Exception:
                    content = None
            F[p] = NS({"exists": True, "size": st.st_size, "cid": cid, "mtime": st.st_mtime, "atime": st.st_atime,
                       "complete": complete, "content": content})
        c = self.cache
        selfns = NS({"_entries": {n: self.modelpath(p) for n, p in c._entries.items()},
                     "config": NS({"size_gb": c.config.size_gb}), "path": ROOT})
        w = {"fs": F, "log": list(self.log), "remote": {u: NS(r) for u, r in self.remote.items()}, "clock0": self.clock0}
        return selfns, w

    def close(self):
        shutil.rmtree(self.dir, ignore_errors=True)


def native(inputs, instance):
    kw = {k: v for k, v in inputs.items() if k not in ("self", "w")}
    kw["world"] = NativeWorld(inputs)
    return kw


def args_ns(kw):
    selfns, w = kw["world"].observe()
    d = {k: v for k, v in kw.items() if k != "world"}
    d.update({"self": selfns, "w": w})
    return d


def native_method(name):
    def call(kw, instance):
        nw = kw["world"]
        args = {k: v for k, v in kw.items() if k != "world"}
        with warnings.catch_warnings():
            warnings.simplefilter("ignore")
            r = getattr(nw.cache, name)(**args)
        if isinstance(r, list):
            r = [nw.modelpath(p) if isinstance(p, str) and p.startswith(nw.dir) else p for p in r]
        return r
    return call
