"""Abstract file system, clock and remote-resource model (DESIGN §3 C18/C19).

Ghost state (st.ghost):
  fs      Ref -> dict  path (concrete str) -> Ref(Obj('file', exists, size, cid, mtime, atime, complete, content))
          closed world: a path that is not a key does not exist.  `exists`/`complete` are concrete
          booleans on a path, sizes / content ids / times are terms.
  dirs    Ref -> list of existing directories
  clock   last time stamp handed out; every write / touch takes a fresh, strictly larger one
  log     Ref -> list of uris the remote was contacted for
  remote  Ref -> dict uri -> Obj('remote', kind, size, cid);  kind in ok / notfound / raise_before / raise_partial
  crash   optional callable(interp, st, site): called after every FS mutation (crash-point obligations)

Library contracts assumed (each is listed in the evidence when used):
  os.path.join/expanduser/abspath on concrete strings (posixpath); exists/getsize/getmtime/getatime read the ghost map;
  os.remove / os.replace are single atomic steps; os.walk(dir) yields one (dir, [], sorted file names) triple for an
  existing flat directory and nothing for a missing one; os.makedirs creates the directory;
  open(p,'w*') truncates (file exists, empty, incomplete) and .write() completes it; json.dumps/json.load round-trip a dict;
  shutil.copyfile = create-incomplete, then complete with the source's bytes (two steps);
  Path(p).touch() stamps mtime = atime = a fresh clock value (creates an empty file if missing);
  hashlib.md5(s.encode()).hexdigest() is the real digest on concrete strings, an uninterpreted String->String function
  on symbolic ones; ThreadPool.imap(f, xs) and map(f, xs) return [f(x) for x in xs] in order; tqdm(it) is it;
  warnings.warn and logger methods have no modelled effect."""
import hashlib
import posixpath
import z3
from .. import terms as T
from .. import lib, source
from ..terms import Unsupported, is_sym
from ..values import Obj, LibFunc, Ref, ExcVal, Opaque, FuncVal
from ..lib import reg, TypeTag, REG, _wrap


def _raise(typ, *args):
    from ..interp import PyRaise
    raise PyRaise(ExcVal(typ, tuple(args)))


# ----------------------------------------------------------------------------- ghost helpers
def init_ghost(st, files=None, dirs=(), clock=0, remote=None):
    st.ghost["fs"] = st.alloc({}, "fs")
    st.ghost["dirs"] = st.alloc(list(dirs), "dirs")
    st.ghost["clock"] = clock
    st.ghost["log"] = st.alloc([], "log")
    st.ghost["remote"] = st.alloc(dict(remote or {}), "remote")
    for p, f in (files or {}).items():
        add_file(st, p, **f)
    return st.ghost["fs"]


def add_file(st, path, exists=True, size=0, cid=0, mtime=0, atime=0, complete=True, content=None):
    fs = st.deref(st.ghost["fs"])
    fs[path] = st.alloc(Obj("file", {"exists": exists, "size": size, "cid": cid, "mtime": mtime, "atime": atime,
                                     "complete": complete, "content": content}), "file")
    return fs[path]


def frec(st, path, create=False):
    fs = st.deref(st.ghost["fs"])
    if not isinstance(path, str):
        raise Unsupported("file system access with a non-concrete path")
    if path not in fs:
        if not create:
            return None
        add_file(st, path, exists=False)
    return st.deref(fs[path])


def tick(st):
    t = T.Fresh.int("clk")
    st.assume(t > T.to_z3(st.ghost["clock"]))
    st.ghost["clock"] = t
    return t


def crash_point(interp, st, site):
    h = st.ghost.get("crash")
    if h is not None:
        h(interp, st, site)


def fexists(st, path):
    if path in st.deref(st.ghost["dirs"]):
        return True
    f = frec(st, path)
    return bool(f is not None and f.fields["exists"])


def write_file(interp, st, path, size, cid, content=None, site="write", two_step=True):
    """create-incomplete, then complete (crash points after each step)"""
    f = frec(st, path, create=True)
    if two_step:
        f.fields.update(exists=True, complete=False, size=T.Fresh.int("partial_size"), cid=T.Fresh.int("partial_cid"),
                        content=None)
        t = tick(st)
        f.fields.update(mtime=t, atime=t)
        crash_point(interp, st, site + ".create")
    t = tick(st)
    f.fields.update(exists=True, complete=True, size=size, cid=cid, content=content, mtime=t, atime=t)
    crash_point(interp, st, site + ".complete")


# ----------------------------------------------------------------------------- os / os.path
@reg("os.path.join")
def os_path_join(interp, st, args, kwargs):
    a = [st.deref(x) for x in args]
    if not all(isinstance(x, str) for x in a):
        raise Unsupported("os.path.join of non-concrete strings")
    return posixpath.join(*a)


@reg("os.path.expanduser")
def os_path_expanduser(interp, st, args, kwargs):
    p = st.deref(args[0])
    if not isinstance(p, str) or p.startswith("~"):
        raise Unsupported("expanduser of a path that depends on the user's home directory")
    return p


@reg("os.path.abspath")
def os_path_abspath(interp, st, args, kwargs):
    p = st.deref(args[0])
    if not isinstance(p, str) or not p.startswith("/"):
        raise Unsupported("abspath of a relative path (depends on the working directory)")
    return posixpath.normpath(p)


@reg("os.path.exists")
def os_path_exists(interp, st, args, kwargs):
    return fexists(st, st.deref(args[0]))


def _stat(field):
    def f(interp, st, args, kwargs):
        p = st.deref(args[0])
        r = frec(st, p)
        if r is None or not r.fields["exists"]:
            _raise("FileNotFoundError", p)
        return r.fields[field]
    return f


reg("os.path.getsize")(_stat("size"))
reg("os.path.getmtime")(_stat("mtime"))
reg("os.path.getatime")(_stat("atime"))


@reg("os.remove")
def os_remove(interp, st, args, kwargs):
    p = st.deref(args[0])
    r = frec(st, p)
    if r is None or not r.fields["exists"]:
        _raise("FileNotFoundError", p)
    r.fields["exists"] = False
    crash_point(interp, st, "remove")
    return None


@reg("os.replace")
def os_replace(interp, st, args, kwargs):
    src, dst = st.deref(args[0]), st.deref(args[1])
    r = frec(st, src)
    if r is None or not r.fields["exists"]:
        _raise("FileNotFoundError", src)
    d = frec(st, dst, create=True)
    d.fields.update({k: v for k, v in r.fields.items()})
    r.fields["exists"] = False
    crash_point(interp, st, "replace")
    return None


@reg("os.makedirs")
def os_makedirs(interp, st, args, kwargs):
    p = st.deref(args[0])
    d = st.deref(st.ghost["dirs"])
    if p in d:
        if not st.deref(kwargs.get("exist_ok", False)):
            _raise("FileExistsError", p)
    else:
        d.append(p)
    return None


@reg("os.walk")
def os_walk(interp, st, args, kwargs):
    p = st.deref(args[0])
    if p not in st.deref(st.ghost["dirs"]):
        return st.alloc([], "walk")
    fs = st.deref(st.ghost["fs"])
    names = sorted(posixpath.basename(q) for q, r in fs.items()
                   if posixpath.dirname(q) == p.rstrip("/") and st.deref(r).fields["exists"])
    return st.alloc([(p, st.alloc([], "dirs"), st.alloc(names, "files"))], "walk")


# ----------------------------------------------------------------------------- open / json
@reg("builtins.open", True)
def b_open(interp, st, args, kwargs):
    p = st.deref(args[0])
    mode = st.deref(args[1]) if len(args) > 1 else st.deref(kwargs.get("mode", "r"))
    if not isinstance(p, str):
        raise Unsupported("open of a non-concrete path")
    if "w" in mode:
        f = frec(st, p, create=True)
        t = tick(st)
        f.fields.update(exists=True, complete=False, size=0, cid=T.Fresh.int("empty_cid"), content=None, mtime=t, atime=t)
        crash_point(interp, st, "open_w")
    else:
        if not fexists(st, p):
            _raise("FileNotFoundError", p)
    return st.alloc(Obj("fileobj", {"path": p, "mode": mode}), "fileobj")


@reg("json.dumps")
def json_dumps(interp, st, args, kwargs):
    d = st.deref(args[0])
    if not isinstance(d, dict):
        raise Unsupported("json.dumps of a non-dict")
    return Obj("jsontext", {"value": dict(d)})


@reg("json.load")
def json_load(interp, st, args, kwargs):
    fo = st.deref(args[0])
    if not (isinstance(fo, Obj) and fo.cls == "fileobj"):
        raise Unsupported("json.load of a non-file")
    c = frec(st, fo.fields["path"]).fields["content"]
    if not isinstance(c, dict):
        raise Unsupported("json.load of a file without modelled JSON content")
    return st.alloc(dict(c), "json")


# ----------------------------------------------------------------------------- hashlib
MD5HEX = z3.Function("md5hex", z3.StringSort(), z3.StringSort())


@reg("hashlib.md5")
def hashlib_md5(interp, st, args, kwargs):
    data = st.deref(args[0])
    return Obj("md5", {"data": data})


def _hexdigest(o):
    d = o.fields["data"]
    if isinstance(d, bytes):
        return hashlib.md5(d).hexdigest()
    if isinstance(d, Obj) and d.cls == "encoded":
        return MD5HEX(d.fields["s"])
    raise Unsupported("md5 of this value")


# ----------------------------------------------------------------------------- shutil / pathlib / pools / misc
@reg("shutil.copyfile")
def shutil_copyfile(interp, st, args, kwargs):
    src, dst = st.deref(args[0]), st.deref(args[1])
    r = frec(st, src)
    if r is None or not r.fields["exists"]:
        _raise("FileNotFoundError", src)
    write_file(interp, st, dst, r.fields["size"], r.fields["cid"], r.fields["content"], site="copyfile")
    return dst


def _path_ctor(interp, st, args, kwargs):
    p = st.deref(args[0])
    if not isinstance(p, str):
        raise Unsupported("Path of a non-concrete string")
    return st.alloc(Obj("Path", {"p": p}), "Path")


REG["pathlib.Path"] = TypeTag("Path", _path_ctor)


def _touch(interp, st, p):
    f = frec(st, p, create=True)
    t = tick(st)
    if not f.fields["exists"]:
        f.fields.update(exists=True, complete=True, size=0, cid=T.Fresh.int("empty_cid"), content=None)
    f.fields.update(mtime=t, atime=t)
    crash_point(interp, st, "touch")
    return None


def _pool_ctor(interp, st, args, kwargs):
    return st.alloc(Obj("ThreadPool", {}), "pool")


REG["multiprocessing.pool.ThreadPool"] = TypeTag("ThreadPool", _pool_ctor)


def _map(interp, st, f, xs):
    out = []
    for x in interp.iterate(st, xs):
        out.append(interp.call(st, f, [x], {}))
    return st.alloc(out, "list")


@reg("builtins.map", True)
def b_map(interp, st, args, kwargs):
    if len(args) != 2:
        raise Unsupported("map with several iterables")
    return _map(interp, st, args[0], args[1])


@reg("tqdm.tqdm")
def tqdm_tqdm(interp, st, args, kwargs):
    return args[0]


@reg("warnings.warn")
def warnings_warn(interp, st, args, kwargs):
    return None


@reg("logging.getLogger")
def logging_getLogger(interp, st, args, kwargs):
    return Obj("logger", {})


_NOOP = LibFunc("logger.method", lambda i, s, a, k: None)


# ----------------------------------------------------------------------------- model remote resource
def _resource_download(interp, st):
    def fetch(i, s, a, k):
        uri, filepath = s.deref(a[0]), s.deref(a[1])
        s.deref(s.ghost["log"]).append(uri)
        rem = s.deref(s.ghost["remote"]).get(uri)
        r = s.deref(rem) if rem is not None else None
        kind = r.fields["kind"] if r is not None else "notfound"
        if kind == "notfound":
            mod = source.load_module("ocean_science_utilities.filecache.remote_resources")
            cls = i.module_attr(s, mod, "_RemoteResourceUriNotFound")
            from ..interp import PyRaise
            raise PyRaise(s.deref(i.instantiate(s, cls, [uri], {})))
        if kind == "raise_before":
            _raise("OSError", "injected before write")
        if kind == "raise_partial":
            f = frec(s, filepath, create=True)
            t = tick(s)
            f.fields.update(exists=True, complete=False, size=T.Fresh.int("partial_size"), cid=T.Fresh.int("partial_cid"),
                            content=None, mtime=t, atime=t)
            crash_point(i, s, "download.create")
            _raise("OSError", "injected after a partial write")
        write_file(i, s, filepath, r.fields["size"], r.fields["cid"], site="download")
        return True
    return LibFunc("model.resource.fetch", _wrap("model remote resource (ok / not-found / raising before or after a partial write)", fetch))


PP = z3.Function("postprocessed_cid", z3.IntSort(), z3.IntSort())


def postprocess_fn(raises=False):
    """model post-processing directive: rewrites the file in place (content id pp(cid)) or raises"""
    def pp(i, s, a, k):
        p = s.deref(a[0])
        f = frec(s, p)
        if f is None or not f.fields["exists"]:
            _raise("FileNotFoundError", p)
        if raises:
            _raise("RuntimeError", "injected in post-processing")
        t = tick(s)
        f.fields.update(cid=PP(T.to_z3(f.fields["cid"])), mtime=t, atime=t)
        return None
    return LibFunc("model.postprocess", _wrap("model post-process directive function", pp))


def validate_fn(verdict):
    """model validation directive: True / False / 'ioerror'"""
    def chk(i, s, a, k):
        if verdict == "ioerror":
            _raise("OSError", "validator cannot read")
        return verdict
    return LibFunc("model.validate", _wrap("model validation directive function", chk))


class Plugin:
    def obj_getattr(self, interp, st, ref, o, name):
        c = o.cls
        if c == "logger":
            return _NOOP
        if c == "md5" and name == "hexdigest":
            return LibFunc("md5.hexdigest", _wrap("hashlib.md5.hexdigest", lambda i, s, a, k: _hexdigest(o)))
        if c == "Path" and name == "touch":
            return LibFunc("Path.touch", _wrap("pathlib.Path.touch", lambda i, s, a, k: _touch(i, s, o.fields["p"])))
        if c == "ThreadPool" and name == "imap":
            return LibFunc("ThreadPool.imap", _wrap("multiprocessing.pool.ThreadPool.imap", lambda i, s, a, k: _map(i, s, a[0], a[1])))
        if c == "ThreadPool" and name == "imap_unordered":
            # results arrive in completion order: any permutation of the in-order results (chosen by the scheduler)
            def unordered(i, s, a, k):
                res = list(s.deref(_map(i, s, a[0], a[1])))
                out = []
                while len(res) > 1:
                    # scheduler's choice: is the next result to arrive the first of the remaining ones?
                    pick_first = i.truth(s, T.Fresh.bool("completion_order"))
                    out.append(res.pop(0) if pick_first else res.pop(1))
                out.extend(res)
                return s.alloc(out, "list")
            return LibFunc("ThreadPool.imap_unordered", _wrap("multiprocessing.pool.ThreadPool.imap_unordered (any completion order)", unordered))
        if c == "fileobj" and name == "write":
            def write(i, s, a, k):
                x = s.deref(a[0])
                content = dict(x.fields["value"]) if isinstance(x, Obj) and x.cls == "jsontext" else None
                f = frec(s, o.fields["path"])
                t = tick(s)
                f.fields.update(exists=True, complete=True, size=T.Fresh.int("written_size"), cid=T.Fresh.int("written_cid"),
                                content=content, mtime=t, atime=t)
                crash_point(i, s, "write")
                return None
            return LibFunc("file.write", _wrap("file.write", write))
        if c == "ModelResource":
            if name == "valid_uri":
                return LibFunc("model.resource.valid_uri", lambda i, s, a, k: isinstance(s.deref(a[0]), str) and s.deref(a[0]).startswith(o.fields["prefix"]))
            if name == "download":
                return LibFunc("model.resource.download", lambda i, s, a, k: _resource_download(i, s))
        return NotImplemented

    def value_getattr(self, interp, st, ref, o, name):
        if isinstance(o, str) and name == "encode":
            return LibFunc("str.encode", lambda i, s, a, k: o.encode())
        if is_sym(o) and z3.is_string(o):
            if name == "encode":
                return LibFunc("str.encode", lambda i, s, a, k: Obj("encoded", {"s": o}))
            if name == "startswith":
                return LibFunc("str.startswith", lambda i, s, a, k: z3.PrefixOf(_zs(s.deref(a[0])), o))
            if name == "endswith":
                return LibFunc("str.endswith", lambda i, s, a, k: z3.SuffixOf(_zs(s.deref(a[0])), o))
        return NotImplemented

    def special_binop(self, interp, st, opname, a, b):
        if opname == "Add" and (_is_zstr(a) or _is_zstr(b)) and (isinstance(a, str) or _is_zstr(a)) and (isinstance(b, str) or _is_zstr(b)):
            return z3.Concat(_zs(a), _zs(b))
        return NotImplemented


def _is_zstr(x):
    return is_sym(x) and z3.is_string(x)


def _zs(x):
    return z3.StringVal(x) if isinstance(x, str) else x


lib.PLUGINS.append(Plugin())
