"""Rotation / mirror laws of the C01 / C02 / C03 *spec functions* (e(f), the directional moment sums, band averages, direction,
spread) on a uniform direction grid theta_j = theta_0 + j D, N D = 360, 0 < D < 180 -- spec-level lemmas, independent of the code.

The contracts of C01-C03 prove that the code computes these spec functions; the lemmas here prove how the spec functions transform
when the density is rotated by k bins, E'[f, j] = E[f, (j-k) mod N], or mirrored, E'[f, j] = E[f, (N-j) mod N] (theta_0 = 0).
Built on the finite-sum permutation lemmas of contracts/sum_lemmas.py (cyclic shift, mirror, linearity: all proved by induction)
and on trusted identities of cos / sin / arctan2 for *different* arguments (pyvc/terms.py, A-table second part; listed in TRUSTED)."""
import z3
from pyvc import terms as T
from contracts.sum_lemmas import Theory, CSum, generic_sum_theory, V, I, R
from contracts.spec_common import fill0
from contracts.C01 import e_of, dtheta
from contracts.C02 import moment_num, _trig, _rad

B = z3.BoolSort()
COS, SIN = T.UF1["cos"], T.UF1["sin"]


class Grid:
    """theta_j = th0 + j D"""

    def __init__(self, th0, D):
        self.th0, self.D = th0, D

    def __getitem__(self, j):
        return self.th0 + z3.ToReal(T.to_z3(j)) * self.D


class View2D:
    """minimal spec view of a 2D spectrum (what e_of / moment_num / dtheta read): density E(p, i, idx(j)), missing flag likewise"""
    two_d = True

    def __init__(self, E, En, theta, nd, idx=lambda j: j):
        self._E, self._En, self.theta, self.nd, self.idx = E, En, theta, nd, idx

    def E(self, p, i, j):
        return self._E(T.to_z3(p), T.to_z3(i), self.idx(T.to_z3(j)))

    def E_nan(self, p, i, j):
        return self._En(T.to_z3(p), T.to_z3(i), self.idx(T.to_z3(j)))


def trig_axioms():
    """the trusted identities, as a Theory of axioms (no obligations)"""
    th = Theory("trig")
    x, y, a, b, ph = z3.Reals("x_ta y_ta a_ta b_ta ph_ta")
    n = z3.Int("n_ta")
    ax = dict(
        add=th.axiom("angle_addition", [x, y], [], z3.And(*T.trig_addition_axioms(x, y)), "cos(x+y) = cos x cos y - sin x sin y, sin(x+y) = sin x cos y + cos x sin y"),
        period=th.axiom("two_pi_periodicity", [x, n], [], z3.And(*T.trig_period_axioms(x, n)), "cos / sin (x + 2 pi n) = cos / sin x for integer n"),
        pyth=th.axiom("pythagoras", [x], [], T.UF1["cos"](x) * T.UF1["cos"](x) + T.UF1["sin"](x) * T.UF1["sin"](x) == 1, "cos^2 x + sin^2 x = 1"),
        parity=th.axiom("parity", [x], [], z3.And(*T.trig_parity_axioms(x)), "cos(-x) = cos x, sin(-x) = -sin x"),
        at_rot=th.axiom("arctan2_of_rotated_vector", [a, b, ph], [], T.arctan2_rotation_axiom(a, b, ph),
                        "(a, b) != 0: arctan2(a sin ph + b cos ph, a cos ph - b sin ph) = arctan2(b, a) + ph + 2 pi n for an integer n"),
        at_mir=th.axiom("arctan2_of_mirrored_vector", [a, b], [], z3.And(*T.arctan2_mirror_axioms(a, b)),
                        "arctan2(-b, a) = -arctan2(b, a) unless b = 0 and a < 0, where both are pi"))
    return th, dict(ax, x=x, y=y, a=a, b=b, ph=ph, n=n)


def rotation_theory(direction_of, spread_of, prefix="rotation", mults=(1,), mutant=None):
    """`mutant`: a deliberately false variant of one statement (self-test of the lemma engine only, see NOTES-C03.md)"""
    G_th, G = generic_sum_theory(prefix + ".sums", mutant=mutant)
    A_th, A = trig_axioms()
    th = Theory(prefix)
    th.extend(G_th)
    th.extend(A_th)
    E = z3.Function("E_r", I, I, I, R)
    En = z3.Function("En_r", I, I, I, B)
    th0, D = z3.Reals("th0_r D_r")
    N, k, p, fi, j = z3.Ints("N_r k_r p_r fi_r j_r")
    grid = Grid(th0, D)
    sp = View2D(E, En, grid, N)
    spr = View2D(E, En, grid, N, idx=lambda jj: (jj - (k + 1 if mutant == "rotate_by_k_plus_1" else k)) % N)          # rotated by k bins
    UNI = [N >= 1, D > 0, D < 180] + ([z3.ToReal(N) * D == 360] if mutant != "non_uniform_grid" else [])
    ROT = [0 <= k, k <= N]
    INR = [0 <= j, j < N]
    jq = z3.Int("jq_r")
    mod_all = z3.ForAll([jq], G["modf"].inst({G["a"]: jq, G["N"]: N}))
    rad = lambda deg: deg * T.PI / 180
    phi = z3.ToReal(k) * D                                             # rotation angle in degrees
    w = z3.If(j + k < N, 0, 1)                                           # wrap-around of bin j+k

    # -- the grid
    widths = th.direct("uniform_grid.wrapped_bin_widths_equal_the_spacing", [th0, D, N, j], [], UNI + INR, T.to_z3(dtheta(sp, j)) == D,
                       note="every wrapped bin width of C01's dtheta is D, including the closing bin")
    mulc = th.direct("equal_factors_equal_products", list(z3.Reals("u_r v_r z_r")), [], [z3.Real("u_r") == z3.Real("v_r")],
                     z3.Real("u_r") * z3.Real("z_r") == z3.Real("v_r") * z3.Real("z_r"), note="u = v -> u z = v z")
    u_, v_, z_ = z3.Reals("u_r v_r z_r")
    shifted = grid[(j + k) % N]
    gridrot = th.direct("uniform_grid.direction_of_bin_j_plus_k", [th0, D, N, k, j], [], UNI + ROT + INR,
                        shifted == grid[j] + phi - 360 * z3.ToReal(w), using=[mod_all],
                        note="theta_((j+k) mod N) = theta_j + k D - 360 [j+k >= N]")
    gridrot_rad = th.direct("uniform_grid.direction_of_bin_j_plus_k.radians", [th0, D, N, k, j], [], UNI + ROT + INR,
                            rad(shifted) == rad(grid[j]) + rad(phi) - 2 * T.PI * z3.ToReal(w),
                            using=[gridrot.inst(), mulc.inst({u_: shifted, v_: grid[j] + phi - 360 * z3.ToReal(w), z_: T.PI})],
                            note="the same times pi/180")

    # -- cos / sin of an angle shifted by ph and by whole turns
    x, ph, y = z3.Reals("x_r ph_r y_r")
    wv = z3.Int("w_r")
    trigrot = th.direct("cos_sin_of_shifted_angle", [x, ph, y, wv], [], [y == x + ph - 2 * T.PI * z3.ToReal(wv)],
                        z3.And(COS(y) == COS(x) * COS(ph) - SIN(x) * SIN(ph), SIN(y) == SIN(x) * COS(ph) + COS(x) * SIN(ph)),
                        using=[A["add"].inst({A["x"]: x, A["y"]: ph}), A["period"].inst({A["x"]: y, A["n"]: wv})],
                        note="y = x + ph - 2 pi w: angle addition + periodicity (trusted identities)")
    out = dict(th=th, G=G, A=A, widths=widths, gridrot=gridrot, trigrot=trigrot, E=E, En=En, th0=th0, D=D, N=N, k=k, p=p, fi=fi, j=j,
               sp=sp, spr=spr, UNI=UNI, ROT=ROT, phi=phi)

    # -- ((j-k) mod N + k) mod N = j
    round_trip = th.direct("rotate_back_and_forth", [N, k, j], [], [N >= 1] + ROT + INR, ((j - k) % N + k) % N == j, using=[mod_all],
                           note="((j-k) mod N + k) mod N = j for 0 <= j < N, 0 <= k <= N")
    all_j = lambda t: z3.ForAll([j], t.inst())

    # -- e(f) is unchanged
    ge = lambda jj: z3.If(En(p, fi, jj), 0, E(p, fi, jj) * D)          # the term of e(f) with the width resolved
    Sge = CSum(ge)
    e_sp = th.direct("e.terms_on_the_uniform_grid", [th0, D, N, p, fi], [E, En], UNI, T.to_z3(e_of(sp, p, fi)) == Sge(0, N), using=[all_j(widths)],
                     note="with all widths equal to D, C01's e(f) = sum_j fill0(E_j) D (congruence)")
    e_spr = th.direct("e.terms_of_the_rotated_spectrum", [th0, D, N, k, p, fi], [E, En], UNI + ROT,
                      T.to_z3(e_of(spr, p, fi)) == CSum(lambda jj: ge((T.to_z3(jj) - k) % N))(0, N), using=[all_j(widths)],
                      note="the same for E'[f, j] = E[f, (j-k) mod N]")
    e_rot = th.direct("e.unchanged_by_rotation", [th0, D, N, k, p, fi], [E, En], UNI + ROT, T.to_z3(e_of(spr, p, fi)) == T.to_z3(e_of(sp, p, fi)),
                      using=[e_sp.inst(), e_spr.inst(), G["cycb"].inst({G["N"]: N, G["k"]: k}, {G["g"]: ge(V(0))})],
                      note="e'(f) = e(f) for E'[f, j] = E[f, (j-k) mod N]: cyclic-shift lemma")
    out.update(e_rot=e_rot)

    # -- the moment sums rotate
    for mult in mults:
        tag = {1: "first", 2: "second"}[mult]
        radphi = rad(phi) if mult == 1 else mult * rad(phi)
        cphi, sphi = COS(radphi), SIN(radphi)
        ang = lambda jj: T.to_z3(_rad(sp, jj, mult))

        def g0(fn, jj):      # term of moment_num(sp, .., fn, mult) with the width resolved
            return z3.If(En(p, fi, jj), 0, E(p, fi, jj) * T.UF1[fn](ang(jj)) * D)

        def gk(fn, jj):      # the same with the direction of bin (jj + k) mod N
            return z3.If(En(p, fi, jj), 0, E(p, fi, jj) * T.UF1[fn](ang((jj + k) % N)) * D)
        coef = {"cos": (cphi, -sphi if mutant != "sin_sign" else sphi), "sin": (sphi, cphi)}
        comb = lambda fn, jj: coef[fn][0] * g0("cos", jj) + coef[fn][1] * g0("sin", jj)
        point = th.direct(f"{tag}_moments.term_of_bin_j_plus_k", [th0, D, N, k, p, fi, j], [E, En], UNI + ROT + INR,
                          z3.And(gk("cos", j) == comb("cos", j), gk("sin", j) == comb("sin", j)),
                          using=[gridrot_rad.inst(),
                                 trigrot.inst({x: ang(j), ph: radphi, y: ang((j + k) % N), wv: mult * w})],
                          note="E_j cos(m theta_(j+k)) D = cos(m phi) E_j cos(m theta_j) D - sin(m phi) E_j sin(m theta_j) D, likewise sin")
        M, Mr, u1, S0 = {}, {}, {}, {}
        for fn in ("cos", "sin"):
            M[fn], Mr[fn] = T.to_z3(moment_num(sp, p, fi, fn, mult)), T.to_z3(moment_num(spr, p, fi, fn, mult))
            S0[fn] = CSum(lambda jj, fn=fn: g0(fn, T.to_z3(jj)))
            u1[fn] = th.direct(f"{tag}_moments.{fn}.terms_on_the_uniform_grid", [th0, D, N, p, fi], [E, En], UNI, M[fn] == S0[fn](0, N), using=[all_j(widths)],
                               note="C02's moment sum with the widths resolved (congruence)")
        fin = {}
        for fn in ("cos", "sin"):
            Sk = CSum(lambda jj, fn=fn: gk(fn, T.to_z3(jj)))
            Skr = CSum(lambda jj, fn=fn: gk(fn, (T.to_z3(jj) - k) % N))
            Sc = CSum(lambda jj, fn=fn: comb(fn, T.to_z3(jj)))
            Skw = CSum(lambda jj, fn=fn: z3.If(En(p, fi, (T.to_z3(jj) - k) % N), 0, E(p, fi, (T.to_z3(jj) - k) % N) * T.UF1[fn](ang(T.to_z3(jj))) * D))
            u2a = th.direct(f"{tag}_moments.{fn}.terms_of_the_rotated_spectrum.widths", [th0, D, N, k, p, fi], [E, En], UNI + ROT, Mr[fn] == Skw(0, N),
                            using=[all_j(widths)], note="C02's moment sum of the rotated spectrum with the widths resolved (congruence)")
            u2 = th.direct(f"{tag}_moments.{fn}.terms_of_the_rotated_spectrum", [th0, D, N, k, p, fi], [E, En], UNI + ROT, Mr[fn] == Skr(0, N),
                           using=[u2a.inst(), all_j(round_trip)],
                           note="... re-indexed by i = (j-k) mod N (j = (i+k) mod N)")
            u3 = th.direct(f"{tag}_moments.{fn}.sum_of_rotated_terms", [th0, D, N, k, p, fi], [E, En], UNI + ROT, Sk(0, N) == Sc(0, N), using=[all_j(point)],
                           note="pointwise rotation of the terms under the sum (congruence)")
            u4 = th.direct(f"{tag}_moments.{fn}.rotated_sum_is_the_sum_of_rotated_terms", [th0, D, N, k, p, fi], [E, En], UNI + ROT, Mr[fn] == Sc(0, N),
                           using=[u2.inst(), G["cycb"].inst({G["N"]: N, G["k"]: k}, {G["g"]: gk(fn, V(0))}), u3.inst()],
                           note="cyclic-shift lemma between the two")
            fin[fn] = th.direct(
                f"{tag}_moments.{fn}.rotates_with_the_spectrum", [th0, D, N, k, p, fi], [E, En], UNI + ROT,
                Mr[fn] == (cphi * M["cos"] + coef["cos"][1] * M["sin"] if fn == "cos" else sphi * M["cos"] + cphi * M["sin"]),
                using=[u4.inst(), u1["cos"].inst(), u1["sin"].inst(),
                       G["lin2"].inst({G["a"]: 0, G["b"]: N, G["al"]: coef[fn][0], G["be"]: coef[fn][1]}, {G["g"]: g0("cos", V(0)), G["h"]: g0("sin", V(0))})],
                note=("A' = A cos(m phi) - B sin(m phi)" if fn == "cos" else "B' = A sin(m phi) + B cos(m phi)") +
                     " for the sums A, B of E cos(m theta) w, E sin(m theta) w of C02 (linearity)")
        out[f"mrot{mult}"] = fin
    # -- direction and spread of a rotated moment vector (scalars; the band averages, the per-frequency moments and the moments at the
    #    peak all transform like (A, B) -> (A c - B s, A s + B c), see the lemmas above and `band_average_theory`)
    Av, Bv, phr = z3.Reals("A_r B_r phr_r")
    c_, s_ = COS(phr), SIN(phr)
    Ar, Br = Av * c_ - Bv * s_, Av * s_ + Bv * c_
    norm = th.direct("rotated_vector.same_length", [Av, Bv, phr], [], [], Ar * Ar + Br * Br == Av * Av + Bv * Bv, using=[A["pyth"].inst({A["x"]: phr})],
                     note="(A c - B s)^2 + (A s + B c)^2 = A^2 + B^2 (Pythagorean identity of the A-table)")
    spread = th.direct("rotated_vector.same_spread", [Av, Bv, phr], [], [], T.to_z3(spread_of(Ar, Br)) == T.to_z3(spread_of(Av, Bv)), using=[norm.inst()],
                       note="C03's spread formula sqrt(2 - 2 sqrt(A^2 + B^2)) is unchanged")
    wind = z3.ToReal(T.ATAN2_WINDING(Av, Bv, phr))
    direc = th.direct("rotated_vector.direction_shifts_by_the_angle_modulo_360", [Av, Bv, phr], [], [z3.Or(Av != 0, Bv != 0)],
                      T.to_z3(direction_of(Ar, Br)) == T.to_z3(direction_of(Av, Bv)) + phr * 180 / T.PI + (360 * wind if mutant != "direction_without_winding" else 0),
                      using=[A["at_rot"].inst({A["a"]: Av, A["b"]: Bv, A["ph"]: phr})],
                      note="C03's direction formula atan2(B, A) in degrees: direction' = direction + angle + 360 n for an integer n (trusted arctan2 identity)")
    degs = th.direct("rotation_angle_in_degrees", [D, k], [], [], rad(phi) * 180 / T.PI == phi, note="(k D pi / 180) 180 / pi = k D")
    out.update(spread=spread, direc=direc, norm=norm, degs=degs, Av=Av, Bv=Bv, phr=phr)
    # ================= mirror image: E'[f, j] = E[f, (N-j) mod N] on a grid with theta_0 = 0 (theta_((N-j) mod N) = -theta_j modulo 360)
    tm = Theory(prefix.replace("rotation", "mirror"))
    MIR = UNI + ([th0 == 0] if mutant != "mirror_any_theta0" else [])
    spm = View2D(E, En, grid, N, idx=lambda jj: (N - jj) % N)
    wm = z3.If(j == 0, 0, 1)
    mirrored = grid[(N - j) % N]
    gridmir = tm.direct("uniform_grid.direction_of_bin_N_minus_j", [th0, D, N, j], [], MIR + INR, mirrored == -grid[j] + 360 * z3.ToReal(wm), using=[mod_all],
                        note="theta_((N-j) mod N) = -theta_j + 360 [j > 0] when theta_0 = 0")
    gridmir_rad = tm.direct("uniform_grid.direction_of_bin_N_minus_j.radians", [th0, D, N, j], [], MIR + INR,
                            rad(mirrored) == -rad(grid[j]) + 2 * T.PI * z3.ToReal(wm),
                            using=[gridmir.inst(), mulc.inst({u_: mirrored, v_: -grid[j] + 360 * z3.ToReal(wm), z_: T.PI})], note="the same times pi/180")
    trigmir = tm.direct("cos_sin_of_negated_angle", [x, y, wv], [], [y == -x + 2 * T.PI * z3.ToReal(wv)], z3.And(COS(y) == COS(x), SIN(y) == -SIN(x)),
                        using=[A["parity"].inst({A["x"]: x}), A["period"].inst({A["x"]: -x, A["n"]: wv})], note="y = -x + 2 pi w: parity + periodicity (trusted identities)")
    there_back = tm.direct("mirror_twice", [N, j], [], [N >= 1] + INR, (N - (N - j) % N) % N == j, using=[mod_all], note="(N - (N-j) mod N) mod N = j for 0 <= j < N")
    all_jm = lambda t: z3.ForAll([j], t.inst())
    e_spm = tm.direct("e.terms_of_the_mirrored_spectrum", [th0, D, N, p, fi], [E, En], MIR,
                      T.to_z3(e_of(spm, p, fi)) == CSum(lambda jj: ge((N - T.to_z3(jj)) % N))(0, N), using=[all_jm(widths)], note="widths resolved (congruence)")
    e_mir = tm.direct("e.unchanged_by_mirroring", [th0, D, N, p, fi], [E, En], MIR, T.to_z3(e_of(spm, p, fi)) == T.to_z3(e_of(sp, p, fi)),
                      using=[e_sp.inst(), e_spm.inst(), G["mir"].inst({G["N"]: N}, {G["g"]: ge(V(0))})], note="e'(f) = e(f): mirror lemma for finite sums")
    out.update(e_mir=e_mir, spm=spm, MIR=MIR)
    for mult in mults:
        tag = {1: "first", 2: "second"}[mult]
        ang = lambda jj: T.to_z3(_rad(sp, jj, mult))
        g0 = lambda fn, jj: z3.If(En(p, fi, jj), 0, E(p, fi, jj) * T.UF1[fn](ang(jj)) * D)
        gm = lambda fn, jj: z3.If(En(p, fi, jj), 0, E(p, fi, jj) * T.UF1[fn](ang((N - jj) % N)) * D)
        sgn = {"cos": 1, "sin": -1 if mutant != "mirror_sin_sign" else 1}
        combm = lambda fn, jj: z3.RealVal(sgn[fn]) * g0(fn, jj) + z3.RealVal(0) * g0(fn, jj)
        pointm = tm.direct(f"{tag}_moments.term_of_bin_N_minus_j", [th0, D, N, p, fi, j], [E, En], MIR + INR,
                           z3.And(gm("cos", j) == combm("cos", j), gm("sin", j) == combm("sin", j)),
                           using=[gridmir_rad.inst(), trigmir.inst({x: ang(j), y: ang((N - j) % N), wv: mult * wm})],
                           note="E_j cos(m theta_(N-j)) D = E_j cos(m theta_j) D, E_j sin(m theta_(N-j)) D = -E_j sin(m theta_j) D")
        finm = {}
        for fn in ("cos", "sin"):
            Mm = T.to_z3(moment_num(spm, p, fi, fn, mult))
            M0 = T.to_z3(moment_num(sp, p, fi, fn, mult))
            S0 = CSum(lambda jj, fn=fn: g0(fn, T.to_z3(jj)))
            Sm = CSum(lambda jj, fn=fn: gm(fn, T.to_z3(jj)))
            Smr = CSum(lambda jj, fn=fn: gm(fn, (N - T.to_z3(jj)) % N))
            Sc = CSum(lambda jj, fn=fn: combm(fn, T.to_z3(jj)))
            u1 = th.thms[f"{tag}_moments.{fn}.terms_on_the_uniform_grid"]
            Smw = CSum(lambda jj, fn=fn: z3.If(En(p, fi, (N - T.to_z3(jj)) % N), 0, E(p, fi, (N - T.to_z3(jj)) % N) * T.UF1[fn](ang(T.to_z3(jj))) * D))
            u2a = tm.direct(f"{tag}_moments.{fn}.terms_of_the_mirrored_spectrum.widths", [th0, D, N, p, fi], [E, En], MIR, Mm == Smw(0, N),
                            using=[all_jm(widths)], note="C02's moment sum of the mirrored spectrum with the widths resolved (congruence)")
            u2 = tm.direct(f"{tag}_moments.{fn}.terms_of_the_mirrored_spectrum", [th0, D, N, p, fi], [E, En], MIR, Mm == Smr(0, N),
                           using=[u2a.inst(), all_jm(there_back)], note="... re-indexed by i = (N-j) mod N (j = (N-i) mod N)")
            u3 = tm.direct(f"{tag}_moments.{fn}.sum_of_mirrored_terms", [th0, D, N, p, fi], [E, En], MIR, Sm(0, N) == Sc(0, N), using=[all_jm(pointm)],
                           note="pointwise mirror image of the terms under the sum (congruence)")
            u4 = tm.direct(f"{tag}_moments.{fn}.mirrored_sum_is_the_sum_of_mirrored_terms", [th0, D, N, p, fi], [E, En], MIR, Mm == Sc(0, N),
                           using=[u2.inst(), G["mir"].inst({G["N"]: N}, {G["g"]: gm(fn, V(0))}), u3.inst()], note="mirror lemma for finite sums between the two")
            finm[fn] = tm.direct(
                f"{tag}_moments.{fn}.mirrors_with_the_spectrum", [th0, D, N, p, fi], [E, En], MIR, Mm == (M0 if fn == "cos" else z3.RealVal(sgn["sin"]) * M0),
                using=[u4.inst(), u1.inst(),
                       G["lin2"].inst({G["a"]: 0, G["b"]: N, G["al"]: z3.RealVal(sgn[fn]), G["be"]: z3.RealVal(0)}, {G["g"]: g0(fn, V(0)), G["h"]: g0(fn, V(0))})],
                note="A' = A" if fn == "cos" else "B' = -B")
        out[f"mmir{mult}"] = finm
    dir0, dirm = T.to_z3(direction_of(Av, Bv)), T.to_z3(direction_of(Av, -Bv))
    mdirec = tm.direct("mirrored_vector.direction_is_negated_modulo_360", [Av, Bv], [], [], z3.Or(dirm == -dir0, z3.And(dirm == 180, dir0 == 180)),
                       using=[A["at_mir"].inst({A["a"]: Av, A["b"]: Bv})],
                       note="C03's direction of (A, -B) is minus that of (A, B); on the negative A axis both are 180 = -180 modulo 360 (trusted arctan2 identity)")
    mspread = tm.direct("mirrored_vector.same_spread", [Av, Bv], [], [], T.to_z3(spread_of(Av, -Bv)) == T.to_z3(spread_of(Av, Bv)), note="(-B)^2 = B^2")
    out.update(mdirec=mdirec, mspread=mspread, tm=tm)
    out["lemmas"] = G_th.lemmas + th.lemmas + tm.lemmas
    out["trusted"] = list(A_th.trusted)
    return out
