"""C06 - estimators reproduce the input moments; solvers agree; output rotates with input; the Jacobian is the derivative.

Contract-decidable parts (real source, every run):
  * moment_constraints:  residual[m] = moment[m] - sum_j twiddle[m, j] * D_j * dtheta_j  with D the MEM2 distribution of the multipliers
  * mem2_jacobian:       J[m, n] = d residual[m] / d lambda_n   -- the real Jacobian code and the real residual code are executed symbolically on the
                         same symbolic inputs (any N), the residual term is differentiated (pyvc/calculus.py: product/chain rule, d exp = exp, finite-sum
                         linearity; the derivative of the stabilising min-shift is an arbitrary real) and the two are compared in polynomial normal form
  * mem2_newton_solver:  on the converged exit the residual norm at the returned multipliers is < atol (loop invariant: current_func is the residual of
                         current_iterate), i.e. the reconstruction reproduces the four moments to the solver tolerance *when the iteration converges*
Not contract-decidable: that the iterations converge for resolvable seas, the scipy variant, the accuracy of MEM, and rotation/mirror equivariance of the
converged output - bounded stand-in on the compiled code (C06_bounded.py), labelled bounded."""
import z3 as _z3
from pyvc.api import *
from pyvc.api import CalleeContract
from pyvc import terms as _T
from pyvc.calculus import Algebra
from pyvc.loops import LoopContract
from pyvc.run import Bounded
from pyvc.values import Arr as _Arr
from contracts.C06_bounded import bounded_fidelity

PROPERTY = "C06"
LEVEL = "other"
E = "wavespectra/estimators/"


def _n(x):
    return x.n if hasattr(x, "n") else len(x)


GRID_REQ = [("grid", lambda a: And(_n(a.direction_increment) >= 1, forall(0, _n(a.direction_increment), lambda j: a.direction_increment[j] > 0)))]


# ------------------------------------------------------------------ residual
def _p_mc(mk):
    N = mk.size("N")
    return {"lambdas": mk.carray("lam", 4), "twiddle_factors": mk.array("tw", (4, N)), "moments": mk.carray("m", 4), "direction_increment": mk.array("dtheta", (N,))}


def _dist_result(mk, a):
    D = mk.array("D", mk.st.deref(a.direction_increment).shape)
    mk.st.ghost["D"] = (D, a)
    return D


DIST = CalleeContract(E + "mem2.py::mem2_directional_distribution", _dist_result,
                      note="proved in C05 (non-negative, unit integral); here: some distribution D of the multipliers it is given")


def _mc_post(a, r):
    D, da = a._ghost["D"]
    Dv = a._snap.deref(D)
    same = And(da.lagrange_multiplier is a._raw["lambdas"] or getattr(da.lagrange_multiplier, "id", 0) == getattr(a._raw["lambdas"], "id", 1),
               getattr(da.direction_increment, "id", 0) == getattr(a._raw["direction_increment"], "id", 1),
               getattr(da.twiddle_factors, "id", 0) == getattr(a._raw["twiddle_factors"], "id", 1))
    N = _n(a.direction_increment)
    return And(same, *[eq(r[m], a.moments[m] - Sum(0, N, lambda j: a.twiddle_factors[m, j] * Dv.get((j,)) * a.direction_increment[j])) for m in range(4)])


moment_constraints = Contract(
    E + "mem2.py::moment_constraints", params=_p_mc, requires=GRID_REQ,
    ensures=[("residual_is_moment_minus_moment_of_the_distribution_of_these_multipliers", _mc_post)],
    callees={DIST.target: DIST},
)


# ------------------------------------------------------------------ Jacobian = derivative of the residual
def _p_jac(mk):
    N = mk.size("N")
    return {"lagrange_multiplier": mk.carray("lam", 4), "twiddle_factors": mk.array("tw", (4, N)), "direction_increment": mk.array("dtheta", (N,)),
            "jacobian": mk.array("Jbuf", (4, 4)), "moments": mk.carray("m", 4)}


def _call_jacobian_and_residual(interp, st, fv, args):
    """both real functions on the same symbolic inputs: (mem2_jacobian(...), moment_constraints(...))"""
    J = interp.call_function(st, fv, [], {k: args[k] for k in ("lagrange_multiplier", "twiddle_factors", "direction_increment", "jacobian")})
    mc = interp.module_attr(st, fv.module, "moment_constraints")
    F = interp.call_function(st, st.deref(mc), [], {"lambdas": args["lagrange_multiplier"], "twiddle_factors": args["twiddle_factors"],
                                                   "moments": args["moments"], "direction_increment": args["direction_increment"]})
    return (J, F)


_CACHE = {}


def _derivative_analysis(a, r):
    k = id(a._snap)
    if k in _CACHE:
        return _CACHE[k]
    J, F = r
    alg = Algebra()
    rows = []
    for m in range(4):
        Fm = alg.from_term(_T.to_z3(F[m]))
        for n in range(4):
            d = alg.diff(Fm, _T.to_z3(a.lagrange_multiplier[n]))
            Jmn = alg.from_term(_T.to_z3(J[m, n]))
            rows.append((m, n, Jmn, d))
    _CACHE.clear()
    _CACHE[k] = (alg, rows)
    return alg, rows


def _native(r):
    import numpy as np
    return isinstance(r, tuple) and isinstance(r[0], np.ndarray)


def _native_fns():
    from pyvc.replay import resolve
    return resolve(E + "mem2.py::mem2_jacobian"), resolve(E + "mem2.py::moment_constraints")


def _native_args(kw):
    import numpy as np
    return (np.ascontiguousarray(kw["lagrange_multiplier"], dtype="float64"), np.ascontiguousarray(kw["twiddle_factors"], dtype="float64"),
            np.ascontiguousarray(kw["direction_increment"], dtype="float64"), np.ascontiguousarray(kw["moments"], dtype="float64"))


def _native_call(kw, inst):
    import numpy as np
    jac, mc = _native_fns()
    lam, tw, dth, mom = _native_args(kw)
    buf = np.ascontiguousarray(kw.get("jacobian", np.zeros((4, 4))), dtype="float64").copy()       # the caller's buffer: its content must not matter
    return (jac(lam, tw, dth, buf), mc(lam, tw, mom, dth))


def _jac_is_derivative(a, r):
    if _native(r):
        # executable twin: central differences of the real residual function
        import numpy as np
        jac, mc = _native_fns()
        lam, tw, dth, mom = _native_args(a.__dict__)
        h = 1e-5
        D = np.zeros((4, 4))
        for n in range(4):
            e = np.zeros(4)
            e[n] = h
            D[:, n] = (mc(lam + e, tw, mom, dth) - mc(lam - e, tw, mom, dth)) / (2 * h)
        return bool(np.allclose(r[0], D, rtol=1e-5, atol=1e-7))
    alg, rows = _derivative_analysis(a, r)
    if any(not Jmn for _, _, Jmn, _ in rows if _ is not None) and all(not Jmn for _, _, Jmn, _ in rows):
        return False                                   # a Jacobian that is identically zero: degenerate, never "equal by normal form"
    side = [alg.to_term(p) != 0 for p in alg.nonzero]
    # entries whose normal forms differ: the *difference* polynomial (common monomials cancelled) is what the solver gets
    cl = [True if Jmn == d else eq(alg.to_term(alg.add(Jmn, alg.neg(d))), 0) for _, _, Jmn, d in rows]
    return implies(And(*side), And(*cl))


def _normalisation_positive(a, r):
    if _native(r):
        return True
    alg, rows = _derivative_analysis(a, r)
    return And(*[alg.to_term(p) > 0 for p in alg.nonzero]) if alg.nonzero else True


jacobian = Contract(
    E + "mem2.py::mem2_jacobian", params=_p_jac, requires=GRID_REQ, call=_call_jacobian_and_residual,
    ensures=[("jacobian_is_the_derivative_of_the_moment_constraints", _jac_is_derivative),
             ("normalisation_sum_is_positive", _normalisation_positive),
             ("symmetric", lambda a, r: And(*[eq(r[0][m, n], r[0][n, m]) for m in range(4) for n in range(m)]))],
    label="mem2_jacobian_vs_moment_constraints",
    options={"native_call": _native_call},
    witness=[lambda: _jac_witness(36, 0), lambda: _jac_witness(24, 1)],
)


def _jac_witness(N, case):
    import numpy as np
    from contracts.C06_bounded import HARD
    th = np.linspace(0, 2 * np.pi, N, endpoint=False)
    tw = np.array([np.cos(th), np.sin(th), np.cos(2 * th), np.sin(2 * th)])
    from ocean_science_utilities.wavespectra.estimators.mem2 import initial_value
    m = np.array(HARD[case])
    lam = initial_value(*[np.array([v]) for v in m])[0]
    return ("", {"lagrange_multiplier": lam, "twiddle_factors": tw, "direction_increment": np.full(N, 2 * np.pi / N),
                 "jacobian": np.random.default_rng(N).normal(0, 1, (4, 4)), "moments": m})       # a used (non-zero) buffer


# ------------------------------------------------------------------ Newton solver: the converged exit reproduces the moments to atol
MCF = _z3.Function("moment_residual", _T.IntS, _T.RealS, _T.RealS, _T.RealS, _T.RealS, _T.RealS)     # (m, lambda_0..3)
DSF = _z3.Function("mem2_distribution", _T.IntS, _T.RealS, _T.RealS, _T.RealS, _T.RealS, _T.RealS)   # (j, lambda_0..3)


def _lam(st, v):
    a = st.deref(v)
    return [_T.to_z3(_T.to_real(a.get((k,)))) for k in range(4)]


def _own(mk, a, names):
    own = mk.st.ghost["own"]
    return all(getattr(getattr(a, n), "id", 0) == getattr(own[n], "id", 1) for n in names)


def _mc_at_call(mk, a):
    lam = _lam(mk.st, a.lambdas)
    mk.ctx.oblige(mk.st, "pre.moment_constraints.solvers_own_moments_grid_and_twiddle_factors", _own(mk, a, ("twiddle_factors", "moments", "direction_increment")))
    return mk.st.alloc(_Arr((4,), lambda ix, lam=lam: MCF(_T.to_z3(ix[0]), *lam), (), "real", "F"), "F")


def _dist_at_call(mk, a):
    lam = _lam(mk.st, a.lagrange_multiplier)
    mk.ctx.oblige(mk.st, "pre.mem2_directional_distribution.solvers_own_grid_and_twiddle_factors", _own(mk, a, ("twiddle_factors", "direction_increment")))
    mk.st.ghost["final_multipliers"] = lam
    N = mk.st.deref(a.direction_increment).shape[0]
    return mk.st.alloc(_Arr((N,), lambda ix, lam=lam: DSF(_T.to_z3(ix[0]), *lam), (), "real", "D"), "D")


def _mem_at_call(mk, a):
    mk.st.ghost["mem_fallback_computed"] = True
    return mk.array("Dmem", mk.st.deref(a.directions_radians).shape)


MC_AT_CALL = CalleeContract(moment_constraints.target, _mc_at_call, note="contract above; here: the residual as a function of the multipliers (other arguments must be the solver's own)")
DIST_AT_CALL = CalleeContract(DIST.target, _dist_at_call, note="C05; here: the distribution as a function of the multipliers")
JAC_AT_CALL = CalleeContract(E + "mem2.py::mem2_jacobian", lambda mk, a: mk.array("J", (4, 4)), note="only its shape is used by this clause")
UPDATE_AT_CALL = CalleeContract(E + "mem2.py::newton_update", lambda mk, a: mk.array("delta", (4,)), assumed=True,
                                note="Newton update: some vector of length 4 (the clause holds for any update; a bad update only prevents convergence)")
MEM_AT_CALL = CalleeContract(E + "mem.py::numba_mem", _mem_at_call, assumed=True, note="fallback value (overwritten); only recorded")
CONFIG_FIELDS = {"max_iter": "int", "rcond": "real", "atol": "real", "max_line_search_depth": "int", "use_mem_when_failing_to_converge": "real"}


def _p_solver(inst):
    def p(mk):
        N = mk.size("N")
        d = {"moments": mk.carray("m", 4), "guess": mk.carray("g", 4), "direction_increment": mk.array("dtheta", (N,)),
             "twiddle_factors": mk.array("tw", (4, N)), "config": mk.record("config", CONFIG_FIELDS) if inst == "config" else None, "approximate": False}
        mk.st.ghost["own"] = d
        return d
    return p


def _residual_inv(ns):
    it = ns.current_iterate
    return And(*[eq(ns.current_func[m], MCF(m, *[_T.to_z3(it[k]) for k in range(4)])) for m in range(4)])


def _converged_exit(a, r):
    if a._ghost.get("mem_fallback_computed"):
        return True                                    # not the converged exit (iteration or line search exhausted)
    lam = a._ghost["final_multipliers"]
    atol = _T.from_float(0.01) if a.config is None else a.config["atol"]
    F = [MCF(m, *lam) for m in range(4)]
    norm = _T.uf("sqrt", sum((f * f for f in F[1:]), F[0] * F[0]))
    N = _n(a.direction_increment)
    return And(norm < atol, forall(0, N, lambda j: eq(r[j], DSF(_T.to_z3(j), *lam))))


SOLVER_INST = [("default", _p_solver("default")), ("config", _p_solver("config"))]
newton_solver = Contract(
    E + "mem2.py::mem2_newton_solver", instances=SOLVER_INST,
    requires=GRID_REQ + [("config", lambda a: True if a.config is None else And(a.config["max_iter"] >= 0, a.config["max_line_search_depth"] >= 0))],
    ensures=[("converged_exit_returns_the_distribution_whose_moment_residual_norm_is_below_atol", _converged_exit)],
    raises={"ValueError": lambda a: False if a.config is None else a.config["use_mem_when_failing_to_converge"] <= 0},
    callees={moment_constraints.target: MC_AT_CALL, DIST.target: DIST_AT_CALL, JAC_AT_CALL.target: JAC_AT_CALL, UPDATE_AT_CALL.target: UPDATE_AT_CALL,
             MEM_AT_CALL.target: MEM_AT_CALL},
    loops={1: LoopContract(invariant=[("current_func_is_the_residual_of_current_iterate", _residual_inv)]),
           2: LoopContract(invariant=[("current_func_is_the_residual_of_current_iterate", _residual_inv)])},
    label="mem2_newton_solver.converged_exit",
)


# ------------------------------------------------------------------ cross-check of the algebra used above against CPython floats
def _calculus_cross_check(tier, seed):
    """The terms of the *real* residual code (moment_constraints executed symbolically, symbolic N) are put in normal form and differentiated
    by pyvc/calculus.py; both the normal form and the derivative are then evaluated numerically for concrete N and random inputs and compared
    with (a) the real compiled moment_constraints and (b) its central differences, and the real mem2_jacobian.  Guards the trusted algebra."""
    import numpy as np
    from pyvc import verify
    from pyvc.replay import resolve
    got = {}

    def probe(a, r):
        got["alg"], got["rows"] = _derivative_analysis(a, r)
        alg = got["alg"]
        got["F"] = [alg.from_term(_T.to_z3(r[1][m])) for m in range(4)]
        got["lam"] = [str(_T.to_z3(a.lagrange_multiplier[n])) for n in range(4)]
        got["mom"] = [str(_T.to_z3(a.moments[n])) for n in range(4)]
        return True
    c = Contract(jacobian.target, params=_p_jac, requires=GRID_REQ, call=_call_jacobian_and_residual, ensures=[("probe", probe)], label="calculus_probe")
    reps = verify.verify_contract("C06", c)
    if "alg" not in got:
        return {"evaluations": 0, "distinct": 0, "failures": [{"what": "symbolic run produced no terms", "error": str(reps[0].error)}], "domain": "-"}
    alg, rows = got["alg"], got["rows"]
    jac, mc = resolve(E + "mem2.py::mem2_jacobian"), resolve(E + "mem2.py::moment_constraints")
    rng = np.random.default_rng(seed + 17)
    fails, evals = [], 0
    for trial in range(6 if tier == "quick" else 40):
        N = int(rng.choice([3, 5, 8, 13]))
        th = np.sort(rng.uniform(0, 2 * np.pi, N))
        tw = np.array([np.cos(th), np.sin(th), np.cos(2 * th), np.sin(2 * th)])
        dth = rng.uniform(0.2, 1.0, N)
        lam, mom = rng.normal(0, 1.5, 4), rng.uniform(-0.8, 0.8, 4)
        env = {"ints": {"N": N}, "consts": {**{got["lam"][k]: lam[k] for k in range(4)}, **{got["mom"][k]: mom[k] for k in range(4)},
                                            **{str(v): float(rng.normal()) for v in alg.dmin.values()}},
               "arrays": {"tw": {(m, j): tw[m, j] for m in range(4) for j in range(N)}, "dtheta": {(j,): dth[j] for j in range(N)}}}
        Jbuf = rng.normal(0, 1, (4, 4))                     # content of the caller's buffer (must not matter; if the code reads it, both sides do)
        env["arrays"]["Jbuf"] = {(m, n): Jbuf[m, n] for m in range(4) for n in range(4)}
        Freal = mc(lam, tw, mom, dth)
        Jreal = jac(lam, tw, dth, Jbuf.copy())
        for m in range(4):
            evals += 1
            v = alg.eval_poly(got["F"][m], env)
            if not np.isclose(v, Freal[m], rtol=1e-9, atol=1e-11):
                fails.append({"what": "normal form of the residual term differs from the compiled residual", "m": m, "N": N, "term": v, "compiled": float(Freal[m])})
        h = 1e-5
        for (m, n, Jp, dp) in rows:
            evals += 1
            e = np.zeros(4)
            e[n] = h
            fd = (mc(lam + e, tw, mom, dth)[m] - mc(lam - e, tw, mom, dth)[m]) / (2 * h)
            dv, jv = alg.eval_poly(dp, env), alg.eval_poly(Jp, env)
            if not np.isclose(dv, fd, rtol=1e-5, atol=1e-8):
                fails.append({"what": "symbolic derivative differs from central differences of the compiled residual", "m": m, "n": n, "N": N, "symbolic": dv, "finite_difference": float(fd)})
            if not np.isclose(jv, Jreal[m, n], rtol=1e-9, atol=1e-11):
                fails.append({"what": "normal form of the Jacobian term differs from the compiled Jacobian", "m": m, "n": n, "N": N, "term": jv, "compiled": float(Jreal[m, n])})
    return {"evaluations": evals, "distinct": evals, "failures": fails[:5], "samples": [],
            "domain": "normal forms / symbolic derivatives of the real residual and Jacobian terms evaluated for N in {3,5,8,13}, random non-uniform grids, multipliers and moments, "
                      "against the compiled functions and their central differences (arbitrary values for the min-shift derivative placeholders)"}


CONTRACTS = [moment_constraints, jacobian, newton_solver]
BOUNDED = [Bounded("fidelity_agreement_equivariance.compiled", bounded_fidelity),
           Bounded("calculus_cross_check", _calculus_cross_check, "engine self-check: the algebra's normal forms and derivatives against CPython floats and the compiled functions")]
TRUSTED = ["pyvc/calculus.py: ring normal form, linearity of finite sums, differentiation rules (d exp = exp; the derivative of the min-shift is an arbitrary real)",
           "convergence of the Newton / scipy iterations and the MEM discretisation error are NOT proved (bounded stand-in on compiled code)"]
EXPLANATION = ("residual formula and Jacobian == d residual / d lambda proved for every N by differentiating the real residual code's term; converged exit of the Newton "
               "solver has residual norm < atol; fidelity, solver agreement and rotation/mirror equivariance are a bounded check on compiled code")
