"""C17 — time conversions denote the same UTC instant for every input representation.

Contracts on the real functions of tools/time.py.  Integers are unbounded; datetimes follow the
abstract model of pyvc/models/dt.py (civil reading L, offset off); ISO parsing itself is an
assumed library contract."""
from pyvc.api import *
from pyvc.run import Lemma, Bounded
import pyvc.models.dt as dt

PROPERTY = "C17"
LEVEL = "proof"
F = "tools/time.py::"


# ------------------------------------------------------------------ native side (executable twin)
def _dt_ns(d):
    import datetime as D
    if d is None:
        return None
    if isinstance(d, D.timedelta):
        return NS({"total": d.total_seconds()})
    if isinstance(d, D.datetime):
        naive = d.replace(tzinfo=None)
        L = (naive - D.datetime(1970, 1, 1)).total_seconds()
        off = None if d.tzinfo is None else d.utcoffset().total_seconds()
        return NS({"L": L, "off": off, "year": d.year, "month": d.month, "day": d.day})
    import numpy as np
    if isinstance(d, np.datetime64):
        unit = np.datetime_data(d.dtype)[0]
        return NS({"count": int(d.astype("int64")), "unit": unit})
    if isinstance(d, (list, np.ndarray)):
        return [_dt_ns(x) for x in d]
    if isinstance(d, str):
        return NS({"text": d})
    return d


def _mk_native_dt(f):
    import datetime as D
    base = D.datetime(1970, 1, 1) + D.timedelta(seconds=float(f["L"]))
    if f.get("off") is None:
        return base
    return base.replace(tzinfo=D.timezone(D.timedelta(seconds=float(f["off"]))))


def _native_time(kw, inst):
    """model inputs -> the `time` argument of the real functions, per instance"""
    import datetime as D
    import numpy as np
    t = kw.get("time")
    if inst == "none":
        return {"time": None}
    if inst in ("aware", "naive"):
        return {"time": _mk_native_dt(t)}
    if inst in ("int", "float"):
        return {"time": t}
    if inst.startswith("datetime64"):
        return {"time": np.datetime64(int(t["count"]), t["unit"])}
    if inst in ("strZ", "str_offset", "str_naive"):
        d = _mk_native_dt({"L": t["L"], "off": (0 if inst == "strZ" else t.get("off"))})
        s = d.replace(tzinfo=None).isoformat()
        if inst == "strZ":
            s += "Z"
        elif inst == "str_offset":
            s = d.isoformat()
        return {"time": s}
    if inst == "unknown":
        return {"time": {"a": 1}}
    if inst == "list3":
        return {"time": [_mk_native_dt(t[0]), _mk_native_dt(t[1]), t[2]]}
    raise KeyError(inst)


def _valid_off(off):
    # UTC offsets -12h .. +14h in whole minutes (covers the DST-style half/quarter hours)
    return And(off >= -12 * 3600, off <= 14 * 3600, mod(off, 60) == 0)


def _range_L(L):
    # 1970 .. 2100
    return And(L >= 0, L <= 4102444800)


# ------------------------------------------------------------------ packed integers
time_from_timeint = Contract(
    F + "time_from_timeint",
    params=lambda mk: {"t": mk.int("t")},
    requires=[("nonneg", lambda a: a.t >= 0)],
    ensures=[
        ("hhmmss", lambda a, r: implies(a.t >= 10000, eq(r.total, floordiv(a.t, 10000) * 3600 + floordiv(mod(a.t, 10000), 100) * 60 + mod(a.t, 100)))),
        ("hhmm", lambda a, r: implies(And(a.t >= 100, a.t < 10000), eq(r.total, floordiv(a.t, 100) * 3600 + mod(a.t, 100) * 60))),
        ("hh", lambda a, r: implies(a.t < 100, eq(r.total, a.t * 3600))),
    ],
    post_native=_dt_ns,
    witness=[lambda: ("", {"t": 201813}), lambda: ("", {"t": 10000}), lambda: ("", {"t": 100}), lambda: ("", {"t": 7}),
             lambda: ("", {"t": 2359})],
)


def _valid_packed_date(t):
    m, d = mod(floordiv(t, 100), 100), mod(t, 100)
    return And(Or(And(t >= 0, t <= 991231), And(t >= 10000101, t <= 99991231)), m >= 1, m <= 12, d >= 1, d <= 31)


date_from_dateint = Contract(
    F + "date_from_dateint",
    params=lambda mk: {"t": mk.int("t")},
    requires=[("valid_packed_date", lambda a: _valid_packed_date(a.t))],
    ensures=[
        ("yyyymmdd", lambda a, r: implies(a.t >= 10000101, And(eq(r.year, floordiv(a.t, 10000)), eq(r.month, mod(floordiv(a.t, 100), 100)), eq(r.day, mod(a.t, 100))))),
        ("yymmdd", lambda a, r: implies(a.t <= 991231, And(eq(r.year, 2000 + floordiv(a.t, 10000)), eq(r.month, mod(floordiv(a.t, 100), 100)), eq(r.day, mod(a.t, 100))))),
        ("utc", lambda a, r: eq(r.off, 0)),
    ],
    raises={"ValueError": lambda a: mod(a.t, 100) > 28},   # the calendar may reject day 29..31
    post_native=_dt_ns,
    witness=[lambda: ("", {"t": 20221109}), lambda: ("", {"t": 221109}), lambda: ("", {"t": 101}), lambda: ("", {"t": 991231}),
             lambda: ("", {"t": 10000101})],
)


def _civil(y, m, d):
    if is_symbolic(y, m, d):
        import pyvc.terms as T
        return dt.CIVIL(T.to_z3(y), T.to_z3(m), T.to_z3(d))
    import datetime as D
    return (D.date(int(y), int(m), int(d)) - D.date(1970, 1, 1)).days


def _secs_of_timeint(t):
    return If(t >= 10000, floordiv(t, 10000) * 3600 + floordiv(mod(t, 10000), 100) * 60 + mod(t, 100),
              If(t >= 100, floordiv(t, 100) * 3600 + mod(t, 100) * 60, t * 3600))


def _year_of(t):
    return If(t >= 10000101, floordiv(t, 10000), 2000 + floordiv(t, 10000))


datetime_from_ints = Contract(
    F + "datetime_from_time_and_date_integers",
    instances=[("datetime", lambda mk: {"date_int": mk.int("date_int"), "time_int": mk.int("time_int"), "as_datetime64": False}),
               ("datetime64", lambda mk: {"date_int": mk.int("date_int"), "time_int": mk.int("time_int"), "as_datetime64": True})],
    requires=[("valid_packed_date", lambda a: _valid_packed_date(a.date_int)), ("time_nonneg", lambda a: a.time_int >= 0),
              ("after_epoch", lambda a: implies(is_symbolic(a.date_int), _civil(_year_of(a.date_int), mod(floordiv(a.date_int, 100), 100), mod(a.date_int, 100)) >= 0))],
    ensures=[
        ("instant", lambda a, r: And(eq(r.L, _civil(_year_of(a.date_int), mod(floordiv(a.date_int, 100), 100), mod(a.date_int, 100)) * 86400 + _secs_of_timeint(a.time_int)), eq(r.off, 0)), {"datetime"}),
        ("instant64", lambda a, r: eq(r.count, 10**9 * (_civil(_year_of(a.date_int), mod(floordiv(a.date_int, 100), 100), mod(a.date_int, 100)) * 86400 + _secs_of_timeint(a.time_int))), {"datetime64"}),
    ],
    raises={"ValueError": lambda a: mod(a.date_int, 100) > 28},
    post_native=_dt_ns,
    witness=[lambda: ("datetime", {"date_int": 20221109, "time_int": 201813, "as_datetime64": False}),
             lambda: ("datetime64", {"date_int": 221109, "time_int": 2018, "as_datetime64": True})],
)


# ------------------------------------------------------------------ to_datetime_utc
def _p_aware(mk):
    return {"time": mk.obj("time", "datetime", {"L": "real", "off": "int"})}


def _p_naive(mk):
    return {"time": mk.obj("time", "datetime", {"L": "real", "off": None})}


def _inst_of(o):
    """the UTC instant denoted by an abstract datetime namespace"""
    return o.L - (0 if o.off is None else o.off)


def _is_obj(x):
    return hasattr(x, "L")


D64 = {"datetime64_ns", "datetime64_ms", "datetime64_s"}
PER_SEC = {"ns": 10**9, "ms": 1000, "s": 1, "us": 10**6}


def _w(inst, **kw):
    return lambda: (inst, kw)


def _wit_time():
    import datetime as D
    import numpy as np
    tz = D.timezone(D.timedelta(hours=5, minutes=30))
    return [
        _w("none", time=None),
        _w("aware", time=D.datetime(2022, 11, 9, 10, 20, 42, 250000, tzinfo=tz)),
        _w("aware", time=D.datetime(1999, 12, 31, 23, 59, 59, tzinfo=D.timezone(D.timedelta(hours=-12)))),
        _w("naive", time=D.datetime(2022, 11, 9, 10, 20, 42)),
        _w("int", time=1668000000), _w("float", time=1668000000.75),
        _w("datetime64_ns", time=np.datetime64(1668000000123456789, "ns")),
        _w("datetime64_ms", time=np.datetime64(1668000000123, "ms")),
        _w("datetime64_s", time=np.datetime64("2022-11-09T10:20:42")),
        _w("strZ", time="2022-11-09T10:20:42Z"), _w("strZ", time="2022-11-09T10:20:42.500000Z"),
        _w("str_offset", time="2022-11-09T10:20:42+05:30"), _w("str_naive", time="2022-11-09T10:20:42"),
        _w("list3", time=[D.datetime(2022, 11, 9, 10, 20, 42, tzinfo=tz), D.datetime(2001, 1, 1), 12.5]),
        _w("unknown", time={"a": 1}),
    ]


def _a_time_ns(kw):
    """native argument namespace: datetimes/strings of the `time` argument as abstract records"""
    import datetime as D
    t = kw["time"]

    def conv(x):
        if isinstance(x, str):
            z = x.endswith("Z")
            d = D.datetime.fromisoformat(x[:-1] if z else x)
            naive = d.replace(tzinfo=None)
            return NS({"L": (naive - D.datetime(1970, 1, 1)).total_seconds(),
                       "off": 0 if z else (None if d.tzinfo is None else d.utcoffset().total_seconds()), "Z": z})
        if isinstance(x, list):
            return [conv(e) for e in x]
        r = _dt_ns(x)
        return r
    return conv(t)


to_datetime_utc = Contract(
    F + "to_datetime_utc",
    instances=[
        ("none", lambda mk: {"time": None}),
        ("aware", _p_aware),
        ("naive", _p_naive),
        ("int", lambda mk: {"time": mk.int("time")}),
        ("float", lambda mk: {"time": mk.real("time")}),
        ("datetime64_ns", lambda mk: {"time": mk.obj("time", "datetime64", {"count": "int", "unit": "ns"})}),
        ("datetime64_ms", lambda mk: {"time": mk.obj("time", "datetime64", {"count": "int", "unit": "ms"})}),
        ("datetime64_s", lambda mk: {"time": mk.obj("time", "datetime64", {"count": "int", "unit": "s"})}),
        ("strZ", lambda mk: {"time": mk.obj("time", "isostr_in", {"L": "real", "off": None, "Z": True})}),
        ("str_offset", lambda mk: {"time": mk.obj("time", "isostr_in", {"L": "real", "off": "int", "Z": False})}),
        ("str_naive", lambda mk: {"time": mk.obj("time", "isostr_in", {"L": "real", "off": None, "Z": False})}),
        ("list3", lambda mk: {"time": mk.st.alloc([mk.obj("x0", "datetime", {"L": "real", "off": "int"}),
                                                    mk.obj("x1", "datetime", {"L": "real", "off": None}),
                                                    mk.real("x2")], "list")}),
        ("unknown", lambda mk: {"time": mk.st.alloc({"a": 1}, "dict")}),
    ],
    requires=[("offset_range", lambda a: _valid_off(a.time.off), {"aware", "str_offset"}),
              ("offset_range_list", lambda a: _valid_off(a.time[0].off), {"list3"}),
              ("dt64_after_epoch", lambda a: a.time.count >= 0, D64)],
    ensures=[
        ("none", lambda a, r: r is None, {"none"}),
        ("same_instant", lambda a, r: And(eq(_inst_of(r), _inst_of(a.time)), eq(r.off, 0)), {"aware", "naive", "strZ", "str_offset", "str_naive"}),
        ("number_is_epoch_seconds", lambda a, r: And(eq(r.L, a.time), eq(r.off, 0)), {"int", "float"}),
        ("datetime64_whole_seconds", lambda a, r: And(eq(r.L, floordiv(a.time.count, PER_SEC[a.time.unit])), eq(r.off, 0)), D64),
        ("sequence_elementwise", lambda a, r: And(len(r) == 3, eq(_inst_of(r[0]), _inst_of(a.time[0])), eq(r[0].off, 0),
                                                 eq(r[1].L, a.time[1].L), eq(r[1].off, 0), eq(r[2].L, a.time[2]), eq(r[2].off, 0)), {"list3"}),
    ],
    raises={"ValueError": lambda a: isinstance(a.time, dict)},
    native=_native_time,
    post_native=_dt_ns,
    witness=_wit_time(),
    options={"args_ns": lambda kw: {"time": _a_time_ns(kw)}},
)


def _floor_inst(o):
    return floordiv(_inst_of(o), 1)


to_datetime64 = Contract(
    F + "to_datetime64",
    instances=[("none", lambda mk: {"time": None}), ("aware", _p_aware), ("naive", _p_naive), ("float", lambda mk: {"time": mk.real("time")}),
               ("list3", to_datetime_utc.instances[-2][1])],
    requires=[("offset_range", lambda a: _valid_off(a.time.off), {"aware"}),
              ("after_epoch", lambda a: _inst_of(a.time) >= 0, {"aware", "naive"}),
              ("after_epoch_f", lambda a: a.time >= 0, {"float"}),
              ("after_epoch_l", lambda a: And(_valid_off(a.time[0].off), _inst_of(a.time[0]) >= 0, a.time[1].L >= 0, a.time[2] >= 0), {"list3"})],
    ensures=[
        ("none", lambda a, r: r is None, {"none"}),
        ("whole_seconds_ns", lambda a, r: And(r.unit == "ns", eq(r.count, _floor_inst(a.time) * 10**9)), {"aware", "naive"}),
        ("whole_seconds_ns_f", lambda a, r: And(r.unit == "ns", eq(r.count, floordiv(a.time, 1) * 10**9)), {"float"}),
        ("sequence", lambda a, r: And(len(r) == 3, eq(r[0].count, _floor_inst(a.time[0]) * 10**9), eq(r[1].count, floordiv(a.time[1].L, 1) * 10**9),
                                     eq(r[2].count, floordiv(a.time[2], 1) * 10**9), r[0].unit == "ns"), {"list3"}),
    ],
    native=_native_time, post_native=_dt_ns,
    witness=[w for w in _wit_time() if w()[0] in ("none", "aware", "naive", "float", "list3")],
    options={"args_ns": lambda kw: {"time": _a_time_ns(kw)}},
)


def _roundtrip_call(interp, st, fv, args):
    """to_datetime_utc(to_datetime64(x)) executed on the real bodies of both functions"""
    from pyvc.values import FuncVal
    x64 = interp.call_function(st, fv, [], dict(args))
    back = interp.module_attr(st, fv.module, "to_datetime_utc")
    return interp.call_function(st, back, [x64], {})


def _roundtrip_native(kw, inst):
    from ocean_science_utilities.tools.time import to_datetime64, to_datetime_utc
    return to_datetime_utc(to_datetime64(**kw))


roundtrip64 = Contract(
    F + "to_datetime64", label="roundtrip_datetime64",
    instances=[("aware", _p_aware), ("naive", _p_naive)],
    requires=[("offset_range", lambda a: _valid_off(a.time.off), {"aware"}), ("after_epoch", lambda a: _inst_of(a.time) >= 0)],
    ensures=[("same_whole_second", lambda a, r: And(eq(r.L, _floor_inst(a.time)), eq(r.off, 0)))],
    call=_roundtrip_call, native=_native_time, post_native=_dt_ns,
    witness=[w for w in _wit_time() if w()[0] in ("aware", "naive")],
    options={"native_call": _roundtrip_native, "args_ns": lambda kw: {"time": _a_time_ns(kw)}},
)


def _iso_post(s):
    import datetime as D
    if s is None:
        return None
    d = D.datetime.strptime(s, "%Y-%m-%dT%H:%M:%S.%fZ")
    return NS({"L": (d - D.datetime(1970, 1, 1)).total_seconds(), "off": None, "Z": s.endswith("Z"), "fmt": "%Y-%m-%dT%H:%M:%S.%fZ"})


iso_string = Contract(
    F + "datetime_to_iso_time_string",
    instances=[("none", lambda mk: {"time": None}), ("aware", _p_aware), ("naive", _p_naive), ("float", lambda mk: {"time": mk.real("time")})],
    requires=[("offset_range", lambda a: _valid_off(a.time.off), {"aware"})],
    ensures=[("none", lambda a, r: r is None, {"none"}),
             ("spells_utc_instant", lambda a, r: And(eq(r.L, _inst_of(a.time)), r.Z, r.fmt == "%Y-%m-%dT%H:%M:%S.%fZ"), {"aware", "naive"}),
             ("spells_utc_instant_f", lambda a, r: And(eq(r.L, a.time), r.Z), {"float"})],
    native=_native_time, post_native=_iso_post,
    witness=[w for w in _wit_time() if w()[0] in ("none", "aware", "naive", "float")],
    options={"args_ns": lambda kw: {"time": _a_time_ns(kw)}},
)


def _iso_roundtrip_call(interp, st, fv, args):
    s = interp.call_function(st, fv, [], dict(args))
    back = interp.module_attr(st, fv.module, "to_datetime_utc")
    return interp.call_function(st, back, [s], {})


def _iso_roundtrip_native(kw, inst):
    from ocean_science_utilities.tools.time import datetime_to_iso_time_string, to_datetime_utc
    return to_datetime_utc(datetime_to_iso_time_string(**kw))


iso_roundtrip = Contract(
    F + "datetime_to_iso_time_string", label="roundtrip_iso_string",
    instances=[("aware", _p_aware), ("naive", _p_naive)],
    requires=[("offset_range", lambda a: _valid_off(a.time.off), {"aware"})],
    ensures=[("same_instant", lambda a, r: And(eq(r.L, _inst_of(a.time), atol=1e-6), eq(r.off, 0)))],
    call=_iso_roundtrip_call, native=_native_time, post_native=_dt_ns,
    witness=[w for w in _wit_time() if w()[0] in ("aware", "naive")],
    options={"native_call": _iso_roundtrip_native, "args_ns": lambda kw: {"time": _a_time_ns(kw)}},
)

CONTRACTS = [time_from_timeint, date_from_dateint, datetime_from_ints, to_datetime_utc, to_datetime64, roundtrip64,
             iso_string, iso_roundtrip]
TRUSTED = ["datetime/np.datetime64 library contracts of pyvc/models/dt.py (replace, astimezone, fromtimestamp, timestamp, fromisoformat parses what the text spells)",
           "days_from_civil is an uninterpreted function: calendar arithmetic of datetime(y,m,d) is not re-proved"]
EXPLANATION = "packed-integer decoders proved for all integers; type dispatch of to_datetime_utc proved per representation over the abstract datetime model"
