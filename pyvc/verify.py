"""Verification driver: contract -> symbolic execution -> named obligations -> solvers."""
import ast
import multiprocessing as mp
import os
import time
import traceback
from fractions import Fraction
import z3
from . import terms as T
from . import source, lib
from .terms import Unsupported, is_sym
from .values import Ref, Arr, CArr, Obj, FuncVal, sym_array, ExcVal
from .interp import Interp, State, Env, Explorer, PyRaise, Slice
from .api import NS, Contract, CalleeContract
from .loops import LoopContract


# --------------------------------------------------------------------------- wrappers
class AW:
    """Array wrapper for contract clauses."""

    def __init__(self, st, arr, wrapper=None):
        self._st, self._a, self._w = st, arr, wrapper

    def __len__(self):
        n = self._a.shape[0]
        if not isinstance(n, int):
            raise TypeError("len() of an array of symbolic length: use .n")
        return n

    @property
    def shape(self):
        return self._a.shape

    @property
    def n(self):
        return self._a.shape[0]

    def __getitem__(self, idx):
        if not isinstance(idx, tuple):
            idx = (idx,)
        idx = tuple(T.add(self._a.shape[k], i) if isinstance(i, int) and i < 0 else i for k, i in enumerate(idx))
        v = self._a.get(idx)
        if self._w is not None and not (T.is_num(v) or T.is_boolish(v)):
            return self._w(v)
        return v


class OW:
    def __init__(self, ctx, interp, st, obj):
        self._c, self._i, self._st, self._o = ctx, interp, st, obj

    def __getattr__(self, name):
        if name.startswith("__") or name in ("_c", "_i", "_st", "_o"):
            raise AttributeError(name)
        o = self._o
        if name in o.fields:
            return wrap(self._c, self._i, self._st, o.fields[name])
        raise AttributeError(name)


def wrap(ctx, interp, st, v):
    d = st.deref(v)
    if isinstance(d, Arr):
        return AW(st, d, lambda v: wrap(ctx, interp, st, v))
    if isinstance(d, tuple):
        return tuple(wrap(ctx, interp, st, x) for x in d)
    if isinstance(d, list):
        return [wrap(ctx, interp, st, x) for x in d]
    if isinstance(d, dict):
        return {k: wrap(ctx, interp, st, x) for k, x in d.items()}
    if isinstance(d, Obj):
        return OW(ctx, interp, st, d)
    return d


# --------------------------------------------------------------------------- parameter maker
class Mk:
    """Builds symbolic arguments and remembers how to read them back from a model."""

    def __init__(self, st, sizes=None):
        self.st = st
        self.obs = {}    # name -> descriptor for model extraction
        self.sizes = sizes   # None, or {name or '*': concrete int} for the small-size refuter

    def size(self, name):
        """array dimension: symbolic (>= 0 is up to the contract's requires) unless the refuter
        fixed it to a small concrete value"""
        if self.sizes is not None:
            n = self.sizes.get(name, self.sizes.get("*"))
            if n is not None:
                self.obs[name] = ("const", n)
                return n
        return self.int(name)

    def int(self, name):
        v = z3.Int(name)
        self.obs[name] = ("int", v)
        return v

    def real(self, name):
        v = z3.Real(name)
        self.obs[name] = ("real", v)
        return v

    def bool(self, name):
        v = z3.Bool(name)
        self.obs[name] = ("bool", v)
        return v

    def const(self, name, value):
        self.obs[name] = ("const", value)
        return value

    def array(self, name, shape, sort="real"):
        """sort: 'real' | 'int' | 'bool' | 'xreal' (reals that may be NaN)"""
        a = sym_array(name, tuple(shape), sort)
        self.obs[name] = ("array", a.func, tuple(shape), sort)
        return self.st.alloc(a, name)

    def carray(self, name, n, sort="real"):
        """array of concrete length n with symbolic cells"""
        mkc = z3.Real if sort == "real" else z3.Int
        cells = [mkc(f"{name}_{k}") for k in range(n)]
        self.obs[name] = ("carray", cells, sort)
        return self.st.alloc(CArr((n,), {(k,): c for k, c in enumerate(cells)}, sort), name)

    def obj(self, name, cls, fields):
        """abstract object (model class `cls`) with symbolic / concrete fields"""
        f = {}
        for k, kind in fields.items():
            if isinstance(kind, str) and kind == "int":
                f[k] = self.int(f"{name}.{k}")
            elif isinstance(kind, str) and kind == "real":
                f[k] = self.real(f"{name}.{k}")
            elif isinstance(kind, str) and kind == "bool":
                f[k] = self.bool(f"{name}.{k}")
            else:
                f[k] = kind
                self.obs[f"{name}.{k}"] = ("const", kind)
        self.obs[f"{name}.__cls__"] = ("const", cls)
        return self.st.alloc(Obj(cls, f), name)

    def instance(self, target, fields):
        """object of a repository class (methods resolve along its real MRO), fields given"""
        mod, node, _ = source.locate(target)
        cls = self.interp.module_attr(self.st, mod, node.name)
        return self.st.alloc(Obj(cls, dict(fields)), node.name)

    def record(self, name, fields):
        """dict with concrete string keys -> symbolic values (numba typed dicts, parameters)"""
        d = {}
        for k, kind in fields.items():
            if kind == "real":
                d[k] = self.real(f"{name}.{k}")
            elif kind == "int":
                d[k] = self.int(f"{name}.{k}")
            elif isinstance(kind, tuple) and kind[0] == "array":
                d[k] = self.array(f"{name}.{k}", kind[1], kind[2] if len(kind) > 2 else "real")
            else:
                d[k] = kind
        self.obs[name] = ("record", list(fields))
        return self.st.alloc(d, name)


# --------------------------------------------------------------------------- obligations
class Obligation:
    def __init__(self, name, hyps, goal, meta=None):
        self.name, self.hyps, self.goal, self.meta = name, list(hyps), goal, dict(meta or {})
        self.status = None       # discharged / refuted / undecided
        self.backend = None
        self.time = 0.0
        self.model = None
        self.reason = ""

    def formulas(self, extra_trig=False, instantiate=False):
        fs = self._formulas(extra_trig=extra_trig, instantiate=instantiate)
        if self.meta.get("abstract_int_mod"):
            fs = T.abstract_int_mod(fs)       # sound for unsat; a model is a candidate only (see _has_abstractions)
        return fs

    def _formulas(self, extra_trig=False, instantiate=False):
        g = self.goal
        fs = list(self.hyps)
        mono = bool(self.meta.get("sum_monotone"))
        if not isinstance(g, bool):
            sk_hyps, g = T.skolemize(T.to_z3(g))
            fs += sk_hyps
        fs.append(z3.Not(T.to_z3(g)) if not isinstance(g, bool) else z3.BoolVal(not g))
        if instantiate:
            if instantiate == "hoisted":
                # ground instances at all index terms, nested quantifiers hoisted (several rounds)
                fs += T.instantiate_hoisted(fs)
                fs += T.sum_axioms(fs, monotone=mono)
                fs += T.ext_axioms(fs)
                fs += T.theory_axioms(fs, extra_trig=extra_trig)
                return fs
            # lemma-schema instances for the Sum applications of the goal (they introduce skolem
            # indices), then ground instances of the quantified hypotheses at the (few) index terms
            # now in play, then lemma instances again for the Sum applications those exposed
            done, seen = set(), set()
            base = list(fs)
            for _ in range(3):
                # congruence chains only (no sign instances: they multiply the Sum applications)
                ax = T.sum_axioms(fs, done=done, signs=False, monotone=mono)
                inst = T.ematch(base, fs + ax, seen, cap=200, per_hyp=24)
                fs += ax + inst
                if not ax and not inst:
                    break
            if instantiate != "lean":
                fs += T.sum_axioms(fs, done=done, signs=True, pairs=False)
            fs += T.ext_axioms(fs)
            ta = T.theory_axioms(fs, extra_trig=extra_trig)
            fs += ta
            if extra_trig:
                fs += T.theory_axioms(fs, extra_trig=True)      # second round: periodicity of the applications the first round introduced
            return fs
        done = set()
        for _ in range(2):
            ax = T.sum_axioms(fs, done=done, monotone=mono)
            if not ax:
                break
            fs += ax
        fs += T.ext_axioms(fs)
        fs += T.theory_axioms(fs, extra_trig=extra_trig)
        return fs


class Ctx:
    def __init__(self, prop, contract, registry, options=None):
        self.prop = prop
        self.contract = contract
        self.registry = registry       # target -> Contract / CalleeContract (for call sites)
        self.obligations = []
        self.check_bounds = bool((options or {}).get("check_bounds", False))
        self.inlined = {}
        self.by_contract = {}
        self.assumed = set()
        self.escapes = []
        self.fn_node = None
        self.loop_nodes = {}
        self.instance = ""
        self.prefix = ""
        self.interp = None
        self.mk = None
        self.argnames = []

    # ---- hooks used by the interpreter
    def callee_contract(self, fv):
        tgt = self._target_of(fv)
        cc = self.contract.callees.get(tgt)
        if cc is None:
            cc = self.contract.callees.get(fv.qualname)
        if isinstance(cc, dict):                      # per-instance callee contracts: {instance label: contract}
            cc = cc.get(self.instance)
        if cc is None or cc == "inline":
            return None
        return _CalleeApply(self, cc, tgt)

    def _target_of(self, fv):
        if fv.module is None:
            return fv.qualname
        rel = os.path.relpath(fv.module.path, os.path.join(source.src_root(), source.PKG))
        return f"{rel}::{fv.qualname}"

    def note_inlined(self, fv):
        tgt = self._target_of(fv)
        if tgt not in self.inlined and fv.module is not None:
            self.inlined[tgt] = source.fingerprint(fv.module, fv.node)

    def note_write(self, ref):
        pass

    def loop_contract(self, node):
        k = self.loop_nodes.get(id(node))
        if k is None or self.contract_node_id != self.current_fn_id():
            return None
        per = self.contract.options.get("loop_invariants", {}).get(self.instance)
        if per is not None:
            return per.get(k)
        return self.contract.loops.get(k)

    def current_fn_id(self):
        return self.contract_node_id

    def loop_name(self, node):
        return f"inv{self.loop_nodes.get(id(node), '?')}"

    def namespace(self, interp, state, extra=None):
        d = {}
        e = state.env
        chain = []
        while e is not None:
            chain.append(e)
            e = e.parent
        for e in reversed(chain):
            for k, v in e.vars.items():
                try:
                    d[k] = wrap(self, interp, state, v)
                except Exception:
                    pass
        for k, v in (extra or {}).items():
            d[k] = v
        d["old"] = self.old_ns
        return NS(d)

    def oblige(self, state, name, goal, meta=None):
        full = f"{self.prefix}.{name}"
        if self.contract.options.get("solver"):
            meta = {**(meta or {}), "solver": self.contract.options["solver"]}
        if self.contract.options.get("sum_monotone"):
            meta = {**(meta or {}), "sum_monotone": True}
        for opt in ("nl_factor_order", "argmax_congruence"):
            if self.contract.options.get(opt):
                meta = {**(meta or {}), opt: self.contract.options[opt]}
        ob = Obligation(full, state.pc, goal, meta)
        if goal is True:
            # decided by evaluation on this path (no solver needed); still counted
            ob.status, ob.backend, ob.reason = "discharged", "evaluation", "goal reduced to True during symbolic execution"
        self.obligations.append(ob)

    def escape(self, state, exc, where):
        self.escapes.append((state, exc, where))
        self._judge_raise(state, exc)

    def _judge_raise(self, state, exc):
        typ = exc.typ if isinstance(exc, ExcVal) else getattr(getattr(exc, "cls", None), "qualname", "Exception")
        allowed = None
        for k, fn in self.contract.raises.items():
            if k == typ or lib.ExcType(typ).issub(k):
                allowed = fn
                break
        if allowed is None:
            self.oblige(state, f"raises.none[{typ}]", False, {"exception": repr(exc)})
        else:
            cond = allowed(self.args_ns(state))
            self.oblige(state, f"raises.{typ}", cond, {"exception": repr(exc)})

    def args_ns(self, state):
        ns = NS({k: wrap(self, self.interp, state, v) for k, v in self.args.items()})
        if getattr(self, "old_ns", None) is not None:
            ns.__dict__["old"] = self.old_ns      # exceptional postconditions may relate to the pre-state
        return ns


class _CalleeApply:
    def __init__(self, ctx, cc, tgt):
        self.ctx, self.cc, self.tgt = ctx, cc, tgt

    def apply(self, interp, st, fv, args, kwargs):
        ctx, cc = self.ctx, self.cc
        env = interp.bind(st, fv, args, kwargs)
        a = NS({k: wrap(ctx, interp, st, v) for k, v in env.items()})
        raw = NS(env)
        if isinstance(cc, Contract):
            # a repository function verified under its own contract elsewhere in this property
            res_builder = cc.options.get("result")
            if res_builder is None:
                raise Unsupported(f"contract of {self.tgt} cannot be used at call sites (no result builder)")
            reqs, enss, assumed = cc.requires, cc.ensures, False
        else:
            res_builder, reqs, enss, assumed = cc.result, cc.requires, cc.ensures, cc.assumed
        for label, fn in reqs:
            ctx.oblige(st, f"pre.{fv.qualname}.{label}", fn(a))
        # exceptional exits the callee's contract allows (its own `raises` clause is verified against its body):
        # a nondeterministic choice at the call site, so that the caller's handlers are explored
        may_raise = cc.options.get("may_raise", ()) if isinstance(cc, Contract) else getattr(cc, "may_raise", ())
        for exc in may_raise:
            if interp.explorer is None:
                raise Unsupported("callee that may raise outside exploration")
            ctx.by_contract[self.tgt] = {"assumed": assumed, "note": getattr(cc, "note", "")}
            if interp.explorer.decide(T.Fresh.bool("raises_" + exc)):
                raise PyRaise(ExcVal(exc, ()))
        mkc = MkCall(st)
        mkc.ctx, mkc.interp = ctx, interp        # result builders may emit call-site obligations (ctx.oblige)
        res = res_builder(mkc, raw)
        r = wrap(ctx, interp, st, res)
        for label, fn in enss:
            st.assume(T.to_z3(fn(a, r)))
        ctx.by_contract[self.tgt] = {"assumed": assumed, "note": getattr(cc, "note", "")}
        if assumed:
            ctx.assumed.add(self.tgt)
        return res


class MkCall(Mk):
    """fresh symbols for callee results (never read back from models)"""

    def int(self, name):
        return T.Fresh.int(name)

    def real(self, name):
        return T.Fresh.real(name)

    def bool(self, name):
        return T.Fresh.bool(name)

    def array(self, name, shape, sort="real"):
        return self.st.alloc(sym_array(T.Fresh.name(name), tuple(shape), sort), name)


def number_loops(fn_node):
    out = {}
    k = 0

    def walk(body):
        nonlocal k
        for s in body:
            if isinstance(s, (ast.For, ast.While)):
                k += 1
                out[id(s)] = k
                walk(s.body)
                walk(s.orelse)
            elif isinstance(s, (ast.If,)):
                walk(s.body)
                walk(s.orelse)
            elif isinstance(s, ast.With):
                walk(s.body)
            elif isinstance(s, ast.Try):
                walk(s.body)
                for h in s.handlers:
                    walk(h.body)
                walk(s.orelse)
                walk(s.finalbody)
    walk(fn_node.body)
    return out


class FunctionReport:
    def __init__(self, target, instance):
        self.target, self.instance = target, instance
        self.fingerprint = None
        self.paths = 0
        self.obligations = []
        self.error = None       # unsupported(...) -> undecided
        self.not_found = False
        self.inlined = {}
        self.by_contract = {}
        self.stats = {}
        self.lib_used = []
        self.canary = None
        self.dropped = []


def verify_contract(prop, contract, registry=None, options=None, sizes=None, only_instance=None):
    """Symbolically executes every instance of a contract; returns [FunctionReport] with
    undischarged obligations (solve() discharges them)."""
    reports = []
    for label, params in contract.instances:
        if only_instance is not None and label != only_instance:
            continue
        rep = FunctionReport(contract.target, label)
        rep.label = contract.short
        reports.append(rep)
        try:
            mod, node, cls = source.locate(contract.target)
        except (KeyError, FileNotFoundError) as e:
            rep.not_found = True
            rep.error = str(e)
            continue
        rep.fingerprint = source.fingerprint(mod, node)
        rep.dropped = sorted({ast.unparse(d).split("(")[0] for d in node.decorator_list})
        ctx = Ctx(prop, contract, registry or {}, {**contract.options, **(options or {})})
        ctx.prefix = f"{prop}.{contract.short}" + (f"[{label}]" if label else "")
        ctx.loop_nodes = number_loops(node)
        ctx.contract_node_id = id(node)
        ctx.instance = label
        interp = Interp(ctx)
        ctx.interp = interp
        lib.CUR_INTERP[0] = interp
        lib.USED.clear()
        lib.OPTIONS["finite_reals"] = bool(contract.options.get("finite_reals"))
        st = State()
        st.env = Env(module=mod)
        mk = Mk(st, sizes)
        mk.interp = interp
        ctx.mk = mk
        try:
            args = params(mk)
            ctx.args = args
            mk.obs["__args__"] = {k_: describe(st, v_) for k_, v_ in args.items()}
            a0 = NS({k: wrap(ctx, interp, st, v) for k, v in args.items()})
            for req in contract.requires:
                lab, fn = req[0], req[1]
                if len(req) > 2 and label not in req[2]:
                    continue
                st.assume(T.to_z3(fn(a0)))
            old_snapshot = st.snapshot()
            ctx.old_ns = NS({k: wrap(ctx, interp, old_snapshot, v) for k, v in args.items()})
            # canary: the assumptions must be satisfiable
            s = z3.Solver()
            s.set("timeout", 10000)
            s.add(*st.pc)
            s.add(*T.theory_axioms(st.pc))
            cr = s.check()
            rep.canary = str(cr)
            fv = FuncVal(mod, node, contract.short, cls=None)
            if contract.call is not None:
                thunk = lambda: contract.call(interp, st, fv, args)
            else:
                thunk = lambda: interp.call_function(st, fv, [], dict(args))
            ctx.contract_self = contract
            # the function under verification is executed from its body, not its own contract
            saved = contract.callees.pop(contract.target, None)
            results = Explorer(interp, st).run(thunk)
            if saved is not None:
                contract.callees[contract.target] = saved
            rep.paths = len(results)
            for pi, (snap, kind, payload) in enumerate(results):
                if kind in ("ok", "return"):
                    a = NS({k: wrap(ctx, interp, snap, v) for k, v in args.items()})
                    a.__dict__["old"] = ctx.old_ns
                    a.__dict__["_pc"] = list(snap.pc)
                    a.__dict__["_ghost"] = dict(snap.ghost)
                    a.__dict__["_snap"] = snap            # the path's final state (for frame / identity clauses)
                    a.__dict__["_raw"] = dict(args)       # unwrapped argument values (references)
                    a.__dict__["_result_raw"] = payload
                    r = wrap(ctx, interp, snap, payload)
                    for ens in contract.ensures:
                        lab, fn = ens[0], ens[1]
                        if len(ens) > 2 and label not in ens[2]:
                            continue
                        g = fn(a, r)
                        ctx.oblige(snap, f"post.{lab}", g, {"path": pi})
                elif kind == "raise":
                    ctx._judge_raise(snap, payload)
                else:
                    raise Unsupported(f"path ends with {kind}")
            if not results:
                rep.error = "no feasible path (vacuous precondition?)"
        except Unsupported as e:
            rep.error = f"unsupported: {e}"
        except PyRaise as e:
            rep.error = f"unsupported: exception outside exploration {e.exc}"
        rep.obligations = ctx.obligations
        rep.inlined = ctx.inlined
        rep.by_contract = ctx.by_contract
        rep.stats = dict(interp.stats)
        rep.lib_used = sorted(lib.USED)
        rep.mk = mk
        rep.ctx = ctx
    return reports


# --------------------------------------------------------------------------- discharge
_OBLS = []


def _model_value(m, v):
    try:
        x = m.eval(v, model_completion=True)
    except Exception:
        return None
    if z3.is_int_value(x):
        return x.as_long()
    if z3.is_rational_value(x):
        return [x.numerator_as_long(), x.denominator_as_long()]
    if z3.is_algebraic_value(x):
        a = x.approx(20)
        return [a.numerator_as_long(), a.denominator_as_long()]
    if z3.is_true(x):
        return True
    if z3.is_false(x):
        return False
    return str(x)


def describe(st, v):
    """structure of an argument value, for reading a counterexample back from a model"""
    d = st.deref(v)
    if is_sym(d):
        if d.eq(T.INF):
            return ("const", "inf")
        return ("sym", d)
    if isinstance(d, CArr):
        return ("carray", list(d.shape), {",".join(map(str, k)): describe(st, x) for k, x in d.data.items()})
    if isinstance(d, Arr):
        if getattr(d, "func", None) is not None and not d.ups:
            if getattr(d, "nanfunc", None) is not None:
                return ("xarray", d.func, tuple(d.shape), d.nanfunc)
            return ("array", d.func, tuple(d.shape), d.sort)
        return ("opaque", "array")
    if isinstance(d, dict):
        return ("dict", {k: describe(st, x) for k, x in d.items()})
    if isinstance(d, tuple):
        return ("tuple", [describe(st, x) for x in d])
    if isinstance(d, list):
        return ("list", [describe(st, x) for x in d])
    if isinstance(d, Obj):
        return ("obj", d.cls if isinstance(d.cls, str) else getattr(d.cls, "qualname", "object"),
                {k: describe(st, x) for k, x in d.fields.items()})
    if d is None or isinstance(d, (int, str, bool)):
        return ("const", d)
    if isinstance(d, Fraction):
        return ("const", [d.numerator, d.denominator])
    return ("opaque", type(d).__name__)


def _read(m, desc):
    import itertools
    kind = desc[0]
    if kind == "sym":
        return _model_value(m, desc[1])
    if kind == "const":
        return desc[1]
    if kind == "carray":
        return {"shape": desc[1], "cells": {k: _read(m, x) for k, x in desc[2].items()}}
    if kind in ("array", "xarray"):
        f, shape = desc[1], desc[2]
        dims = []
        for sh in shape:
            sv = sh if isinstance(sh, int) else _model_value(m, sh)
            if not isinstance(sv, int) or sv < 0 or sv > 64:
                return None
            dims.append(sv)
        cells = {}
        for k in itertools.product(*[range(n) for n in dims]):
            cells[",".join(map(str, k))] = _model_value(m, f(*[z3.IntVal(i) for i in k]))
            if kind == "xarray" and _model_value(m, desc[3](*[z3.IntVal(i) for i in k])) is True:
                cells[",".join(map(str, k))] = "nan"
        return {"shape": dims, "cells": cells}
    if kind == "dict":
        return {k: _read(m, x) for k, x in desc[1].items()}
    if kind == "tuple":
        return {"__tuple__": [_read(m, x) for x in desc[1]]}
    if kind == "list":
        return [_read(m, x) for x in desc[1]]
    if kind == "obj":
        r = {k: _read(m, x) for k, x in desc[2].items()}
        r["__cls__"] = desc[1]
        return r
    if kind == "opaque":
        return {"__opaque__": str(desc[1])}      # no native counterpart: a replay of this input is not meaningful
    return None


def _extract_model(m, obs):
    args = obs.get("__args__")
    if args is None:
        return {}
    out = {k: _read(m, d) for k, d in args.items()}
    out["__argnames__"] = list(args)
    return out


_DEADLINE = [None]


def _z3_retry(fs, timeout_ms, seeds=(0, 7, 13, 29)):
    """the same query under several random seeds with a short budget each: queries that are solved
    in a fraction of a second under one seed can diverge under another (unstable heuristics); an
    `unsat` under any seed is an `unsat`"""
    per = max(1500, int(timeout_ms / len(seeds)))
    last = (z3.unknown, None)
    for sd in seeds:
        r, s = _z3_check(fs, per, seed=sd)
        if r != z3.unknown:
            return r, s
        last = (r, s)
    return last


def _z3_check(fs, timeout_ms, seed=None):
    """one z3 query; never longer than what is left of the obligation's total budget (the parent
    process additionally kills a worker that overruns: some tactics ignore the soft timeout)"""
    if _DEADLINE[0] is not None:
        left = (_DEADLINE[0] - time.time()) * 1000
        if left < 200:
            return z3.unknown, None
        timeout_ms = min(timeout_ms, left)
    s = z3.Solver()
    s.set("timeout", int(timeout_ms))
    if seed is not None:
        s.set("random_seed", int(seed))
    s.add(*fs)
    try:
        r = s.check()
    except z3.Z3Exception:
        r = z3.unknown
    return r, s


def _solve_one(args):
    """Strategy: z3 (short budget) -> z3 with the Pythagorean instances (if trig occurs) ->
    z3 on the nonlinear abstraction (sound for unsat) -> z3 full budget -> cvc5.
    `refuted` needs a model of the *un-abstracted* formulas."""
    idx, timeout_ms = args
    ob, obs = _OBLS[idx]
    t0 = time.time()
    T.NL_ORDER[0] = ob.meta.get("nl_factor_order", "id")      # workers are reused: set for every obligation
    T.ARGMAX_CONGRUENCE[0] = ob.meta.get("argmax_congruence", "syntactic")
    _DEADLINE[0] = t0 + 2.0 * timeout_ms / 1000.0     # total budget of this obligation over all strategies
    attempts = []
    model = None
    try:
        fs = ob.formulas(extra_trig=False)
    except Exception as e:
        return (idx, "undecided", "none", time.time() - t0, None, f"encoding error: {type(e).__name__}: {e}")
    trig = _has_trig(fs)
    nonlinear = _has_nonlinear(fs)
    short = min(4000, timeout_ms)
    hint = ob.meta.get("hint")
    if hint:
        # the strategy that discharged this obligation on the pristine tree (contracts/Cxx.hints.json, written only
        # by --update-expected) goes first: any `unsat` is sound whichever strategy finds it, so the hint affects
        # time and stability only.  Anything but `unsat` falls through to the full sequence below.
        try:
            rh = _hinted(ob, hint, trig, timeout_ms)
            attempts.append(f"hint:{hint}={rh}")
            if rh == z3.unsat:
                backend = "cvc5" if hint == "cvc5" else ("z3+nl-abstraction" if "nl-abstraction" in hint else ("z3+instantiation" if ("inst" in hint or "hoisted" in hint) else "z3"))
                return (idx, "discharged", backend, time.time() - t0, None, " ".join(attempts))
        except Exception as e:
            attempts.append(f"hint-error={type(e).__name__}:{e}")
    if ob.meta.get("solver") == "abstract-first":
        # deep nonlinear terms (unrolled iterations): hypotheses instantiated at the skolem constants, formulas
        # normalised by z3's simplifier, products/quotients abstracted (sound for unsat) -- before the plain attempt
        try:
            fi0 = [z3.simplify(f) for f in ob.formulas(extra_trig=trig, instantiate=True)]
            r0, _ = _z3_check(T.abstract_nonlinear(fi0), min(timeout_ms, 15000))
            attempts.append(f"z3[inst+simplify+nl-abstraction]={r0}")
            if r0 == z3.unsat:
                return (idx, "discharged", "z3+nl-abstraction", time.time() - t0, None, " ".join(attempts))
        except Exception as e:
            attempts.append(f"nl-abstraction-error={type(e).__name__}:{e}")
    if nonlinear:
        # products of symbolic terms: the abstraction (sound for unsat) is tried first, it is the
        # robust route; the exact nonlinear engine comes afterwards
        try:
            r0, _ = _z3_retry(T.abstract_nonlinear(fs), min(timeout_ms, 12000))
            attempts.append(f"z3[nl-abstraction]={r0}")
            if r0 == z3.unsat:
                return (idx, "discharged", "z3+nl-abstraction", time.time() - t0, None, " ".join(attempts))
            # second stage: products of >= 3 factors additionally tied to a symmetric (order-independent) abstraction
            r0s, _ = _z3_retry(T.abstract_nonlinear(fs, symmetric=True), min(timeout_ms, 8000), seeds=(0, 7))
            attempts.append(f"z3[nl-abstraction+sym]={r0s}")
            if r0s == z3.unsat:
                return (idx, "discharged", "z3+nl-abstraction", time.time() - t0, None, " ".join(attempts))
        except Exception as e:
            attempts.append(f"nl-abstraction-error={type(e).__name__}:{e}")
    abstracted = _has_abstractions(fs)
    r, s = _z3_check(fs, short)
    attempts.append(f"z3={r}")
    if r == z3.unsat:
        return (idx, "discharged", "z3", time.time() - t0, None, " ".join(attempts))
    if r == z3.sat:
        model = _extract_model(s.model(), obs)
        if not trig and not abstracted:
            return (idx, "refuted", "z3", time.time() - t0, model, " ".join(attempts))
    if trig:
        fst = ob.formulas(extra_trig=True)
        r2, s2 = _z3_check(fst, timeout_ms)
        attempts.append(f"z3[trig]={r2}")
        if r2 == z3.unsat:
            return (idx, "discharged", "z3", time.time() - t0, None, " ".join(attempts))
        if r2 == z3.sat:
            model = _extract_model(s2.model(), obs)
            if not abstracted:
                return (idx, "refuted", "z3", time.time() - t0, model, " ".join(attempts))
        fs = fst
    # A model of formulas that mention Sum / Max / Argmax / uninterpreted transcendental functions is only a
    # model of an abstraction (their axioms are instantiated on demand): it is kept as a *candidate* and the
    # unsat-seeking strategies below still run; the candidate is reported only if none of them succeeds, and
    # is then subject to replay on the real code.
    try:
        fl = ob.formulas(extra_trig=trig, instantiate="lean")
        r8, s8 = _z3_retry(fl, min(timeout_ms, 8000))
        attempts.append(f"z3[inst-lean]={r8}")
        if r8 == z3.unsat:
            return (idx, "discharged", "z3+instantiation", time.time() - t0, None, " ".join(attempts))
        if model is None or not nonlinear:
            pass
        r9, _ = _z3_check(T.abstract_nonlinear(fl), min(timeout_ms, 8000)) if nonlinear else (z3.unknown, None)
        if nonlinear:
            attempts.append(f"z3[inst-lean+nl-abstraction]={r9}")
            if r9 == z3.unsat:
                return (idx, "discharged", "z3+nl-abstraction", time.time() - t0, None, " ".join(attempts))
        fi = ob.formulas(extra_trig=trig, instantiate=True)
        r6, s6 = _z3_check(fi, min(timeout_ms, 10000))
        attempts.append(f"z3[inst]={r6}")
        if r6 == z3.unsat:
            return (idx, "discharged", "z3+instantiation", time.time() - t0, None, " ".join(attempts))
        if r6 == z3.sat and model is None:
            model = _extract_model(s6.model(), obs)
        if nonlinear:
            r7, _ = _z3_check(T.abstract_nonlinear(fi), min(timeout_ms, 15000))
            attempts.append(f"z3[inst+nl-abstraction]={r7}")
            if r7 == z3.unsat:
                return (idx, "discharged", "z3+nl-abstraction", time.time() - t0, None, " ".join(attempts))
    except Exception as e:
        attempts.append(f"inst-error={type(e).__name__}:{e}")
    try:
        # the ground part of the hoisted-instantiation problem alone (quantified hypotheses dropped: sound for
        # unsat).  Quantifier-free, so z3 runs its complete arithmetic procedures (integer / to_int reasoning is
        # weak next to quantifiers).
        fh = ob.formulas(extra_trig=trig, instantiate="hoisted")
        fg = [f for f in fh if T.quantifier_free(f)]
        try:
            r10, _ = _z3_check(T.abstract_nonlinear(fg), min(timeout_ms, 25000))
        except z3.Z3Exception as e:
            r10 = f"error({e})"
        attempts.append(f"z3[hoisted-ground+nl-abstraction]={r10}")
        if r10 == z3.unsat:
            return (idx, "discharged", "z3+nl-abstraction", time.time() - t0, None, " ".join(attempts))
        r11, _ = _z3_check(fg, min(timeout_ms, 6000))
        attempts.append(f"z3[hoisted-ground]={r11}")
        if r11 == z3.unsat:
            return (idx, "discharged", "z3+instantiation", time.time() - t0, None, " ".join(attempts))
    except Exception as e:
        attempts.append(f"hoisted-error={type(e).__name__}:{e}")
    if model is None and timeout_ms > short:
        r4, s4 = _z3_check(fs, timeout_ms)
        attempts.append(f"z3[full]={r4}")
        if r4 == z3.unsat:
            return (idx, "discharged", "z3", time.time() - t0, None, " ".join(attempts))
        if r4 == z3.sat:
            model = _extract_model(s4.model(), obs)
    if model is None:
        try:
            r5 = _cvc5_check(fs, min(timeout_ms, 15000))
            attempts.append(f"cvc5={r5[:40]}")
            if r5 == "unsat":
                return (idx, "discharged", "cvc5", time.time() - t0, None, " ".join(attempts))
        except Exception as e:
            attempts.append(f"cvc5-error={type(e).__name__}")
    if model is not None:
        return (idx, "refuted", "z3", time.time() - t0, model, " ".join(attempts) + (" (model of an abstraction: candidate only)" if abstracted else ""))
    return (idx, "undecided", "none", time.time() - t0, None, " ".join(attempts))


def _hinted(ob, tag, trig, timeout_ms):
    """one strategy of _solve_one, selected by the tag it leaves in the attempts string"""
    if tag == "z3[inst+simplify+nl-abstraction]":
        return _z3_check(T.abstract_nonlinear([z3.simplify(f) for f in ob.formulas(extra_trig=trig, instantiate=True)]), min(timeout_ms, 15000))[0]
    if tag == "z3[nl-abstraction]":
        return _z3_retry(T.abstract_nonlinear(ob.formulas(extra_trig=False)), min(timeout_ms, 12000))[0]
    if tag == "z3[nl-abstraction+sym]":
        return _z3_retry(T.abstract_nonlinear(ob.formulas(extra_trig=False), symmetric=True), min(timeout_ms, 12000))[0]
    if tag == "z3":
        return _z3_retry(ob.formulas(extra_trig=False), min(timeout_ms, 8000))[0]
    if tag in ("z3[trig]", "z3[full]"):
        return _z3_check(ob.formulas(extra_trig=trig), timeout_ms)[0]
    if tag == "z3[inst-lean]":
        return _z3_retry(ob.formulas(extra_trig=trig, instantiate="lean"), min(timeout_ms, 12000))[0]
    if tag == "z3[inst-lean+nl-abstraction]":
        return _z3_retry(T.abstract_nonlinear(ob.formulas(extra_trig=trig, instantiate="lean")), min(timeout_ms, 12000))[0]
    if tag == "z3[inst]":
        return _z3_check(ob.formulas(extra_trig=trig, instantiate=True), min(timeout_ms, 10000))[0]
    if tag == "z3[inst+nl-abstraction]":
        return _z3_check(T.abstract_nonlinear(ob.formulas(extra_trig=trig, instantiate=True)), min(timeout_ms, 15000))[0]
    if tag in ("z3[hoisted-ground+nl-abstraction]", "z3[hoisted-ground]"):
        fg = [f for f in ob.formulas(extra_trig=trig, instantiate="hoisted") if T.quantifier_free(f)]
        return _z3_check(T.abstract_nonlinear(fg) if "nl" in tag else fg, min(timeout_ms, 25000))[0]
    if tag == "cvc5":
        r = _cvc5_check(ob.formulas(extra_trig=trig), min(timeout_ms, 15000))
        return z3.unsat if r == "unsat" else z3.unknown
    return z3.unknown


def winning_strategy(reason):
    """tag of the strategy that returned unsat, from an obligation's attempts string"""
    for tok in reversed((reason or "").split()):
        if tok.endswith("=unsat"):
            t = tok[:-len("=unsat")]
            return t[5:] if t.startswith("hint:") else t
    return None


def _has_abstractions(fs):
    defined = T.defined_function_ids()
    ufs = {f.get_id() for f in list(T.UF1.values()) + list(T.UF2.values())} | {T.MOD_ABS_SYM.get_id()}
    for f in fs:
        for x in T.subterms(f).values():
            if z3.is_app(x) and x.num_args() > 0:
                d = x.decl().get_id()
                if d in defined or d in ufs:
                    return True
    return False


def _has_nonlinear(fs):
    for f in fs:
        for x in T.subterms(f).values():
            if z3.is_app(x):
                k = x.decl().kind()
                if k == z3.Z3_OP_MUL:
                    if sum(1 for c in x.children() if not (z3.is_rational_value(c) or z3.is_int_value(c))) >= 2:
                        return True
                elif k == z3.Z3_OP_DIV and not (z3.is_rational_value(x.arg(1)) or z3.is_int_value(x.arg(1))):
                    return True
    return False


def _has_trig(fs):
    for f in fs:
        for x in T.subterms(f).values():
            if z3.is_app(x) and x.decl().name() in ("u_sin", "u_cos") and x.num_args() == 1:
                return True
    return False


def _cvc5_check(fs, timeout_ms):
    import subprocess
    import tempfile
    s = z3.Solver()
    s.add(*fs)
    txt = s.to_smt2()
    txt = "(set-logic ALL)\n" + txt
    with tempfile.NamedTemporaryFile("w", suffix=".smt2", delete=False, dir=os.environ.get("TMPDIR", "/tmp")) as f:
        f.write(txt)
        p = f.name
    try:
        out = subprocess.run(["/usr/bin/cvc5", f"--tlimit={timeout_ms}", p], capture_output=True, text=True,
                             timeout=timeout_ms / 1000 + 10)
        return out.stdout.strip().split("\n")[0] if out.stdout else "error"
    finally:
        os.unlink(p)


def _worker(idx, timeout_ms, conn):
    try:
        res = _solve_one((idx, timeout_ms))
    except Exception as e:
        res = (idx, "undecided", "none", 0.0, None, f"worker exception {type(e).__name__}: {e}")
    try:
        conn.send(res)
    finally:
        conn.close()


def _run_pool(indices, timeout_ms, procs):
    ctxm = mp.get_context("fork")
    hard = 2.0 * timeout_ms / 1000.0 + 20.0
    pending = list(indices)
    running = {}
    results = {}
    while pending or running:
        while pending and len(running) < procs:
            i = pending.pop(0)
            pc, cc = ctxm.Pipe(duplex=False)
            p = ctxm.Process(target=_worker, args=(i, timeout_ms, cc), daemon=True)
            p.start()
            cc.close()
            running[i] = (p, pc, time.time())
        done = []
        for i, (p, pc, t0) in running.items():
            got = None
            try:
                if pc.poll(0):
                    got = pc.recv()
            except (EOFError, OSError):
                got = (i, "undecided", "none", time.time() - t0, None, "worker died without a result")
            if got is None and time.time() - t0 > hard:
                p.kill()
                got = (i, "undecided", "none", time.time() - t0, None, f"killed after {hard:.0f}s (budget exceeded)")
            if got is None and not p.is_alive():
                try:
                    got = pc.recv() if pc.poll(0.2) else (i, "undecided", "none", time.time() - t0, None, "worker died without a result")
                except (EOFError, OSError):
                    got = (i, "undecided", "none", time.time() - t0, None, "worker died without a result")
            if got is not None:
                results[i] = got
                done.append(i)
        for i in done:
            p, pc, _ = running.pop(i)
            p.join(timeout=1)
            pc.close()
        if not done:
            time.sleep(0.01)
    return results


def solve(reports, timeout_ms=20000, procs=None, hints=None):
    """Discharges all obligations: one forked process per obligation (z3 terms are inherited, every
    worker starts from the same parent state, so verdicts do not depend on scheduling), at most
    `procs` at a time, each killed by the parent if it overruns its total budget."""
    global _OBLS
    _OBLS = []
    for rep in reports:
        for ob in rep.obligations:
            if ob.status is None:
                if hints and ob.name in hints:
                    ob.meta["hint"] = hints[ob.name]
                _OBLS.append((ob, rep.mk.obs))
    n = len(_OBLS)
    if n == 0:
        return
    procs = procs or 16
    results = _run_pool(list(range(n)), timeout_ms, procs)
    # second pass for obligations that ran out of time (killed / unknown without a candidate model): they are re-run a few at a
    # time with a larger budget once the pool has drained, so that a verdict does not depend on how busy the machine was
    again = [i for i, r in results.items() if r[1] == "undecided" and r[4] is None and not str(r[5]).startswith("encoding error")]
    if again and len(again) <= 24:
        second = _run_pool(again, int(timeout_ms * 1.5), min(4, procs))
        for i, r in second.items():
            if r[1] != "undecided":
                results[i] = (r[0], r[1], r[2], r[3] + results[i][3], r[4], str(results[i][5]) + " || second pass: " + str(r[5]))
            else:
                results[i] = (r[0], r[1], r[2], r[3] + results[i][3], r[4], str(results[i][5]) + " || second pass: " + str(r[5]))
    for idx, status, backend, dt, model, reason in results.values():
        ob = _OBLS[idx][0]
        ob.status, ob.backend, ob.time, ob.model, ob.reason = status, backend, dt, model, reason
