#!/bin/bash
# Builds /verif/.venv: Python 3.12 with z3-solver, cvc5, jsonschema from the offline
# wheelhouse, plus a .pth that exposes the repository's own dependencies (/venv).
set -e
cd "$(dirname "$0")"
if [ -x .venv/bin/python ] && .venv/bin/python -c "import z3, numpy, xarray, jsonschema" 2>/dev/null; then
  echo "venv ok"; exit 0
fi
rm -rf .venv
/venv/bin/python -m venv --without-pip .venv
SP=.venv/lib/python3.12/site-packages
/venv/bin/python -m pip install --no-index --find-links /opt/veriftools/wheels --target "$SP" -q \
   z3-solver cvc5 jsonschema sympy mpmath >/dev/null
echo "import site; site.addsitedir('/venv/lib/python3.12/site-packages')" > "$SP/zz_repo_deps.pth"
.venv/bin/python -c "import z3, numpy, xarray, jsonschema; print('venv built', z3.get_version_string())"
