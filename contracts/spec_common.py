"""Shared builders for the spectrum properties (C01-C04, C12): symbolic spectra over the xarray model,
native reconstruction of counterexamples, and the spec functions taken from the property statements."""
from fractions import Fraction
from pyvc.api import *
import pyvc.models.xr as xr
import pyvc.terms as T
from pyvc.values import Obj, Arr

S = "wavespectra/spectrum.py::"
NAME_F, NAME_D, NAME_E = "frequency", "direction", "variance_density"
P = "time"   # the collapsed leading (space/time) dimension; its coordinate is the time stamp


def _xa(mk, dims, arr, nan=None, coords=None):
    return xr.mk_xa(mk.st, dims, mk.st.deref(arr), mk.st.deref(nan) if nan is not None else None,
                    {k: mk.st.deref(v) for k, v in (coords or {}).items()})


def spectrum(mk, kind="1d", nan=True, moments=True, via_init=False):
    """symbolic spectrum object of the real class; leading dims collapsed into one (P = 'time', a coordinate)"""
    npnt, nf = mk.size("np"), mk.size("nf")
    f = mk.array("f", (nf,))
    tcoord = mk.array("time", (npnt,))
    lead = {P: tcoord}
    coords = {P: tcoord, NAME_F: f}
    vs = {}
    if kind == "1d":
        E = mk.array("E", (npnt, nf))
        En = mk.array("E_nan", (npnt, nf), "bool") if nan else None
        vs[NAME_E] = _xa(mk, (P, NAME_F), E, En, coords)
        if moments:
            for m in ("a1", "b1", "a2", "b2"):
                vs[m] = _xa(mk, (P, NAME_F), mk.array(m, (npnt, nf)), mk.array(m + "_nan", (npnt, nf), "bool") if nan else None, coords)
        cls = "FrequencySpectrum"
    else:
        nd = mk.size("nd")
        th = mk.array("theta", (nd,))
        coords[NAME_D] = th
        E = mk.array("E", (npnt, nf, nd))
        En = mk.array("E_nan", (npnt, nf, nd), "bool") if nan else None
        vs[NAME_E] = _xa(mk, (P, NAME_F, NAME_D), E, En, coords)
        cls = "FrequencyDirectionSpectrum"
    vs["depth"] = _xa(mk, (P,), mk.array("depth", (npnt,)), mk.array("depth_nan", (npnt,), "bool"), lead)
    for v in ("latitude", "longitude"):
        vs[v] = _xa(mk, (P,), mk.array(v, (npnt,)), None, lead)
    ds = mk.st.alloc(Obj("Dataset", {"vars": vs, "coords": {k: mk.st.deref(v) for k, v in coords.items()}}), "dataset")
    if via_init:
        # constructed by executing the real __init__ chain (so that attributes it sets exist)
        from pyvc import source
        mod, node, _ = source.locate(S + cls)
        cval = mk.interp.module_attr(mk.st, mod, node.name)
        return mk.interp.instantiate(mk.st, cval, [ds], {})
    return mk.instance(S + cls, {"dataset": ds})


# ---------------------------------------------------------------- accessors usable in both modes
class Spec:
    """uniform view of a spectrum argument: symbolic (wrapped Obj) or native (real spectrum object)"""

    def __init__(self, s):
        self.s = s
        self.native = not hasattr(s, "_o")
        if self.native:
            import numpy as np
            self.two_d = NAME_D in s.dataset.coords
            self._E = s.dataset[NAME_E].values
            lead = self._E.shape[:-2] if self.two_d else self._E.shape[:-1]
            self.np_ = int(np.prod(lead)) if lead else 1
            self.f = s.dataset[NAME_F].values
            self.nf = len(self.f)
            self._E = self._E.reshape((self.np_, self.nf, -1) if self.two_d else (self.np_, self.nf))
            if self.two_d:
                self.theta = s.dataset[NAME_D].values
                self.nd = len(self.theta)
        else:
            vs = s.dataset.vars
            self.two_d = NAME_D in s.dataset.coords
            self.f = s.dataset.coords[NAME_F]
            self.nf = self.f.shape[0]
            self.np_ = vs[NAME_E].arr.shape[0]
            if self.two_d:
                self.theta = s.dataset.coords[NAME_D]
                self.nd = self.theta.shape[0]

    def E(self, *ix):
        if self.native:
            return float(self._E[ix])
        return self.s.dataset.vars[NAME_E].arr[ix]

    def E_nan(self, *ix):
        if self.native:
            import math
            return math.isnan(float(self._E[ix]))
        n = self.s.dataset.vars[NAME_E].nan
        return False if n is None else n[ix]

    def var(self, name, *ix):
        if self.native:
            v = self.s.dataset[name].values.reshape((self.np_, -1) if name not in ("depth", "latitude", "longitude", "time") else (self.np_,))
            if name == "time":
                v = v.astype("datetime64[s]").astype("float64")
            return float(v[ix])
        return self.s.dataset.vars[name].arr[ix]

    def var_nan(self, name, *ix):
        if self.native:
            import math
            return math.isnan(self.var(name, *ix))
        n = self.s.dataset.vars[name].nan
        return False if n is None else n[ix]


def fill0(v, isnan):
    if is_symbolic(v, isnan):
        return If(isnan, 0, v)
    return 0.0 if isnan else v


def in_band(f, i, fmin, fmax):
    return And(ge_x(f[i], fmin), lt_x(f[i], fmax))


def ge_x(a, b):
    if is_symbolic(a, b):
        return T.cmp(">=", a, b)
    return a >= b


def lt_x(a, b):
    if is_symbolic(a, b):
        return T.cmp("<", a, b)
    return a < b


def increasing(f, n):
    """strictly increasing grid, stated for all pairs (equivalent to the adjacent form, usable without induction)"""
    if is_symbolic(n) or hasattr(f, "_a"):
        return forall(0, n, lambda i: forall(0, n, lambda j: implies(i < j, f[i] < f[j]), "incj"), "inci")
    return all(f[i] < f[i + 1] for i in range(int(n) - 1))


def result_values(r):
    """values / missing flags of a DataArray result in both modes -> (get(*ix), isnan(*ix))"""
    if hasattr(r, "_o"):
        arr = r.arr
        nn = r.nan
        return (lambda *ix: arr[ix]), (lambda *ix: False if nn is None else nn[ix])
    import numpy as np
    import math
    v = np.asarray(r.values if hasattr(r, "values") else r, dtype="float64")
    v = v.reshape(-1) if v.ndim != 1 else v
    return (lambda *ix: float(v[ix[0]]) if len(ix) == 1 else float(v.reshape(-1)[ix[0]])), (lambda *ix: math.isnan(float(v[ix[0]])))


# ---------------------------------------------------------------- native reconstruction
def native_spectrum(d):
    """model / witness dict of a spectrum argument -> real spectrum object"""
    import numpy as np
    from ocean_science_utilities.wavespectra.spectrum import FrequencySpectrum, FrequencyDirectionSpectrum
    import xarray

    def arr(x, nanx=None):
        a = np.asarray(x, dtype="float64")
        if nanx is not None:
            a = np.where(np.asarray(nanx, dtype=bool), np.nan, a)
        return a
    vs = d["dataset"]["vars"]
    cs = d["dataset"]["coords"]
    f = arr(cs[NAME_F])
    two_d = NAME_D in cs
    E = arr(vs[NAME_E]["arr"], vs[NAME_E].get("nan"))
    npnt = E.shape[0]
    coords = {"time": np.arange(npnt).astype("datetime64[s]"), NAME_F: f}
    data = {}
    if two_d:
        coords[NAME_D] = arr(cs[NAME_D])
        data[NAME_E] = (("time", NAME_F, NAME_D), E)
    else:
        data[NAME_E] = (("time", NAME_F), E)
        for m in ("a1", "b1", "a2", "b2"):
            if m in vs:
                data[m] = (("time", NAME_F), arr(vs[m]["arr"], vs[m].get("nan")))
            else:
                data[m] = (("time", NAME_F), np.full(E.shape, np.nan))
    data["depth"] = (("time",), arr(vs["depth"]["arr"], vs["depth"].get("nan")))
    for v in ("latitude", "longitude"):
        data[v] = (("time",), arr(vs[v]["arr"]))
    if "time" in cs:
        t = np.asarray(cs["time"], dtype="float64")
        if len(np.unique(np.round(t))) == len(t):
            coords["time"] = np.round(t).astype("int64").astype("datetime64[s]")
    ds = xarray.Dataset(data_vars=data, coords=coords)
    return (FrequencyDirectionSpectrum if two_d else FrequencySpectrum)(ds)
