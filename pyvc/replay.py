"""Replay of a counterexample (or of a witness) against the real code.

Runs in its own interpreter:  python -m pyvc.replay <replay.json>
Loads the contract named in the file, builds native arguments from the recorded inputs, calls
the real function from the tree under $OSU_REPO and evaluates the contract's clauses with the
executable twin of the contract vocabulary.  Prints one JSON line."""
import copy
import importlib
import json
import os
import sys
import traceback
from fractions import Fraction


def setup_path():
    repo = os.environ.get("OSU_REPO", "/repo")
    src = os.path.join(repo, "src")
    if src not in sys.path:
        sys.path.insert(0, src)
    here = os.path.dirname(os.path.dirname(os.path.abspath(__file__)))
    if here not in sys.path:
        sys.path.insert(0, here)
    os.environ.setdefault("NUMBA_CACHE_DIR", os.path.join(here, ".cache", "numba"))


def to_native(v):
    import numpy as np
    if isinstance(v, list) and len(v) == 2 and all(isinstance(x, int) and not isinstance(x, bool) for x in v):
        return v[0] / v[1]
    if isinstance(v, dict) and "shape" in v and "cells" in v and len(v) == 2:
        a = np.zeros(v["shape"], dtype="float64")
        for k, x in v["cells"].items():
            idx = tuple(int(i) for i in k.split(",")) if k else ()
            xv = to_native(x)
            a[idx] = xv if isinstance(xv, (int, float)) else (float("nan") if xv == "nan" else 0.0)
        return a
    if isinstance(v, dict) and "__tuple__" in v:
        return tuple(to_native(x) for x in v["__tuple__"])
    if isinstance(v, dict):
        return {k: to_native(x) for k, x in v.items()}
    if isinstance(v, list):
        return [to_native(x) for x in v]
    if v == "inf":
        return float("inf")
    return v


def safe_copy(v):
    import numpy as np
    if isinstance(v, np.ndarray):
        return v.copy()
    if isinstance(v, dict) or (hasattr(v, "items") and hasattr(v, "keys") and not isinstance(v, type)):
        try:
            return {k: safe_copy(x) for k, x in v.items()}
        except Exception:
            return v
    if isinstance(v, tuple):
        return tuple(safe_copy(x) for x in v)
    if isinstance(v, list):
        return [safe_copy(x) for x in v]
    try:
        return copy.deepcopy(v)
    except Exception:
        return v


def generic_native(inputs):
    return {k: to_native(v) for k, v in inputs.items() if not k.startswith("__")}


def resolve(target):
    rel, qual = target.split("::")
    modname = "ocean_science_utilities." + rel[:-3].replace("/", ".")
    mod = importlib.import_module(modname)
    obj = mod
    for p in qual.split("."):
        obj = getattr(obj, p)
    return obj


def find_contract(module, target, label=None):
    m = importlib.import_module(module)
    for c in m.CONTRACTS:
        if c.target == target and (label is None or c.short == label):
            return c
    raise KeyError(target)


def run_case(contract, inputs, instance=""):
    """inputs: model-style dict (or already-native kwargs when inputs.get('__native__'))."""
    from pyvc.api import NS
    res = {"requires": {}, "ensures": {}, "raised": None, "allowed_raise": None}

    def has_opaque(v):
        if isinstance(v, dict):
            return "__opaque__" in v or any(has_opaque(x) for x in v.values())
        if isinstance(v, (list, tuple)):
            return any(has_opaque(x) for x in v)
        return False
    if has_opaque(inputs):
        # abstract placeholders (function-valued or library objects of the symbolic run) cannot be rebuilt natively
        res["harness_error"] = True
        res["raised"] = "inputs contain abstract placeholders without a native counterpart"
        return res
    if inputs.get("__native__"):
        kwargs = {k: v for k, v in inputs.items() if k != "__native__"}
    elif contract.native is not None:
        kwargs = contract.native(generic_native(inputs), instance)
    else:
        kwargs = generic_native(inputs)
    kwargs.pop("__argnames__", None)
    args_ns = contract.options.get("args_ns")
    a = NS(args_ns(safe_copy(kwargs)) if args_ns else safe_copy(kwargs))
    for req in contract.requires:
        lab, fn = req[0], req[1]
        if len(req) > 2 and instance not in req[2]:
            continue
        try:
            res["requires"][lab] = bool(fn(a))
        except Exception as e:
            res["requires"][lab] = f"error: {type(e).__name__}: {e}"
    fn_real = None
    try:
        if contract.options.get("native_call"):
            result = contract.options["native_call"](kwargs, instance)
        else:
            fn_real = resolve(contract.target)
            result = fn_real(**kwargs)
    except Exception as e:
        res["raised"] = f"{type(e).__name__}: {e}"[:600]
        tname = type(e).__name__
        if tname in ("TypingError", "UnsupportedError", "LoweringError") and "TypingError" not in contract.raises:
            res["harness_error"] = True
            res["trace"] = traceback.format_exc()[-1500:]
            return res
        allowed = None
        if contract.options.get("raise_post_state") and args_ns:
            # exceptional postcondition: evaluated on the state the exception leaves behind
            a_exc = NS(args_ns(kwargs))
            a_exc.__dict__["old"] = a
            a = a_exc
        for k, cond in contract.raises.items():
            if k == tname or k in [c.__name__ for c in type(e).__mro__]:
                try:
                    allowed = bool(cond(a))
                except Exception as e2:
                    allowed = f"error: {e2}"
        res["allowed_raise"] = allowed if allowed is not None else False
        res["trace"] = traceback.format_exc()[-1500:]
        return res
    if contract.post_native is not None:
        result = contract.post_native(result)
    a2 = NS(args_ns(kwargs) if args_ns else kwargs)
    a2.__dict__["old"] = a
    for ens in contract.ensures:
        lab, fn = ens[0], ens[1]
        if len(ens) > 2 and instance not in ens[2]:
            continue
        try:
            res["ensures"][lab] = bool(fn(a2, result))
        except Exception as e:
            res["ensures"][lab] = f"error: {type(e).__name__}: {e}"
    try:
        res["result"] = repr(result)[:400]
    except Exception:
        pass
    return res


def verdict(res):
    """'fails' if the real code violates the contract on this input, 'holds', or 'inapplicable'
    (the input does not satisfy the precondition / the twin could not be evaluated)."""
    if any(v is not True for v in res["requires"].values()) or res.get("harness_error"):
        return "inapplicable"
    if res["raised"] is not None:
        return "holds" if res["allowed_raise"] is True else "fails"
    vals = list(res["ensures"].values())
    if any(v is False for v in vals):
        return "fails"
    if any(isinstance(v, str) for v in vals):
        return "inapplicable"
    return "holds"


def main():
    setup_path()
    path = sys.argv[1]
    with open(path) as f:
        rp = json.load(f)
    if rp.get("bounded") and isinstance(rp.get("case"), dict) and rp["case"].get("replay_fn"):
        # a recorded case of a bounded check: re-run it on the current tree with the check's own replay function
        try:
            modname, fname = rp["case"]["replay_fn"].split(":")
            res = getattr(importlib.import_module(modname), fname)(rp["case"])
        except Exception as e:
            res = {"verdict": "error", "error": f"{type(e).__name__}: {e}", "trace": traceback.format_exc()[-2000:]}
        print("REPLAY-RESULT " + json.dumps(res, default=str))
        return 0
    try:
        c = find_contract(rp["contract_module"], rp["target"], rp.get("label"))
        res = run_case(c, rp["inputs"], rp.get("instance", ""))
        res["verdict"] = verdict(res)
    except Exception as e:
        res = {"verdict": "error", "error": f"{type(e).__name__}: {e}", "trace": traceback.format_exc()[-2000:]}
    print("REPLAY-RESULT " + json.dumps(res, default=str))
    return 0


if __name__ == "__main__":
    sys.exit(main())
