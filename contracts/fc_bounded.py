"""Bounded checks for C18 / C19 on the REAL FileCache classes (temporary directories, in-memory
remote with fault injection).  Exhaustive over the stated finite domains; never counted as proved."""
import itertools
import multiprocessing as mp
import os
import random
import shutil
import tempfile

from contracts import fc_world as W

A, B, C, ZZ = W.SCHEME + "a", W.SCHEME + "b", W.SCHEME + "c", W.SCHEME + "zz"
A2 = A + "<<v2"
SIZES = {"a": 1000, "b": 1500, "c": 2000}
# limits that force no eviction / one or many evictions / enlargement by a single request
LIMITS = (10000, 3000, 1800)

GETS = [(A,), (B,), (C,), (A, B), (C, A), (A, B, C), (A2,), (A, A2), (B, ZZ)]
OPS = [("get", g) for g in GETS] + [("remove", A), ("remove", C), ("purge",), ("reopen",), ("touch", A)]


def apply(w, op):
    if op[0] == "get":
        return w.get(op[1])
    if op[0] == "remove":
        return w.remove(op[1])
    if op[0] == "purge":
        return w.purge()
    if op[0] == "reopen":
        return w.reopen()
    if op[0] == "touch":
        return w.touch(op[1])
    raise KeyError(op)


def run_history(job):
    """-> (failures [(clause, detail, step)], outcomes, final listing)"""
    ops, limit, parallel, root = job
    w = W.World(max_bytes=limit, parallel=parallel, sizes=SIZES, root=root)
    fails, outs = [], []
    try:
        bad = W.try_open(w)
        if bad:
            return [(c, d, 0) for c, d in bad], outs, None
        for k, op in enumerate(ops):
            try:
                out, bad = apply(w, op)
            except Exception as e:     # noqa: harness or cache blew up outside a checked place
                fails.append(("operation_raised", f"{op}: {type(e).__name__}: {e}", k + 1))
                break
            outs.append(out)
            fails += [(c, d, k + 1) for c, d in bad]
        listing = {n: len(w.read(n)) for n in w.pattern_files()}
        return fails, outs, listing
    finally:
        w.close()


def _pool_map(fn, jobs):
    n = min(16, os.cpu_count() or 1)
    if len(jobs) < 64 or n == 1:
        return [fn(j) for j in jobs]
    with mp.get_context("fork").Pool(n) as pool:
        return pool.map(fn, jobs, chunksize=max(1, len(jobs) // (n * 8)))


def _summarise(name, results, jobs, describe, domain, known=None):
    """group failures by clause: one reported case (the shortest) per clause, with counts"""
    by = {}
    evaluations = 0
    for job, (fails, outs, _) in zip(jobs, results):
        evaluations += max(1, len(outs))
        for clause, detail, step in fails:
            g = by.setdefault(clause, {"count": 0, "case": None})
            g["count"] += 1
            if g["case"] is None or len(describe(job)) < len(g["case"]["history"]):
                g["case"] = {"clause": clause, "detail": detail, "step": step, "history": describe(job)}
    failures = []
    for clause, g in sorted(by.items()):
        f = dict(g["case"])
        f["failing_cases"] = g["count"]
        f["known_key"] = f"{name}:{clause}"
        f["replay_fn"] = "contracts.fc_bounded:replay_case"
        failures.append(f)
    return {"evaluations": evaluations, "distinct": len(jobs), "failures": failures, "domain": domain,
            "samples": [describe(j) for j in jobs[:2]]}


def _describe(job):
    ops, limit, parallel, _ = job
    return {"kind": "history", "ops": [list(o) for o in ops], "limit": limit, "parallel": parallel}


def histories(tier, seed):
    depth = 3 if tier == "quick" else 4
    root = tempfile.mkdtemp(prefix="fc-hist-")
    try:
        jobs = []
        for limit in LIMITS:
            for ops in itertools.product(OPS, repeat=depth):     # every prefix is checked on the way
                jobs.append((ops, limit, False, root))
                if any(o[0] == "get" and len(o[1]) > 1 for o in ops):
                    jobs.append((ops, limit, True, root))        # parallel mode differs only for several misses
        # long random histories
        rng = random.Random(seed + 18)
        for k in range(40 if tier == "quick" else 400):
            ops = tuple(rng.choice(OPS) for _ in range(25))
            jobs.append((ops, rng.choice(LIMITS), bool(k % 2), root))
        results = _pool_map(run_history, jobs)
        out = _summarise("histories", results, jobs, _describe,
                         f"all operation sequences of length {depth} over {len(OPS)} operations (get of 1..3 URIs from "
                         f"{{a,b,c}} incl. a comment variant and a missing URI, remove, purge, reopen, external touch) x limits "
                         f"{LIMITS} bytes (file sizes 1000/1500/2000: no / one or many evictions / enlargement) x sequential+parallel, "
                         f"plus {40 if tier == 'quick' else 400} random histories of length 25; real FileCache on a temporary directory")
        # sequential and parallel modes give the same results
        idx = {(_key(j)): r for j, r in zip(jobs, results)}
        mism = 0
        first = None
        for j, r in zip(jobs, results):
            if j[2]:
                s = idx.get((j[0], j[1], False))
                if s is not None and (s[1], s[2]) != (r[1], r[2]):
                    mism += 1
                    first = first or _describe(j)
        if mism:
            out["failures"].append({"clause": "parallel_equals_sequential", "history": first, "failing_cases": mism,
                                    "known_key": "histories:parallel_equals_sequential"})
        return out
    finally:
        shutil.rmtree(root, ignore_errors=True)


def _key(job):
    return (job[0], job[1], job[2])


# ----------------------------------------------------------------------------- C19: fault scenarios
FAULTS = ("notfound", "raise_before", "raise_partial", "pp_raise")


def run_fault(job):
    """job = (precached, request, fault position, fault kind, allow_missing, parallel, followup, root)
    request entries are base names; the faulty one carries the directive its fault needs."""
    pre, req, pos, kind, allow, par, follow, root = job
    w = W.World(max_bytes=10000, parallel=par, allow_missing=allow, sizes=SIZES, root=root)
    fails, outs = [], []
    try:
        bad = W.try_open(w)
        if bad:
            return [(c, d, 0) for c, d in bad], outs, None

        def step(k, thunk):
            try:
                out, bad = thunk()
            except Exception as e:     # noqa
                fails.append(("operation_raised", f"step {k}: {type(e).__name__}: {e}", k))
                return False
            outs.append(out)
            fails.extend((c, d, k) for c, d in bad)
            return True
        if pre:
            if not step(1, lambda: w.get([W.SCHEME + x for x in pre])):
                return fails, outs, None
        raws = []
        for i, x in enumerate(req):
            u = W.SCHEME + x
            if i == pos and kind == "pp_raise":
                u = "postprocess=pp:" + u
            if i == pos and kind.startswith("invalid"):
                u = "validate=chk:" + u
            raws.append(u)
        target = W.SCHEME + req[pos]
        if kind.startswith("invalid"):
            # the cached copy is rejected by its validator; the re-download then behaves as stated
            w.invalid.add(target)
            sub = kind.split("+")[1]
            if sub == "ioerror":
                w.validator_raises = True
                sub = "ok"
            if sub != "ok":
                w.faults[target] = sub
        else:
            w.faults[target] = kind
        if not step(2, lambda: w.get(raws)):
            return fails, outs, None
        w.faults.clear()
        w.invalid.clear()
        w.validator_raises = False
        clean = [W.SCHEME + x for x in req]
        if follow == "retry":
            log0 = len(w.log)
            failed_before = W.name_of(target) not in w.model
            if step(3, lambda: w.get(clean)):
                if outs[-1][0] != "ok" or len(outs[-1][1]) != len(req):
                    fails.append(("retry_serves_all", f"retry of {clean} gave {outs[-1]}", 3))
                if failed_before and target not in w.log[log0:]:
                    fails.append(("retry_fetches_afresh", f"{target} failed before but was not fetched again on retry", 3))
        else:
            if step(3, w.reopen):
                if step(4, lambda: w.get(clean)):
                    if outs[-1][0] != "ok" or len(outs[-1][1]) != len(req):
                        fails.append(("reopen_serves_all", f"after reopen {clean} gave {outs[-1]}", 4))
        listing = {n: len(w.read(n)) for n in w.pattern_files()}
        return fails, outs, listing
    finally:
        w.close()


def _describe_fault(job):
    pre, req, pos, kind, allow, par, follow, _ = job
    return {"kind": "fault", "precached": list(pre), "request": list(req), "fault_position": pos, "fault": kind,
            "allow_missing": allow, "parallel": par, "followup": follow}


def faults(tier, seed):
    root = tempfile.mkdtemp(prefix="fc-fault-")
    try:
        jobs = []
        reqs = [r for n in (1, 2, 3) for r in itertools.permutations("abc", n)]
        if tier == "quick":
            reqs = [r for r in reqs if len(r) < 3 or r in (("a", "b", "c"), ("c", "b", "a"))]
        for pre in ((), ("a",), ("b",), ("a", "b")):
            for req in reqs:
                for pos in range(len(req)):
                    cached = req[pos] in pre
                    kinds = ["invalid+ok", "invalid+ioerror", "invalid+notfound", "invalid+raise_before",
                             "invalid+raise_partial"] if cached else list(FAULTS)
                    for kind in kinds:
                        for allow in (True, False):
                            for par in (False, True):
                                if par and len([x for x in req if x not in pre or x == req[pos]]) < 2:
                                    continue
                                for follow in ("retry", "reopen"):
                                    jobs.append((pre, req, pos, kind, allow, par, follow, root))
        results = _pool_map(run_fault, jobs)
        return _summarise("faults", results, jobs, _describe_fault,
                          "every fault kind (not-found, exception before write, exception after a partial write, exception in "
                          "post-processing; for cached URIs: validator rejects / validator raises IOError, then re-download ok / "
                          "not-found / raising before / after partial write) at every position of every request (ordered, 1..3 of "
                          "{a,b,c}) x pre-cached subsets of {a,b} x tolerant/strict missing-file mode x sequential/parallel, each "
                          "followed by (i) a clean retry and (ii) reopening the directory and requesting again; real FileCache")
    finally:
        shutil.rmtree(root, ignore_errors=True)


def replay_case(case):
    """re-runs one recorded bounded case on the current tree -> {'verdict': ..., 'failures': [...]}"""
    root = tempfile.mkdtemp(prefix="fc-replay-")
    try:
        h = case["history"]
        if h["kind"] == "history":
            ops = tuple((o[0], tuple(o[1]) if isinstance(o[1], list) else o[1]) if len(o) > 1 else (o[0],) for o in h["ops"])
            fails, outs, _ = run_history((ops, h["limit"], h["parallel"], root))
        else:
            fails, outs, _ = run_fault((tuple(h["precached"]), tuple(h["request"]), h["fault_position"], h["fault"],
                                        h["allow_missing"], h["parallel"], h["followup"], root))
        hit = [f for f in fails if f[0] == case.get("clause")]
        return {"verdict": "fails" if hit else "holds", "failures": [list(f) for f in fails][:10], "outcomes": outs}
    finally:
        shutil.rmtree(root, ignore_errors=True)
