"""C08 — source terms: sign, support, scaling; bulk rates integrate the spectral rates."""
from pyvc.api import *
from pyvc.run import Lemma, Bounded
from pyvc.api import CalleeContract
from pyvc.terms import Unsupported

PROPERTY = "C08"
LEVEL = "proof"
B = "wavephysics/balance/"

ST4_GEN_PARAMS = ["gravitational_acceleration", "charnock_maximum_roughness", "charnock_constant", "air_density",
                  "water_density", "vonkarman_constant", "wave_age_tuning_parameter", "growth_parameter_betamax",
                  "elevation", "air_viscosity", "viscous_stress_parameter"]


def grid(mk, nf, nd):
    return mk.record("spectral_grid", {"radian_frequency": ("array", (nf,)), "radian_direction": ("array", (nd,)),
                                       "frequency_step": ("array", (nf,)), "direction_step": ("array", (nd,))})


def record(mk, name, fields):
    return mk.record(name, {f: "real" for f in fields})


def positive(rec, fields):
    return And(*[rec[f] > 0 for f in fields])


# assumed contract of the dispersion solver (bounded in C07): positive wavenumbers
def _k_result(mk, a):
    w = mk.st.deref(a.angular_frequency)
    return mk.array("k", w.shape)


K_POS = CalleeContract(
    "wavetheory/lineardispersion.py::inverse_intrinsic_dispersion_relation", _k_result,
    ensures=[("positive", lambda a, r: forall(0, r.n, lambda i: r[i] > 0))],
    assumed=True, note="wavenumber from the Newton solver is positive (sampled in C07)")


def _cg_result(mk, a):
    k = mk.st.deref(a.k)
    return mk.array("cg", k.shape)


CG_POS = CalleeContract(
    "wavetheory/lineardispersion.py::intrinsic_group_velocity", _cg_result,
    ensures=[("positive", lambda a, r: forall(0, r.n, lambda i: r[i] > 0))],
    assumed=True, note="group velocity positive for k,d>0 (formula contract in C07)")

DISP = {K_POS.target: K_POS, CG_POS.target: CG_POS}


# ------------------------------------------------------------------ ST4 wind input (point)
def _st4_point_params(wtype, deep):
    def p(mk):
        nf, nd = mk.size("nf"), mk.size("nd")
        import pyvc.terms as T
        return {"variance_density": mk.array("E", (nf, nd)),
                "wind": (mk.real("U"), mk.real("wdir"), wtype),
                "depth": T.INF if deep else mk.real("depth"),
                "roughness_length": mk.real("z0"),
                "spectral_grid": grid(mk, nf, nd),
                "parameters": record(mk, "parameters", ST4_GEN_PARAMS)}
    return p


def _dims(E):
    return E.shape if hasattr(E, "shape") else None


def _cosm(a, j):
    th = a.spectral_grid["radian_direction"][j]
    wd = a.wind[1]
    if is_symbolic(th, wd):
        import pyvc.terms as T
        return T.uf("cos", th - wd * T.PI / 180)
    import math
    return math.cos(th - wd * math.pi / 180)


def _scaled(a, r, c):
    """result cell under E -> c*E, by substitution of the input symbol in the result term"""
    raise NotImplementedError


def _linear_in_density(a, r):
    """at fixed roughness the wind input is linear in the variance density: S(c*E1 + E2) = c*S(E1) + S(E2).
    Proof side: the result term is re-instantiated with the input array symbol replaced (valid because no
    path condition mentions E: checked); twin side: the real function is called on the combined input."""
    E = a.variance_density
    if hasattr(E, "_a"):
        f = E._a.func
        if any(_T.mentions(_T.to_z3(h), (), {f.get_id()}) for h in a._pc[_N_REQ[0]:] if _T.is_sym(h)):
            return False      # control flow depends on the spectrum: substitution argument not applicable
        c = _z3.Real("lin_c")
        E2 = _z3.Function("E_other", _T.IntS, _T.IntS, _T.RealS)
        v0, v1 = _z3.Var(0, _T.IntS), _z3.Var(1, _T.IntS)

        def cell(i, j):
            t = _T.to_z3(r[i, j])
            t_comb = _T.subst_deep(t, (), [(f, c * f(v0, v1) + E2(v0, v1))])
            t_2 = _T.subst_deep(t, (), [(f, E2(v0, v1))])
            return t_comb == c * t + t_2
        return forall2((0, E.shape[0]), (0, E.shape[1]), cell)
    import numpy as np
    from ocean_science_utilities.wavephysics.balance.st4_wind_input import _st4_wind_generation_point as fn
    rng = np.random.default_rng(3)
    E2 = rng.random(E.shape)
    c = 2.5
    args = (a.wind, a.depth, a.roughness_length, a.spectral_grid, a.parameters)
    lhs = fn(c * np.asarray(E) + E2, *args)
    rhs = c * np.asarray(r) + fn(E2, *args)
    return bool(np.allclose(lhs, rhs, rtol=1e-9, atol=1e-14))


_N_REQ = [5]


st4_point = Contract(
    B + "st4_wind_input.py::_st4_wind_generation_point",
    instances=[(f"{w},{'deep' if d else 'finite'}", _st4_point_params(w, d)) for w in ("u10", "friction_velocity", "ustar") for d in (True, False)],
    requires=[
        ("dims", lambda a: And(a.variance_density.shape[0] >= 0, a.variance_density.shape[1] >= 0)),
        ("nonneg_density", lambda a: forall2((0, a.variance_density.shape[0]), (0, a.variance_density.shape[1]), lambda i, j: a.variance_density[i, j] >= 0)),
        ("positive_parameters", lambda a: positive(a.parameters, ["gravitational_acceleration", "air_density", "water_density", "vonkarman_constant", "growth_parameter_betamax", "elevation"])),
        ("positive_frequencies", lambda a: forall(0, a.variance_density.shape[0], lambda i: a.spectral_grid["radian_frequency"][i] > 0)),
        ("positive_roughness", lambda a: a.roughness_length > 0),
    ],
    ensures=[
        ("nonneg", lambda a, r: forall2((0, a.variance_density.shape[0]), (0, a.variance_density.shape[1]), lambda i, j: r[i, j] >= 0)),
        ("zero_without_energy", lambda a, r: forall2((0, a.variance_density.shape[0]), (0, a.variance_density.shape[1]),
                                                    lambda i, j: implies(a.variance_density[i, j] == 0, r[i, j] == 0))),
        ("zero_upwind", lambda a, r: forall2((0, a.variance_density.shape[0]), (0, a.variance_density.shape[1]),
                                            lambda i, j: implies(_cosm(a, j) <= 0, r[i, j] == 0))),
        ("linear_in_density_at_fixed_roughness", _linear_in_density),
    ],
    raises={},
    callees=dict(DISP),
)



def all2(E, fn):
    return forall2((0, E.shape[0]), (0, E.shape[1]), fn)


def all1(n, fn):
    return forall(0, n, fn)


def arr_result(name, shape_of):
    return lambda mk, a: mk.array(name, shape_of(mk, a))


def _sh(mk, x):
    return mk.st.deref(x).shape


# ------------------------------------------------------------------ integrators (operations.py)
def _p_integrate(mk):
    nf, nd = mk.size("nf"), mk.size("nd")
    return {"data": mk.array("data", (nf, nd)), "grid": grid(mk, nf, nd)}


integrate2d = Contract(
    "wavespectra/operations.py::numba_integrate_spectral_data",
    params=_p_integrate,
    requires=[("dims", lambda a: And(a.data.shape[0] >= 0, a.data.shape[1] >= 0))],
    ensures=[("value", lambda a, r: eq(r, Sum(0, a.data.shape[0], lambda i: Sum(0, a.data.shape[1], lambda j:
              a.data[i, j] * a.grid["frequency_step"][i] * a.grid["direction_step"][j]))))],
)

integrate_dir = Contract(
    "wavespectra/operations.py::numba_directionally_integrate_spectral_data",
    params=_p_integrate,
    requires=[("dims", lambda a: And(a.data.shape[0] >= 0, a.data.shape[1] >= 0))],
    ensures=[("value", lambda a, r: all1(a.data.shape[0], lambda i: eq(r[i], Sum(0, a.data.shape[1], lambda j: a.data[i, j] * a.grid["direction_step"][j]))))],
)


# ------------------------------------------------------------------ ST4 breaking
def _p_band(mk):
    nf, nd = mk.size("nf"), mk.size("nd")
    return {"variance_density": mk.array("E", (nf, nd)), "group_velocity": mk.array("cg", (nf,)), "wavenumber": mk.array("k", (nf,)),
            "radian_direction": mk.array("theta", (nd,)), "direction_step": mk.array("dtheta", (nd,)),
            "number_of_frequencies": nf, "number_of_directions": nd, "integration_width_degrees": mk.real("width"), "cosine_power": 2}


band_saturation = Contract(
    B + "st4_wave_breaking.py::st4_band_integrated_saturation",
    params=_p_band,
    requires=[("dims", lambda a: And(a.number_of_frequencies >= 0, a.number_of_directions >= 0)),
              ("nonneg_density", lambda a: all2(a.variance_density, lambda i, j: a.variance_density[i, j] >= 0)),
              ("positive_cg_k", lambda a: all1(a.number_of_frequencies, lambda i: And(a.group_velocity[i] > 0, a.wavenumber[i] > 0))),
              ("nonneg_steps", lambda a: all1(a.number_of_directions, lambda j: a.direction_step[j] >= 0))],
    ensures=[("nonneg", lambda a, r: all2(a.variance_density, lambda i, j: r[i, j] >= 0))],
    options={"result": lambda mk, a: mk.array("B", _sh(mk, a.variance_density))},
)


def _p_cumulative(mk):
    nf, nd = mk.size("nf"), mk.size("nd")
    return {"variance_density": mk.array("E", (nf, nd)), "saturation": mk.array("Bsat", (nf, nd)),
            "radian_frequency": mk.array("omega", (nf,)), "group_velocity": mk.array("cg", (nf,)),
            "wave_speed": mk.array("c", (nf,)), "radian_direction": mk.array("theta", (nd,)),
            "direction_step": mk.array("dtheta", (nd,)), "frequency_step": mk.array("df", (nf,)),
            "saturation_threshold": mk.real("Bthr"), "cumulative_breaking_constant": mk.real("Ccu"),
            "cumulative_breaking_max_relative_frequency": mk.real("rfmax"),
            "number_of_frequencies": nf, "number_of_directions": nd}


cumulative_breaking = Contract(
    B + "st4_wave_breaking.py::st4_cumulative_breaking",
    params=_p_cumulative,
    requires=[("dims", lambda a: And(a.number_of_frequencies >= 0, a.number_of_directions >= 0)),
              ("nonneg_density", lambda a: all2(a.variance_density, lambda i, j: a.variance_density[i, j] >= 0)),
              ("nonneg_saturation", lambda a: all2(a.variance_density, lambda i, j: a.saturation[i, j] >= 0)),
              ("positive_cg", lambda a: all1(a.number_of_frequencies, lambda i: a.group_velocity[i] > 0)),
              ("nonneg_steps", lambda a: And(all1(a.number_of_directions, lambda j: a.direction_step[j] >= 0), all1(a.number_of_frequencies, lambda i: a.frequency_step[i] >= 0))),
              ("threshold", lambda a: a.saturation_threshold >= 0)],
    ensures=[("nonpos", lambda a, r: all2(a.variance_density, lambda i, j: r[i, j] <= 0)),
             ("zero_without_energy", lambda a, r: all2(a.variance_density, lambda i, j: implies(a.variance_density[i, j] == 0, r[i, j] == 0)))],
    options={"result": lambda mk, a: mk.array("Scu", _sh(mk, a.variance_density))},
)


def _p_satbreak(mk):
    nf, nd = mk.size("nf"), mk.size("nd")
    return {"variance_density": mk.array("E", (nf, nd)), "band_integrated_saturation": mk.array("B", (nf, nd)),
            "radian_frequency": mk.array("omega", (nf,)), "number_of_frequencies": nf, "number_of_directions": nd,
            "saturation_breaking_constant": mk.real("Csat"), "saturation_breaking_directional_control": mk.real("delta"),
            "saturation_threshold": mk.real("Bthr")}


saturation_breaking = Contract(
    B + "st4_wave_breaking.py::st4_saturation_breaking",
    params=_p_satbreak,
    requires=[("dims", lambda a: And(a.number_of_frequencies >= 0, a.number_of_directions >= 0)),
              ("nonneg_density", lambda a: all2(a.variance_density, lambda i, j: a.variance_density[i, j] >= 0)),
              ("positive_frequencies", lambda a: all1(a.number_of_frequencies, lambda i: a.radian_frequency[i] > 0))],
    ensures=[("nonpos", lambda a, r: all2(a.variance_density, lambda i, j: r[i, j] <= 0)),
             ("zero_without_energy", lambda a, r: all2(a.variance_density, lambda i, j: implies(a.variance_density[i, j] == 0, r[i, j] == 0)))],
    options={"result": lambda mk, a: mk.array("Ssat", _sh(mk, a.variance_density))},
)

ST4_BRK_PARAMS = ["saturation_breaking_constant", "saturation_breaking_directional_control", "saturation_cosine_power",
                  "saturation_integration_width_degrees", "saturation_threshold", "cumulative_breaking_constant",
                  "cumulative_breaking_max_relative_frequency"]


def _p_dissipation(fields, deep=False):
    def p(mk):
        nf, nd = mk.size("nf"), mk.size("nd")
        return {"variance_density": mk.array("E", (nf, nd)), "depth": mk.real("depth"),
                "spectral_grid": grid(mk, nf, nd), "parameters": record(mk, "parameters", fields)}
    return p


def _grid_ok(a):
    nf, nd = a.variance_density.shape
    g = a.spectral_grid
    return And(nf >= 0, nd >= 0, all1(nf, lambda i: And(g["radian_frequency"][i] > 0, g["frequency_step"][i] >= 0)),
               all1(nd, lambda j: g["direction_step"][j] >= 0))


DISSIPATION_ENSURES = [
    ("nonpos", lambda a, r: all2(a.variance_density, lambda i, j: r[i, j] <= 0)),
    ("zero_without_energy", lambda a, r: all2(a.variance_density, lambda i, j: implies(a.variance_density[i, j] == 0, r[i, j] == 0))),
    ("zero_for_empty_spectrum", lambda a, r: implies(all2(a.variance_density, lambda i, j: a.variance_density[i, j] == 0),
                                                    all2(a.variance_density, lambda i, j: r[i, j] == 0))),
]

st4_dissipation = Contract(
    B + "st4_wave_breaking.py::st4_dissipation_breaking",
    params=_p_dissipation(ST4_BRK_PARAMS),
    requires=[("grid", _grid_ok),
              ("nonneg_density", lambda a: all2(a.variance_density, lambda i, j: a.variance_density[i, j] >= 0)),
              ("threshold", lambda a: a.parameters["saturation_threshold"] >= 0)],
    ensures=DISSIPATION_ENSURES,
    callees={**DISP, band_saturation.target: band_saturation, cumulative_breaking.target: cumulative_breaking,
             saturation_breaking.target: saturation_breaking},
)

# ------------------------------------------------------------------ ST6
ST6_PARAMS = ["p1", "p2", "a1", "a2", "saturation_threshold"]


def _p_st6_parts(mk):
    nf, nd = mk.size("nf"), mk.size("nd")
    return {"variance_density": mk.array("E", (nf, nd)), "relative_saturation_exceedence": mk.array("rex", (nf,)),
            "spectral_grid": grid(mk, nf, nd), "parameters": record(mk, "parameters", ST6_PARAMS)}


ST6_PART_REQ = [("grid", _grid_ok),
                ("nonneg_density", lambda a: all2(a.variance_density, lambda i, j: a.variance_density[i, j] >= 0)),
                ("nonneg_exceedence", lambda a: all1(a.variance_density.shape[0], lambda i: a.relative_saturation_exceedence[i] >= 0)),
                ("nonneg_coefficients", lambda a: And(a.parameters["a1"] >= 0, a.parameters["a2"] >= 0))]
ST6_PART_ENS = DISSIPATION_ENSURES[:2]

st6_inherent = Contract(B + "st6_wave_breaking.py::st6_inherent", params=_p_st6_parts, requires=ST6_PART_REQ, ensures=ST6_PART_ENS,
                        options={"result": lambda mk, a: mk.array("Sin", _sh(mk, a.variance_density))})
st6_cumulative = Contract(B + "st6_wave_breaking.py::st6_cumulative", params=_p_st6_parts, requires=ST6_PART_REQ, ensures=ST6_PART_ENS,
                          options={"result": lambda mk, a: mk.array("Scu", _sh(mk, a.variance_density))})

st6_dissipation = Contract(
    B + "st6_wave_breaking.py::st6_dissipation",
    params=_p_dissipation(ST6_PARAMS),
    requires=[("grid", _grid_ok),
              ("nonneg_density", lambda a: all2(a.variance_density, lambda i, j: a.variance_density[i, j] >= 0)),
              ("nonneg_coefficients", lambda a: And(a.parameters["a1"] >= 0, a.parameters["a2"] >= 0, a.parameters["saturation_threshold"] > 0))],
    ensures=DISSIPATION_ENSURES,
    callees={**DISP, st6_inherent.target: st6_inherent, st6_cumulative.target: st6_cumulative},
)

# ------------------------------------------------------------------ Romero (strictly positive spectra)
ROMERO_PARAMS = ["saturation_breaking_constant", "saturation_threshold", "saturation_integrated_threshold",
                 "breaking_probability_constant", "gravitational_acceleration"]

romero_dissipation = Contract(
    B + "romero_wave_breaking.py::romero_dissipation_breaking",
    params=_p_dissipation(ROMERO_PARAMS),
    requires=[("grid", _grid_ok),
              ("positive_density", lambda a: all2(a.variance_density, lambda i, j: a.variance_density[i, j] > 0)),
              ("positive_steps", lambda a: all1(a.variance_density.shape[1], lambda j: a.spectral_grid["direction_step"][j] > 0)),
              ("coefficients", lambda a: And(a.parameters["saturation_breaking_constant"] >= 0, a.parameters["saturation_threshold"] >= 0,
                                             a.parameters["saturation_integrated_threshold"] >= 0, a.parameters["breaking_probability_constant"] >= 0,
                                             a.parameters["gravitational_acceleration"] > 0))],
    ensures=DISSIPATION_ENSURES[:1],
    callees=dict(DISP),
)


# ------------------------------------------------------------------ batch wrappers: each point gets its own result
# The point function handed to the batch loops is modelled by an uninterpreted function of the
# cell (i,j), the point index p whose spectrum row was passed, and the scalar inputs of that
# point: PF(i, j, p, speed, direction, depth, z0).  The model checks at every call that the row
# passed is row p of the batch array and that grid / parameters are the caller's own objects.
import z3 as _z3
import pyvc.terms as _T
from pyvc.values import Arr as _Arr, Ref as _Ref

PF = _z3.Function("point_generation", _T.IntS, _T.IntS, _T.IntS, _T.RealS, _T.RealS, _T.RealS, _T.RealS, _T.RealS)
DF = _z3.Function("point_dissipation", _T.IntS, _T.IntS, _T.IntS, _T.RealS, _T.RealS)


def _row_of(st, view, batch):
    """returns p if `view` is syntactically batch[p, :, :] (probed at a generic cell), else None"""
    v, b = st.deref(view), st.deref(batch)
    if not isinstance(v, _Arr) or v.ndim != 2:
        return None
    i, j = _T.Fresh.int("pi"), _T.Fresh.int("pj")
    t = v.get((i, j))
    if _z3.is_app(t) and t.decl().eq(b.func) and t.num_args() == 3 and t.arg(1).eq(i) and t.arg(2).eq(j):
        return t.arg(0)
    return None


class PointFunctionModel:
    """callable handed in as `wind_source_term_function` / `dissipation_source_term_function`"""

    def __init__(self, kind, ctxinfo):
        self.kind, self.info = kind, ctxinfo

    def __call__(self, interp, st, args, kwargs):
        names = ["variance_density", "wind", "depth", "roughness_length", "spectral_grid", "parameters"] if self.kind == "gen" else \
            ["variance_density", "depth", "spectral_grid", "parameters"]
        if len(args) > len(names):
            raise Unsupported("too many arguments to the point function")
        b = dict(zip(names, args))
        for k, v in kwargs.items():
            if k in b or k not in names:
                from pyvc.interp import PyRaise
                from pyvc.values import ExcVal
                raise PyRaise(ExcVal("TypeError", (f"point function: bad argument {k}",)))
            b[k] = v
        if set(b) != set(names):
            from pyvc.interp import PyRaise
            from pyvc.values import ExcVal
            raise PyRaise(ExcVal("TypeError", ("point function: missing argument",)))
        info = self.info
        p = _row_of(st, b["variance_density"], info["E"])
        ctx = interp.ctx
        ctx.oblige(st, "pre.point_function.row_of_batch", p is not None)
        if p is None:
            p = _T.Fresh.int("unknown_row")
        ctx.oblige(st, "pre.point_function.same_grid", st.deref(b["spectral_grid"]) is st.deref(info["grid"]) or
                   _same_grid(st, b["spectral_grid"], info["grid"]))
        ctx.oblige(st, "pre.point_function.same_parameters", _same_params(st, b["parameters"], info["parameters"]))
        E = st.deref(info["E"])
        nf, nd = E.shape[1], E.shape[2]
        if self.kind == "gen":
            w = st.deref(b["wind"])
            ctx.oblige(st, "pre.point_function.wind_type", st.deref(w[2]) == info["wtype"])
            sp, di, de, z0 = (_T.to_real(_T.to_z3(st.deref(x))) for x in (w[0], w[1], b["depth"], b["roughness_length"]))
            return st.alloc(_Arr((nf, nd), lambda ix, p=p, sp=sp, di=di, de=de, z0=z0: PF(_T.to_z3(ix[0]), _T.to_z3(ix[1]), p, sp, di, de, z0)), "pf")
        de = _T.to_real(_T.to_z3(st.deref(b["depth"])))
        return st.alloc(_Arr((nf, nd), lambda ix, p=p, de=de: DF(_T.to_z3(ix[0]), _T.to_z3(ix[1]), p, de)), "df")


def _same_grid(st, g1, g2):
    d1, d2 = st.deref(g1), st.deref(g2)
    if not isinstance(d1, dict) or not isinstance(d2, dict) or set(d1) != set(d2):
        return False
    return all(st.deref(d1[k]) is st.deref(d2[k]) for k in d1)


def _same_params(st, p1, p2):
    d1, d2 = st.deref(p1), st.deref(p2)
    if d1 is d2:
        return True
    if not isinstance(d1, dict) or not isinstance(d2, dict) or set(d1) != set(d2):
        return False
    return And(*[eq(d1[k], d2[k]) if not isinstance(d1[k], str) else d1[k] == d2[k] for k in d1])


def _p_batch(kind, wtype="u10"):
    def p(mk):
        npnt, nf, nd = mk.size("np"), mk.size("nf"), mk.size("nd")
        E = mk.array("E", (npnt, nf, nd))
        g = grid(mk, nf, nd)
        par = record(mk, "parameters", ["p_a", "p_b"])
        info = {"E": E, "grid": g, "parameters": par, "wtype": wtype}
        if kind == "gen":
            return {"variance_density": E, "wind": (mk.array("U", (npnt,)), mk.array("wdir", (npnt,)), wtype),
                    "depth": mk.array("depth", (npnt,)), "roughness_length": mk.array("z0", (npnt,)),
                    "wind_source_term_function": PointFunctionModel("gen", info), "spectral_grid": g, "parameters": par}
        return {"variance_density": E, "depth": mk.array("depth", (npnt,)),
                "dissipation_source_term_function": PointFunctionModel("dis", info), "spectral_grid": g, "parameters": par}
    return p


def _point_native(kw, p, kind):
    """native value of the point function's field for batch member p (executable twin of PF / DF)"""
    f = kw["wind_source_term_function"] if kind == "gen" else kw["dissipation_source_term_function"]
    if kind == "gen":
        return f(kw["variance_density"][p], (float(kw["wind"][0][p]), float(kw["wind"][1][p]), kw["wind"][2]), float(kw["depth"][p]),
                 float(kw["roughness_length"][p]), kw["spectral_grid"], kw["parameters"])
    return f(kw["variance_density"][p], float(kw["depth"][p]), kw["spectral_grid"], kw["parameters"])


def _pf(a, kind, p, i, j):
    E = a.variance_density
    if is_symbolic(p, i, j) or hasattr(E, "_a"):
        if kind == "gen":
            return PF(_T.to_z3(i), _T.to_z3(j), _T.to_z3(p), a.wind[0][p], a.wind[1][p], a.depth[p], a.roughness_length[p])
        return DF(_T.to_z3(i), _T.to_z3(j), _T.to_z3(p), a.depth[p])
    cache = a.__dict__.setdefault("_pfcache", {})
    if p not in cache:
        cache[p] = _point_native(a.__dict__, p, kind)
    return cache[p][i, j]


def _rows_post(kind):
    def post(a, r):
        E = a.variance_density
        return forall(0, E.shape[0], lambda p: forall2((0, E.shape[1]), (0, E.shape[2]), lambda i, j: eq(r[p, i, j], _pf(a, kind, p, i, j))), "p")
    return post


def _bulk_post(kind):
    def post(a, r):
        E = a.variance_density
        g = a.spectral_grid
        return forall(0, E.shape[0], lambda p: eq(r[p], Sum(0, E.shape[1], lambda i: Sum(0, E.shape[2], lambda j:
                      _pf(a, kind, p, i, j) * g["frequency_step"][i] * g["direction_step"][j])), rtol=1e-9, atol=1e-12), "p")
    return post


BATCH_REQ = [("dims", lambda a: And(a.variance_density.shape[0] >= 0, a.variance_density.shape[1] >= 0, a.variance_density.shape[2] >= 0))]

wind_generation_batch = Contract(B + "generation.py::_wind_generation", params=_p_batch("gen"), requires=BATCH_REQ,
                                 ensures=[("rows", _rows_post("gen"))])
bulk_wind_generation_batch = Contract(B + "generation.py::_bulk_wind_generation", params=_p_batch("gen"), requires=BATCH_REQ,
                                      ensures=[("bulk_is_integral_of_rate", _bulk_post("gen"))])
dissipation_batch = Contract(B + "dissipation.py::_dissipation", params=_p_batch("dis"), requires=BATCH_REQ,
                             ensures=[("rows", _rows_post("dis"))])
bulk_dissipation_batch = Contract(B + "dissipation.py::_bulk_dissipation", params=_p_batch("dis"), requires=BATCH_REQ,
                                  ensures=[("bulk_is_integral_of_rate", _bulk_post("dis"))])


def _samples_batch(kind):
    def f(rng, tier):
        import numpy as np
        from ocean_science_utilities.wavephysics.balance.st4_wind_input import _st4_wind_generation_point
        from ocean_science_utilities.wavephysics.balance.st6_wave_breaking import st6_dissipation as _st6
        out = []
        for _ in range(_n(tier, 4, 30)):
            npnt, nf, nd = int(rng.integers(1, 5)), int(rng.integers(1, 5)), int(rng.integers(1, 7))
            E = np.stack([_rand_E(rng, nf, nd) for _ in range(npnt)])
            g = _rand_grid(rng, nf, nd)
            if kind == "gen":
                kw = {"variance_density": E, "wind": (rng.uniform(2, 30, npnt), rng.uniform(0, 360, npnt), "u10"),
                      "depth": rng.uniform(5, 300, npnt), "roughness_length": 10 ** rng.uniform(-5, -2, npnt),
                      "wind_source_term_function": _st4_wind_generation_point, "spectral_grid": g,
                      "parameters": {**_defaults("st4_wind_input.ST4WindInput"), "charnock_maximum_roughness": 1e6}}
            else:
                kw = {"variance_density": E * 30, "depth": rng.uniform(5, 300, npnt), "dissipation_source_term_function": _st6,
                      "spectral_grid": g, "parameters": _defaults("st6_wave_breaking.ST6WaveBreaking")}
            out.append(("", _typed(kw)))
        return out
    return f


for _c, _k in ((wind_generation_batch, "gen"), (bulk_wind_generation_batch, "gen"), (dissipation_batch, "dis"), (bulk_dissipation_batch, "dis")):
    _c.options["samples"] = _samples_batch(_k)

# ------------------------------------------------------------------ class level wiring (rate / bulk_rate / imbalance)
from pyvc.values import LibFunc as _LibFunc, Opaque as _Opaque, sym_array as _sym_array


def _spectrum_stub(mk, name, npnt, nf, nd):
    f = {"variance_density": mk.array(name + "_E", (npnt, nf, nd)), "depth": mk.array(name + "_depth", (npnt,)),
         "radian_frequency": mk.array(name + "_omega", (nf,)), "radian_direction": mk.array(name + "_theta", (nd,)),
         "frequency_step": mk.array(name + "_df", (nf,)), "direction_step": mk.array(name + "_dtheta", (nd,)),
         "dims": _Opaque("dims"), "dims_space_time": _Opaque("dims"), "coords_space_time": _Opaque("coords"),
         "coords": _LibFunc("spectrum.coords", lambda i, s, a, k: _Opaque("coords"))}
    return mk.st.alloc(__import__("pyvc.values", fromlist=["Obj"]).Obj("SpectrumStub", f), name)


def _expected_grid(mk, spec):
    o = mk.st.deref(spec)
    return mk.st.alloc({"radian_frequency": o.fields["radian_frequency"], "radian_direction": o.fields["radian_direction"],
                        "frequency_step": o.fields["frequency_step"], "direction_step": o.fields["direction_step"]}, "grid")


NUMBA_PARAMS = CalleeContract(B + "source_term.py::_numba_parameters", lambda mk, a: mk.st.alloc(dict(mk.st.deref(a.kwargs)), "typed_dict"),
                              assumed=True, note="numba typed dict holds exactly the given key/value pairs")

_Z0R = {}


def _roughness_result(mk, a):
    sp = mk.st.deref(a.speed)
    arr = _sym_array("roughness_from_solver", sp.shape)
    _Z0R["arr"] = arr
    return mk.st.alloc(arr, "z0r")


ROUGHNESS = CalleeContract(B + "generation.py::WindGeneration.roughness", _roughness_result, assumed=True,
                           note="roughness solver result (C10); only its use is checked here")


def _p_rate(given_roughness, wtype="u10"):
    def p(mk):
        npnt, nf, nd = mk.size("np"), mk.size("nf"), mk.size("nd")
        spec = _spectrum_stub(mk, "spectrum", npnt, nf, nd)
        par = record(mk, "parameters", ["p_a", "p_b"])
        info = {"E": mk.st.deref(spec).fields["variance_density"], "grid": _expected_grid(mk, spec), "parameters": par, "wtype": wtype}
        selfv = mk.instance(B + "generation.py::WindGeneration", {"_parameters": par, "_wind_source_term_function": PointFunctionModel("gen", info),
                                                                  "_tail_stress_parametrization_function": _Opaque("tail")})
        return {"self": selfv, "spectrum": spec, "speed": mk.array("U", (npnt,)), "direction": mk.array("wdir", (npnt,)),
                "roughness_length": mk.array("z0", (npnt,)) if given_roughness else None, "wind_speed_input_type": wtype}
    return p


def _z0_of(a, p):
    if a.roughness_length is not None:
        return a.roughness_length[p]
    return _Z0R["arr"].get((p,))


def _rate_post(a, r):
    E = a.spectrum.variance_density
    return forall(0, E.shape[0], lambda p: forall2((0, E.shape[1]), (0, E.shape[2]), lambda i, j: eq(
        r[p, i, j], PF(_T.to_z3(i), _T.to_z3(j), _T.to_z3(p), a.speed[p], a.direction[p], a.spectrum.depth[p], _z0_of(a, p)))), "p")


def _bulk_rate_post(a, r):
    E = a.spectrum.variance_density
    return forall(0, E.shape[0], lambda p: eq(r[p], Sum(0, E.shape[1], lambda i: Sum(0, E.shape[2], lambda j:
        PF(_T.to_z3(i), _T.to_z3(j), _T.to_z3(p), a.speed[p], a.direction[p], a.spectrum.depth[p], _z0_of(a, p))
        * a.spectrum.frequency_step[i] * a.spectrum.direction_step[j]))), "p")


RATE_INST = [("given_roughness", _p_rate(True)), ("solved_roughness", _p_rate(False)), ("given_roughness,ustar", _p_rate(True, "ustar"))]
RATE_REQ = [("dims", lambda a: And(*[d >= 0 for d in a.spectrum.variance_density.shape]))]
RATE_CALLEES = {NUMBA_PARAMS.target: NUMBA_PARAMS, ROUGHNESS.target: ROUGHNESS}

generation_rate = Contract(B + "generation.py::WindGeneration.rate", instances=RATE_INST, requires=RATE_REQ,
                           ensures=[("rate_is_point_function_on_own_grid", _rate_post)], callees=RATE_CALLEES)
generation_bulk_rate = Contract(B + "generation.py::WindGeneration.bulk_rate", instances=RATE_INST, requires=RATE_REQ,
                                ensures=[("bulk_is_integral_with_own_bin_widths", _bulk_rate_post)], callees=RATE_CALLEES)


def _p_dis_rate(mk):
    npnt, nf, nd = mk.size("np"), mk.size("nf"), mk.size("nd")
    spec = _spectrum_stub(mk, "spectrum", npnt, nf, nd)
    par = record(mk, "parameters", ["p_a", "p_b"])
    info = {"E": mk.st.deref(spec).fields["variance_density"], "grid": _expected_grid(mk, spec), "parameters": par, "wtype": None}
    selfv = mk.instance(B + "dissipation.py::Dissipation", {"_parameters": par, "_dissipation_function": PointFunctionModel("dis", info)})
    return {"self": selfv, "spectrum": spec}


dissipation_rate = Contract(
    B + "dissipation.py::Dissipation.rate", params=_p_dis_rate, requires=RATE_REQ, callees=RATE_CALLEES,
    ensures=[("rate_is_point_function_on_own_grid", lambda a, r: forall(0, a.spectrum.variance_density.shape[0], lambda p: forall2(
        (0, a.spectrum.variance_density.shape[1]), (0, a.spectrum.variance_density.shape[2]),
        lambda i, j: eq(r[p, i, j], DF(_T.to_z3(i), _T.to_z3(j), _T.to_z3(p), a.spectrum.depth[p]))), "p"))])
dissipation_bulk_rate = Contract(
    B + "dissipation.py::Dissipation.bulk_rate", params=_p_dis_rate, requires=RATE_REQ, callees=RATE_CALLEES,
    ensures=[("bulk_is_integral_with_own_bin_widths", lambda a, r: forall(0, a.spectrum.variance_density.shape[0], lambda p: eq(
        r[p], Sum(0, a.spectrum.variance_density.shape[1], lambda i: Sum(0, a.spectrum.variance_density.shape[2], lambda j:
        DF(_T.to_z3(i), _T.to_z3(j), _T.to_z3(p), a.spectrum.depth[p]) * a.spectrum.frequency_step[i] * a.spectrum.direction_step[j]))), "p"))])


# imbalance = generation + dissipation - supplied rate of change
def _named(name, shape_fn):
    def res(mk, a):
        shp = shape_fn(mk, a)
        return mk.st.alloc(_sym_array(name, shp), name)
    return res


def _spec_shape(mk, a):
    return mk.st.deref(mk.st.deref(a.spectrum).fields["variance_density"]).shape


GEN_RATE = CalleeContract(B + "generation.py::WindGeneration.rate", _named("gen_rate", _spec_shape))
DIS_RATE = CalleeContract(B + "dissipation.py::Dissipation.rate", _named("dis_rate", _spec_shape))
GEN_BULK = CalleeContract(B + "generation.py::WindGeneration.bulk_rate", _named("gen_bulk", lambda mk, a: _spec_shape(mk, a)[:1]))
DIS_BULK = CalleeContract(B + "dissipation.py::Dissipation.bulk_rate", _named("dis_bulk", lambda mk, a: _spec_shape(mk, a)[:1]))
_GR = _z3.Function("gen_rate", _T.IntS, _T.IntS, _T.IntS, _T.RealS)
_DR = _z3.Function("dis_rate", _T.IntS, _T.IntS, _T.IntS, _T.RealS)
_GB = _z3.Function("gen_bulk", _T.IntS, _T.RealS)
_DB = _z3.Function("dis_bulk", _T.IntS, _T.RealS)


def _p_balance(with_ddt):
    def p(mk):
        npnt, nf, nd = mk.size("np"), mk.size("nf"), mk.size("nd")
        spec = _spectrum_stub(mk, "spectrum", npnt, nf, nd)
        gen = mk.instance(B + "generation.py::WindGeneration", {})
        dis = mk.instance(B + "dissipation.py::Dissipation", {})
        selfv = mk.instance(B + "balance.py::SourceTermBalance", {"generation": gen, "dissipation": dis})
        ddt = None
        if with_ddt:
            ddt = _spectrum_stub(mk, "ddt", npnt, nf, nd)
            m0arr = mk.array("ddt_m0", (npnt,))
            mk.st.deref(ddt).fields["m0"] = _LibFunc("spectrum.m0", lambda i, s, a, k: m0arr)
            mk.st.deref(ddt).fields["m0arr"] = m0arr
        return {"self": selfv, "wind_speed": mk.array("U", (npnt,)), "wind_direction": mk.array("wdir", (npnt,)), "spectrum": spec,
                "time_derivative_spectrum": ddt}
    return p


BAL_INST = [("with_rate_of_change", _p_balance(True)), ("without", _p_balance(False))]


def _imbalance_post(a, r):
    E = a.spectrum.variance_density
    ddt = a.time_derivative_spectrum
    return forall(0, E.shape[0], lambda p: forall2((0, E.shape[1]), (0, E.shape[2]), lambda i, j: eq(
        r[p, i, j], _GR(_T.to_z3(p), _T.to_z3(i), _T.to_z3(j)) + _DR(_T.to_z3(p), _T.to_z3(i), _T.to_z3(j))
        - (ddt.variance_density[p, i, j] if ddt is not None else 0))), "p")


def _bulk_imbalance_post(a, r):
    E = a.spectrum.variance_density
    ddt = a.time_derivative_spectrum
    return forall(0, E.shape[0], lambda p: eq(r[p], _GB(_T.to_z3(p)) + _DB(_T.to_z3(p)) - (ddt.m0arr[p] if ddt is not None else 0)), "p")


imbalance = Contract(B + "balance.py::SourceTermBalance.evaluate_imbalance", instances=BAL_INST, requires=RATE_REQ,
                     ensures=[("generation_plus_dissipation_minus_rate_of_change", _imbalance_post)],
                     callees={GEN_RATE.target: GEN_RATE, DIS_RATE.target: DIS_RATE})
bulk_imbalance = Contract(B + "balance.py::SourceTermBalance.evaluate_bulk_imbalance", instances=BAL_INST, requires=RATE_REQ,
                          ensures=[("generation_plus_dissipation_minus_rate_of_change", _bulk_imbalance_post)],
                          callees={GEN_BULK.target: GEN_BULK, DIS_BULK.target: DIS_BULK})

# ------------------------------------------------------------------ native side: typed dicts, samplers
def _typed(kw):
    """plain dicts of the model -> numba typed dicts as the real code passes them"""
    from ocean_science_utilities.wavephysics.balance.source_term import _spectral_grid, _numba_parameters
    import numpy as np
    out = dict(kw)
    for gname in ("spectral_grid", "grid"):
        if gname in out and isinstance(out[gname], dict) and not hasattr(out[gname], "_numba_type_"):
            g = out[gname]
            out[gname] = _spectral_grid(*[np.ascontiguousarray(g[k], dtype="float64") for k in
                                          ("radian_frequency", "radian_direction", "frequency_step", "direction_step")])
    if "parameters" in out and isinstance(out["parameters"], dict) and not hasattr(out["parameters"], "_numba_type_"):
        out["parameters"] = _numba_parameters(**{k: float(v) for k, v in out["parameters"].items()})
    if "wind" in out:
        w = out["wind"]
        import numpy as _np
        out["wind"] = (float(w[0]), float(w[1]), w[2]) if _np.ndim(w[0]) == 0 else (_np.asarray(w[0], dtype="float64"), _np.asarray(w[1], dtype="float64"), w[2])
    if "depth" in out and out["depth"] is None:
        out["depth"] = float("inf")
    return out


def _native(kw, inst):
    import numpy as np
    for k in ("number_of_frequencies", "number_of_directions"):
        if k in kw:
            kw[k] = int(kw[k])
    return _typed(kw)


def _rand_grid(rng, nf, nd):
    import numpy as np
    om = np.sort(rng.uniform(0.3, 6.0, nf)) + np.arange(nf) * 1e-3
    th = (np.linspace(0, 2 * np.pi, nd, endpoint=False) + rng.uniform(0, 2 * np.pi)) % (2 * np.pi)
    return {"radian_frequency": om, "radian_direction": th, "frequency_step": rng.uniform(0.005, 0.05, nf),
            "direction_step": np.full(nd, 360.0 / nd)}


def _rand_E(rng, nf, nd, positive=False):
    import numpy as np
    E = rng.random((nf, nd)) * 0.5
    if not positive:
        E = E * (rng.random((nf, nd)) > 0.3)
        if rng.random() < 0.2:
            E[:] = 0.0
    else:
        E = E + 1e-3
    return E


def _defaults(cls_path):
    import importlib
    mod, cls = cls_path.rsplit(".", 1)
    return dict(getattr(importlib.import_module("ocean_science_utilities.wavephysics.balance." + mod), cls).default_parameters())


def _n(tier, q, t):
    return q if tier == "quick" else t


def _samples_st4_point(rng, tier):
    import numpy as np
    out = []
    for _ in range(_n(tier, 12, 120)):
        nf, nd = int(rng.integers(1, 6)), int(rng.integers(1, 9))
        w = ["u10", "friction_velocity", "ustar"][int(rng.integers(0, 3))]
        deep = bool(rng.integers(0, 2))
        par = _defaults("st4_wind_input.ST4WindInput")
        par["charnock_maximum_roughness"] = 1e6
        par["growth_parameter_betamax"] *= rng.uniform(0.5, 2)
        U = rng.uniform(1, 40) if w == "u10" else rng.uniform(0.05, 1.5)
        kw = {"variance_density": _rand_E(rng, nf, nd), "wind": (U, rng.uniform(0, 360), w),
              "depth": np.inf if deep else rng.uniform(2, 200), "roughness_length": 10 ** rng.uniform(-5, -2),
              "spectral_grid": _rand_grid(rng, nf, nd), "parameters": par}
        out.append((f"{w},{'deep' if deep else 'finite'}", _typed(kw)))
    return out


def _samples_dissipation(cls_path, positive=False):
    def f(rng, tier):
        out = []
        for _ in range(_n(tier, 10, 100)):
            nf, nd = int(rng.integers(1, 6)), int(rng.integers(1, 9))
            par = _defaults(cls_path)
            for k in par:
                if "power" not in k and k not in ("p1", "p2", "saturation_integration_width_degrees", "gravitational_acceleration"):
                    par[k] = par[k] * rng.uniform(0.5, 2.0)
            kw = {"variance_density": _rand_E(rng, nf, nd, positive) * rng.choice([1e-3, 1.0, 30.0]),
                  "depth": float(rng.choice([float("inf"), rng.uniform(2, 200)])),
                  "spectral_grid": _rand_grid(rng, nf, nd), "parameters": par}
            out.append(("", _typed(kw)))
        return out
    return f


def _samples_integrate(rng, tier):
    out = []
    for _ in range(_n(tier, 8, 60)):
        nf, nd = int(rng.integers(1, 6)), int(rng.integers(1, 9))
        out.append(("", _typed({"data": rng.normal(size=(nf, nd)), "grid": _rand_grid(rng, nf, nd)})))
    return out


for _c, _s in ((st4_point, _samples_st4_point), (integrate2d, _samples_integrate), (integrate_dir, _samples_integrate),
               (st4_dissipation, _samples_dissipation("st4_wave_breaking.ST4WaveBreaking")),
               (st6_dissipation, _samples_dissipation("st6_wave_breaking.ST6WaveBreaking")),
               (romero_dissipation, _samples_dissipation("romero_wave_breaking.RomeroWaveBreaking", True))):
    _c.options["samples"] = _s
    _c.native = _native
for _c in (band_saturation, cumulative_breaking, saturation_breaking, st6_inherent, st6_cumulative):
    _c.native = _native


# ------------------------------------------------------------------ bounded: histories through one source-term object
def _bounded_sequences(tier, seed):
    """One generation and one dissipation object are used on a *sequence* of spectra with equal shapes but
    different grids (the single-call contracts above cannot see state carried between calls): after every
    call bulk == sum(rate*df*dtheta) with the spectrum's own bin widths, and equals a fresh object's result."""
    import numpy as np
    from ocean_science_utilities.wavespectra.spectrum import create_2d_spectrum
    from ocean_science_utilities.wavephysics.balance.st4_wind_input import ST4WindInput
    from ocean_science_utilities.wavephysics.balance.st6_wave_breaking import ST6WaveBreaking
    from ocean_science_utilities.wavephysics.balance.st4_wave_breaking import ST4WaveBreaking
    import xarray
    rng = np.random.default_rng(seed + 77)
    n_seq = 3 if tier == "quick" else 15
    fails, evals, distinct, samples = [], 0, 0, []

    def spectrum(kind, npnt, nf, nd):
        f = np.linspace(0.05, 0.6, nf) if kind == 0 else np.geomspace(0.04, 0.9, nf)
        d = (np.linspace(0, 360, nd, endpoint=False) + (0 if kind == 0 else 7.5)) % 360
        d = np.sort(d)
        fp = rng.uniform(0.08, 0.2)
        E1 = (f / fp) ** -5 * np.exp(-1.25 * (f / fp) ** -4) * rng.uniform(0.5, 3)
        D = np.cos(np.radians(d - rng.uniform(0, 360)) / 2) ** 8
        E = E1[None, :, None] * D[None, None, :] * rng.uniform(0.5, 2, (npnt, 1, 1))
        return create_2d_spectrum(frequency=f, direction=d, variance_density=E, time=np.arange(npnt) * 3600.0,
                                  latitude=np.zeros(npnt), longitude=np.zeros(npnt), depth=np.full(npnt, np.inf))

    def integral(rate, spec):
        return (rate.values * spec.frequency_step.values[None, :, None] * spec.direction_step.values[None, None, :]).sum(axis=(1, 2))
    for s in range(n_seq):
        npnt, nf, nd = int(rng.integers(1, 4)), int(rng.integers(8, 20)), int(rng.choice([12, 24]))
        gen, dis = ST4WindInput(), (ST6WaveBreaking() if s % 2 else ST4WaveBreaking())
        for step in range(3):
            spec = spectrum(step % 2, npnt, nf, nd)
            U = xarray.DataArray(rng.uniform(5, 25, npnt), dims=["time"])
            Ud = xarray.DataArray(rng.uniform(0, 360, npnt), dims=["time"])
            z0 = xarray.DataArray(10 ** rng.uniform(-4.5, -3, npnt), dims=["time"])
            checks = {
                "generation.bulk==integral(rate)": (gen.bulk_rate(spec, U, Ud, roughness_length=z0).values, integral(gen.rate(spec, U, Ud, roughness_length=z0), spec)),
                "dissipation.bulk==integral(rate)": (dis.bulk_rate(spec).values, integral(dis.rate(spec), spec)),
                "generation.same_as_fresh_object": (gen.rate(spec, U, Ud, roughness_length=z0).values, ST4WindInput().rate(spec, U, Ud, roughness_length=z0).values),
                "dissipation.same_as_fresh_object": (dis.rate(spec).values, type(dis)().rate(spec).values),
            }
            for name, (x, y) in checks.items():
                evals += 1
                if not np.allclose(x, y, rtol=1e-8, atol=1e-14):
                    fails.append({"case": name, "sequence": s, "step": step, "shape": [npnt, nf, nd], "max_abs_diff": float(np.max(np.abs(x - y)))})
            distinct += 1
            if len(samples) < 2:
                samples.append({"sequence": s, "step": step, "shape": [npnt, nf, nd], "grid": "linear" if step % 2 == 0 else "log"})
    return {"evaluations": evals, "distinct": distinct, "failures": fails[:5], "samples": samples,
            "domain": f"{n_seq} sequences x 3 spectra (alternating linear/log frequency grids of equal shape) through one ST4 input and one ST4/ST6 dissipation object"}


BOUNDED = [Bounded("source_term_object_histories", _bounded_sequences)]

CONTRACTS = [st4_point, integrate2d, integrate_dir, band_saturation, cumulative_breaking, saturation_breaking, st4_dissipation,
             st6_inherent, st6_cumulative, st6_dissipation, romero_dissipation,
             wind_generation_batch, bulk_wind_generation_batch, dissipation_batch, bulk_dissipation_batch,
             generation_rate, generation_bulk_rate, dissipation_rate, dissipation_bulk_rate, imbalance, bulk_imbalance]
TRUSTED = ["numba compiles the source faithfully (every contract's executable twin is evaluated on the compiled functions over seeded samples)",
           "the point function handed to the batch loops is an arbitrary (uninterpreted) function of its own point's inputs",
           "xarray.DataArray(data=..) wraps data unchanged; spectrum objects are stubs exposing the arrays the source terms read"]
EXPLANATION = ("sign/support/linearity of the ST4 input and sign/support of ST4, ST6 and Romero dissipation proved for all grid sizes and values by "
               "summarising the numba loops; bulk == integral of rate with the spectrum's own bin widths, batch independence and the imbalance formula proved on the "
               "real wrappers; histories through one source-term object are a bounded stand-in")
