"""C15 — spectrum objects: no aliasing or mutation of operands (frame conditions over the xarray model)."""
from pyvc.api import *
from pyvc.run import Lemma, Bounded
from contracts.spec_common import *
from contracts.spec_common import _xa
from contracts.C01 import _wit_spectra
from contracts.C03 import _wit_clean
import pyvc.models.xr   # noqa
import pyvc
import pyvc.models.npshape   # noqa  (np.prod, rank-2 unravel_index, ndarray.reshape merging leading axes)
from pyvc.values import Ref, Obj

PROPERTY = "C15"
LEVEL = "proof"


# ---------------------------------------------------------------- symbolic heap view
def _ds_ref(st, spec_ref):
    return st.deref(spec_ref).fields["dataset"]


def _vars(st, spec_ref):
    """name -> id of the DataArray object (the buffer token) currently bound in the spectrum's dataset"""
    ds = st.deref(_ds_ref(st, spec_ref))
    return {k: (v.id if isinstance(v, Ref) else id(v)) for k, v in ds.fields["vars"].items()}


def _record(mk, names):
    def rec(args):
        for n in names:
            mk.st.ghost["pre_vars_" + n] = _vars(mk.st, args[n])
            mk.st.ghost["pre_ds_" + n] = _ds_ref(mk.st, args[n]).id
        return args
    return rec


def operand_unchanged(a, name):
    """the operand still wraps the same Dataset object, with the same variables bound to the same buffers, and
    nothing was assigned into it"""
    st = a._snap
    ref = a._raw[name]
    ds = st.deref(_ds_ref(st, ref))
    return And(_ds_ref(st, ref).id == a._ghost["pre_ds_" + name], _vars(st, ref) == a._ghost["pre_vars_" + name],
               not ds.fields.get("writes"))


def result_is_new(a, operands):
    """the result is a new spectrum object around a new Dataset object (no operand's mapping is reused)"""
    st = a._snap
    r = a._result_raw
    if not isinstance(r, Ref):
        return False
    rds = _ds_ref(st, r).id
    return And(*[And(r.id != a._raw[n].id, rds != a._ghost["pre_ds_" + n]) for n in operands])


def shares_no_buffer(a, name):
    st = a._snap
    mine = set(_vars(st, a._result_raw).values())
    return not (mine & set(a._ghost["pre_vars_" + name].values()))


def _values_equal_native(x, y):
    import numpy as np
    ok = set(x.dataset.variables) == set(y.dataset.variables)
    for v in x.dataset.variables:
        a_, b_ = x.dataset[v].values, y.dataset[v].values
        ok = ok and a_.shape == b_.shape and (np.array_equal(a_, b_, equal_nan=True) if a_.dtype.kind == "f" else np.array_equal(a_, b_))
    return bool(ok)


def _native_frame(names, new=True):
    """executable twin: deep snapshots of the operands before the call are compared bit for bit afterwards"""
    def check(a, r):
        ok = True
        for n in names:
            ok = ok and _values_equal_native(a.old[n] if isinstance(a.old, dict) else getattr(a.old, n), getattr(a, n))
            if new:
                ok = ok and (r is not getattr(a, n)) and (r.dataset is not getattr(a, n).dataset)
        return ok
    return check


def frame(names, new=True):
    def clause(a, r):
        if hasattr(a, "_snap"):
            cs = [operand_unchanged(a, n) for n in names]
            if new:
                cs.append(result_is_new(a, names))
            return And(*cs)
        return _native_frame(names, new)(a, r)
    return clause


def _safe_copy_spectrum(kw):
    out = {}
    for k, v in kw.items():
        out[k] = v.copy(deep=True) if hasattr(v, "dataset") else v
    return out


def _p(kind, extra=None, names=("self",)):
    def p(mk):
        args = {"self": spectrum(mk, kind, via_init=False)}
        if "other" in names:
            o = spectrum(type("M", (), {"size": lambda s, n: mk.size(n), "array": lambda s, n, sh, so="real": mk.array("o_" + n, sh, so),
                                        "st": mk.st, "instance": mk.instance, "interp": mk.interp})(), kind)
            args["other"] = o
        if extra:
            args.update(extra(mk))
        return _record(mk, names)(args)
    return p


KINDS = ("1d", "2d")


def _wit(kind, **kw):
    def w():
        s1, s2 = _wit_spectra()
        s = s1 if kind == "1d" else s2
        d = {"self": s}
        for k, v in kw.items():
            d[k] = (s.copy(deep=True) if v == "other" else v)
        return (kind, d)
    return w


OPTS = {"args_ns": lambda kw: _safe_copy_spectrum(kw) if False else kw}


def _binary(name):
    return Contract(S + "WaveSpectrum." + name, instances=[(k, _p(k, names=("self", "other"))) for k in KINDS],
                    ensures=[("operands_unchanged_result_new", frame(("self", "other"))),
                             ("result_shares_no_buffer_with_left_operand", lambda a, r: shares_no_buffer(a, "self") if hasattr(a, "_snap") else True)],
                    witness=[_wit(k, other="other") for k in KINDS])


add_c, sub_c = _binary("__add__"), _binary("__sub__")
neg_c = Contract(S + "WaveSpectrum.__neg__", instances=[(k, _p(k)) for k in KINDS],
                 ensures=[("operand_unchanged_result_new", frame(("self",))),
                          ("result_shares_no_buffer", lambda a, r: shares_no_buffer(a, "self") if hasattr(a, "_snap") else True)],
                 witness=[_wit(k) for k in KINDS])

copy_deep = Contract(S + "DatasetWrapper.copy", label="copy_deep", instances=[(k, _p(k, lambda mk: {"deep": True})) for k in KINDS],
                     ensures=[("operand_unchanged_result_new", frame(("self",))),
                              ("deep_copy_shares_no_data", lambda a, r: shares_no_buffer(a, "self") if hasattr(a, "_snap") else
                               all(not __import__("numpy").shares_memory(r.dataset[v].values, a.self.dataset[v].values) for v in r.dataset.data_vars))],
                     witness=[_wit(k, deep=True) for k in KINDS])
copy_shallow = Contract(S + "DatasetWrapper.copy", label="copy_shallow", instances=[(k, _p(k, lambda mk: {"deep": False})) for k in KINDS],
                        ensures=[("operand_unchanged_result_new", frame(("self",)))], witness=[_wit(k, deep=False) for k in KINDS])


def _band_extra(mk):
    return {"fmin": mk.real("fmin"), "fmax": mk.real("fmax")}


bandpass_c = Contract(S + "WaveSpectrum.bandpass", instances=[(k, _p(k, _band_extra)) for k in KINDS] +
                      [(k + ",default_band", _p(k)) for k in KINDS],
                      ensures=[("operand_unchanged_result_new", frame(("self",)))],
                      witness=[_wit(k, fmin=0.05, fmax=0.3) for k in KINDS] + [(lambda k=k: (k + ",default_band", _wit(k)()[1])) for k in KINDS])


def _mult_extra(inplace):
    def e(mk):
        sp = None
        return {"inplace": inplace}
    return e


def _p_mult(kind, inplace):
    def p(mk):
        sp = spectrum(mk, kind)
        E = mk.st.deref(mk.st.deref(mk.st.deref(sp).fields["dataset"]).fields["vars"][NAME_E]).fields["arr"]
        args = {"self": sp, "array": mk.array("factor", E.shape), "dimensions": None, "inplace": inplace}
        return _record(mk, ("self",))(args)
    return p


def _wit_mult(kind, inplace):
    def w():
        import numpy as np
        s1, s2 = _wit_spectra()
        s = (s1 if kind == "1d" else s2).copy(deep=True)
        return (kind, {"self": s, "array": np.full(s.shape(), 2.0), "dimensions": None, "inplace": inplace})
    return w


multiply_c = Contract(S + "WaveSpectrum.multiply", instances=[(k, _p_mult(k, False)) for k in KINDS],
                      ensures=[("operand_unchanged_result_new", frame(("self",)))], witness=[_wit_mult(k, False) for k in KINDS])


def _only_density_written(a, r):
    if hasattr(a, "_snap"):
        st = a._snap
        ds = st.deref(_ds_ref(st, a._raw["self"]))
        pre, now = a._ghost["pre_vars_self"], _vars(st, a._raw["self"])
        return And(_ds_ref(st, a._raw["self"]).id == a._ghost["pre_ds_self"], set(ds.fields.get("writes", [])) <= {NAME_E},
                   all(now[k] == pre[k] for k in pre if k != NAME_E), a._result_raw.id == a._raw["self"].id)
    return r is a.self


multiply_inplace = Contract(S + "WaveSpectrum.multiply", label="multiply_inplace", instances=[(k, _p_mult(k, True)) for k in KINDS],
                            ensures=[("in_place_variant_writes_only_the_density_of_self", _only_density_written)],
                            witness=[_wit_mult(k, True) for k in KINDS])


def _as1d_frame(a, r):
    return frame(("self",))(a, r)


as1d_c = Contract(S + "FrequencyDirectionSpectrum.as_frequency_spectrum", instances=[("2d", _p("2d"))],
                  ensures=[("operand_unchanged_result_new", _as1d_frame)], witness=[_wit("2d")])


# two-step history: an operation followed by an in-place change of its RESULT leaves the operand unchanged
def _then_fillna(opname, **kw):
    def call(interp, st, fv, args):
        sp = args["self"]
        m = interp.getattr(st, sp, opname)
        res = interp.call(st, m, [], {k: v for k, v in args.items() if k != "self"})
        interp.call(st, interp.getattr(st, res, "fillna"), [Fraction(0)], {})
        return res

    def native(kwargs, inst):
        k2 = {k: v for k, v in kwargs.items() if k != "self"}
        res = getattr(kwargs["self"], opname)(**k2)
        res.fillna(0.0)
        return res
    return call, native


_bp_call, _bp_native = _then_fillna("bandpass")
bandpass_then_fillna = Contract(S + "WaveSpectrum.bandpass", label="bandpass_then_fillna_of_result", instances=[(k + ",default_band", _p(k)) for k in KINDS] + [(k, _p(k, _band_extra)) for k in KINDS],
                                ensures=[("operand_unchanged", frame(("self",)))], call=_bp_call, options={"native_call": _bp_native},
                                witness=[(lambda k=k: (k + ",default_band", _wit(k)()[1])) for k in KINDS])
_cp_call, _cp_native = _then_fillna("copy")
copy_then_fillna = Contract(S + "DatasetWrapper.copy", label="copy_then_fillna_of_result", instances=[(k, _p(k)) for k in KINDS],
                            ensures=[("operand_unchanged", frame(("self",)))], call=_cp_call, options={"native_call": _cp_native},
                            witness=[_wit(k) for k in KINDS])

# ================================================================ selection / indexing / reduction / flattening / concatenation
from pyvc.interp import Slice as _Slice

SPECV = {"1d": (NAME_E, "a1", "b1", "a2", "b2"), "2d": (NAME_E,)}
SCALV = ("depth", "latitude", "longitude")
SDIMS = {"1d": (NAME_F,), "2d": (NAME_F, NAME_D)}


def _native_spec(kw, inst):
    out = dict(kw)
    for k, v in kw.items():
        if isinstance(v, dict) and "dataset" in v:
            out[k] = native_spectrum(v)
    return out


def _cell(rx, ri, sx, si):
    """cell ri of rx is cell si of sx: same missing flag, and the same value when present"""
    rn = False if rx.nan is None else rx.nan[ri]
    sn = False if sx.nan is None else sx.nan[si]
    return And(iff(rn, sn), implies(Not(sn), eq(rx.arr[ri], sx.arr[si])))


def _over_spectral(sp, fn):
    """forall spectral index tuple"""
    if sp.two_d:
        return forall(0, sp.nf, lambda j: forall(0, sp.nd, lambda k: fn((j, k)), "k"), "j")
    return forall(0, sp.nf, lambda j: fn((j,)), "j")


def _time_of(r, idx):
    vs = r.dataset.vars
    if "time" in vs:
        return vs["time"].arr[idx]
    return r.dataset.coords["time"][idx]


def _kind_of(a):
    return "2d" if Spec(a.self).two_d else "1d"


def _same_class(a, r):
    return r._o.cls is a.self._o.cls


def _names(kind):
    return set(SPECV[kind]) | set(SCALV)


def _native_vars(s):
    return [v for v in s.dataset.data_vars if v != "time"]


def _native_eq(x, y):
    import numpy as np
    x, y = np.asarray(x), np.asarray(y)
    if x.shape != y.shape:
        return False
    return bool(np.array_equal(x, y, equal_nan=True) if x.dtype.kind == "f" else np.array_equal(x, y))


def _native_member(r, s, lead_index, time_value=None):
    """native twin: every variable of r is the lead_index-th member of the same variable of s (bitwise), same spectral coordinates, same kind"""
    ok = type(r) is type(s) and set(_native_vars(r)) == set(_native_vars(s))
    for v in _native_vars(s):
        ok = ok and _native_eq(r.dataset[v].values, s.dataset[v].values[lead_index])
    ok = ok and _native_eq(r.dataset["time"].values, s.dataset["time"].values[lead_index] if time_value is None else time_value)
    for c in (NAME_F, NAME_D):
        if c in s.dataset.coords:
            ok = ok and _native_eq(r.dataset[c].values, s.dataset[c].values)
    return bool(ok)


def _structural(clause):
    """a result whose layout differs from the one the clause describes (missing variable, other rank) falsifies the clause"""
    def wrapped(a, r):
        if not hasattr(a, "_snap"):
            return clause(a, r)
        try:
            return clause(a, r)
        except (IndexError, KeyError, AttributeError, TypeError, __import__('z3').Z3Exception):
            return False
    return wrapped


def member_is(i_of):
    """the result is member i of the operand: variance density, moments, depth, position and time of member i, on the
    operand's spectral grid, an object of the operand's class"""
    def clause(a, r):
        i = i_of(a)
        if not hasattr(r, "_o"):
            return _native_member(r, a.self, i)
        sp = Spec(a.self)
        kind = _kind_of(a)
        vs, src = r.dataset.vars, a.self.dataset.vars
        cs = [_same_class(a, r), set(vs) - {"time"} == _names(kind)]
        for v in SPECV[kind]:
            cs.append(vs[v].dims == SDIMS[kind])
            cs.append(_over_spectral(sp, lambda ix, v=v: _cell(vs[v], ix, src[v], (i,) + ix)))
        for v in SCALV:
            cs.append(vs[v].dims == ())
            cs.append(_cell(vs[v], (), src[v], (i,)))
        cs.append(eq(_time_of(r, ()), a.self.dataset.coords["time"][i]))
        cs.append(r.dataset.coords[NAME_F]._a is a.self.dataset.coords[NAME_F]._a)
        if sp.two_d:
            cs.append(r.dataset.coords[NAME_D]._a is a.self.dataset.coords[NAME_D]._a)
        return And(*cs)
    return _structural(clause)


def members_are(lo_of, n_of):
    """the result holds members lo .. lo+n-1 of the operand, in order (leading dimension kept)"""
    def clause(a, r):
        lo, n = lo_of(a), n_of(a)
        if not hasattr(r, "_o"):
            import numpy as np
            return _native_member(r, a.self, slice(int(lo), int(lo) + int(n)))
        sp = Spec(a.self)
        kind = _kind_of(a)
        vs, src = r.dataset.vars, a.self.dataset.vars
        cs = [_same_class(a, r), set(vs) - {"time"} == _names(kind)]
        for v in SPECV[kind]:
            cs.append(vs[v].dims == (P,) + SDIMS[kind])
            cs.append(eq(vs[v].arr.shape[0], n))
            cs.append(forall(0, n, lambda q, v=v: _over_spectral(sp, lambda ix: _cell(vs[v], (q,) + ix, src[v], (lo + q,) + ix)), "q"))
        for v in SCALV:
            cs.append(vs[v].dims == (P,))
            cs.append(eq(vs[v].arr.shape[0], n))
            cs.append(forall(0, n, lambda q, v=v: _cell(vs[v], (q,), src[v], (lo + q,)), "q"))
        cs.append(forall(0, n, lambda q: eq(_time_of(r, (q,)), a.self.dataset.coords["time"][lo + q]), "q"))
        cs.append(r.dataset.coords[NAME_F]._a is a.self.dataset.coords[NAME_F]._a)
        return And(*cs)
    return _structural(clause)


REQ_SIZES = ("sizes", lambda a: And(Spec(a.self).np_ >= 0, Spec(a.self).nf >= 0, (Spec(a.self).nd >= 0) if Spec(a.self).two_d else True))


def _p_isel_int(kind):
    def p(mk):
        sp = spectrum(mk, kind)
        return _record(mk, ("self",))({"self": sp, "time": mk.int("i")})
    return p


isel_int = Contract(S + "DatasetWrapper.isel", label="isel_int", instances=[(k, _p_isel_int(k)) for k in KINDS],
                    requires=[REQ_SIZES, ("index_in_range", lambda a: And(a.time >= 0, a.time < Spec(a.self).np_))],
                    ensures=[("operand_unchanged_result_new", frame(("self",))),
                             ("result_is_member_i", member_is(lambda a: a.time))],
                    native=_native_spec, witness=[_wit(k, time=1) for k in KINDS])


def _p_isel_slice(kind):
    def p(mk):
        sp = spectrum(mk, kind)
        return _record(mk, ("self",))({"self": sp, "lo": mk.int("lo"), "hi": mk.int("hi")})
    return p


def _isel_slice_call(interp, st, fv, args):
    return interp.call_function(st, fv, [], {"self": args["self"], "time": _Slice(args["lo"], args["hi"], None)})


isel_slice = Contract(S + "DatasetWrapper.isel", label="isel_slice", instances=[(k, _p_isel_slice(k)) for k in KINDS],
                      requires=[REQ_SIZES, ("slice_in_range", lambda a: And(a.lo >= 0, a.lo <= a.hi, a.hi <= Spec(a.self).np_))],
                      ensures=[("operand_unchanged_result_new", frame(("self",))),
                               ("result_is_members_lo_to_hi_in_order", members_are(lambda a: a.lo, lambda a: a.hi - a.lo))],
                      call=_isel_slice_call, native=_native_spec,
                      options={"native_call": lambda kw, inst: kw["self"].isel(time=slice(kw["lo"], kw["hi"]))},
                      witness=[_wit(k, lo=lo, hi=hi) for k in KINDS for lo, hi in ((0, 2), (1, 1), (1, 2))])


# ---- __getitem__: positional index (leading index, then one item per spectral dimension)
def _full(kind):
    return tuple(_Slice(None, None, None) for _ in SDIMS[kind])


def _p_getitem(kind, how):
    def p(mk):
        sp = spectrum(mk, kind)
        args = {"self": sp}
        if how == "int":
            args["i"] = mk.int("i")
        elif how == "slice":
            args["lo"], args["hi"] = mk.int("lo"), mk.int("hi")
        else:
            args["i"], args["flo"], args["fhi"] = mk.int("i"), mk.int("flo"), mk.int("fhi")
        return _record(mk, ("self",))(args)
    return p


def _getitem_item(kind, how, g, sl):
    """the index tuple, built from symbolic (sl = Slice) or native (sl = slice) parts"""
    full = tuple(sl(None, None, None) for _ in SDIMS[kind])
    if how == "int":
        return (g("i"),) + full
    if how == "slice":
        return (sl(g("lo"), g("hi"), None),) + full
    return (g("i"), sl(g("flo"), g("fhi"), None)) + full[1:]


def _getitem_call(kind, how):
    def call(interp, st, fv, args):
        return interp.call_function(st, fv, [], {"self": args["self"], "item": _getitem_item(kind, how, lambda n: args[n], _Slice)})
    return call


def _getitem_native(kw, inst):
    kind, how = inst.split(",")
    return kw["self"][_getitem_item(kind, how, lambda n: kw[n], slice)]


def _fband_member(a, r):
    """[i, flo:fhi]: member i on the frequencies flo..fhi-1 (values, frequency coordinate), scalars of member i"""
    i, flo, fhi = a.i, a.flo, a.fhi
    if not hasattr(r, "_o"):
        s = a.self
        ok = type(r) is type(s)
        for v in _native_vars(s):
            x = s.dataset[v].values[i]
            ok = ok and _native_eq(r.dataset[v].values, x[flo:fhi] if x.ndim else x)
        ok = ok and _native_eq(r.dataset["time"].values, s.dataset["time"].values[i]) and _native_eq(r.dataset[NAME_F].values, s.dataset[NAME_F].values[flo:fhi])
        return bool(ok)
    sp = Spec(a.self)
    kind = _kind_of(a)
    vs, src = r.dataset.vars, a.self.dataset.vars
    n = fhi - flo
    cs = [_same_class(a, r), set(vs) - {"time"} == _names(kind)]
    for v in SPECV[kind]:
        cs.append(vs[v].dims == SDIMS[kind])
        cs.append(eq(vs[v].arr.shape[0], n))
        if sp.two_d:
            cs.append(forall(0, n, lambda j, v=v: forall(0, sp.nd, lambda k: _cell(vs[v], (j, k), src[v], (i, flo + j, k)), "k"), "j"))
        else:
            cs.append(forall(0, n, lambda j, v=v: _cell(vs[v], (j,), src[v], (i, flo + j)), "j"))
    for v in SCALV:
        cs.append(_cell(vs[v], (), src[v], (i,)))
    cs.append(eq(_time_of(r, ()), a.self.dataset.coords["time"][i]))
    cs.append(forall(0, n, lambda j: eq(r.dataset.coords[NAME_F][j], a.self.dataset.coords[NAME_F][flo + j]), "j"))
    return And(*cs)


_GI_REQ = {"int": ("index_in_range", lambda a: And(a.i >= 0, a.i < Spec(a.self).np_)),
           "slice": ("slice_in_range", lambda a: And(a.lo >= 0, a.lo <= a.hi, a.hi <= Spec(a.self).np_)),
           "fslice": ("index_and_frequency_slice_in_range", lambda a: And(a.i >= 0, a.i < Spec(a.self).np_, a.flo >= 0, a.flo <= a.fhi, a.fhi <= Spec(a.self).nf))}
_GI_POST = {"int": ("result_is_member_i", member_is(lambda a: a.i)),
            "slice": ("result_is_members_lo_to_hi_in_order", members_are(lambda a: a.lo, lambda a: a.hi - a.lo)),
            "fslice": ("result_is_member_i_on_the_selected_frequencies", _structural(_fband_member))}
_GI_WIT = {"int": [dict(i=0), dict(i=1)], "slice": [dict(lo=0, hi=2), dict(lo=1, hi=2)], "fslice": [dict(i=1, flo=2, fhi=5), dict(i=0, flo=0, fhi=11)]}


def _getitem_contract(how):
    insts = [(f"{k},{how}", _p_getitem(k, how)) for k in KINDS]
    wits = []
    for k in KINDS:
        for kw in _GI_WIT[how]:
            wits.append(lambda k=k, kw=kw: (f"{k},{how}", _wit(k, **kw)()[1]))
    c = Contract(S + "WaveSpectrum.__getitem__", label="getitem_" + how, instances=insts, requires=[REQ_SIZES, _GI_REQ[how]],
                 ensures=[("operand_unchanged_result_new", frame(("self",))), _GI_POST[how]], native=_native_spec,
                 options={"native_call": _getitem_native}, witness=wits)
    # per-instance call: the item tuple depends on the kind
    c.call = lambda interp, st, fv, args: _getitem_call("2d" if NAME_D in st.deref(_ds_ref(st, args["self"])).fields["coords"] else "1d", how)(interp, st, fv, args)
    return c


getitem_cs = [_getitem_contract(h) for h in ("int", "slice", "fslice")]


# ---- reductions over the leading dimension (skipna=False, the default of the repository methods)
def _p_reduce(kind):
    def p(mk):
        sp = spectrum(mk, kind)
        return _record(mk, ("self",))({"self": sp, "dim": P})
    return p


def _any_missing(sx, n, ix):
    if sx.nan is None:
        return False
    return exists(0, n, lambda p: sx.nan[(p,) + ix], "p")


def _reduced(op, which):
    """variable `which` of the result is the reduction of the operand's variable over the leading dimension, member by
    member of the remaining (spectral) index: missing iff a contribution is missing (or, for the mean / std, there is none)"""
    def value(sx, n, ix):
        tot = Sum(0, n, lambda p: sx.arr[(p,) + ix])
        if op == "sum":
            return tot
        m = tot / n
        if op == "mean":
            return m
        return sqrt(Sum(0, n, lambda p: (sx.arr[(p,) + ix] - m) * (sx.arr[(p,) + ix] - m)) / n)

    def clause(a, r):
        if not hasattr(r, "_o"):
            import numpy as np
            s = a.self
            fn = {"sum": np.sum, "mean": np.mean, "std": np.std}[op]
            if which == "layout":
                return bool(type(r) is type(s) and r.dataset[NAME_E].dims == s.dataset[NAME_E].dims[1:] and set(_native_vars(r)) == set(_native_vars(s))
                            and _native_eq(r.dataset[NAME_F].values, s.dataset[NAME_F].values))
            if which == "time":
                t = s.dataset["time"].values.astype("datetime64[ns]").astype("int64")
                return bool(abs(int(r.dataset["time"].values.astype("datetime64[ns]").astype("int64")) - t.mean()) <= 1)
            if which not in s.dataset:
                return True
            return bool(np.allclose(r.dataset[which].values, fn(s.dataset[which].values, axis=0), rtol=1e-12, atol=1e-14, equal_nan=True))
        sp = Spec(a.self)
        n = sp.np_
        kind = _kind_of(a)
        vs, src = r.dataset.vars, a.self.dataset.vars
        empty_missing = (n <= 0) if op != "sum" else False

        def one(rx, sx, ri, ix):
            rn = False if rx.nan is None else rx.nan[ri]
            return And(iff(rn, Or(empty_missing, _any_missing(sx, n, ix))), implies(Not(rn), eq(rx.arr[ri], value(sx, n, ix))))
        if which == "layout":
            cs = [_same_class(a, r), set(vs) - {"time"} == _names(kind), r.dataset.coords[NAME_F]._a is a.self.dataset.coords[NAME_F]._a]
            cs += [vs[v].dims == SDIMS[kind] for v in SPECV[kind]] + [vs[v].dims == () for v in SCALV]
            return And(*cs)
        if which == "time":
            # the reduced dimension's coordinate is replaced by its mean
            t = a.self.dataset.coords["time"]
            return implies(n > 0, eq(_time_of(r, ()), Sum(0, n, lambda p: t[p]) / n))
        if which in SCALV:
            return one(vs[which], src[which], (), ())
        if which not in SPECV[kind]:
            return True
        return _over_spectral(sp, lambda ix: one(vs[which], src[which], ix, ix))
    return _structural(clause)


def _reduce_contract(op):
    ens = [("operand_unchanged_result_new", frame(("self",))), ("same_kind_same_variables_spectral_grid_kept_leading_dimension_removed", _reduced(op, "layout")),
           ("time_is_the_mean_time", _reduced(op, "time"))]
    ens += [(f"{v}_is_the_{op}_over_the_leading_dimension", _reduced(op, v), {"1d"} if v in SPECV["1d"][1:] else {"1d", "2d"}) for v in SPECV["1d"] + SCALV]
    return Contract(S + "WaveSpectrum." + op, instances=[(k, _p_reduce(k)) for k in KINDS], requires=[REQ_SIZES], ensures=ens,
                    native=_native_spec, witness=[_wit(k, dim="time") for k in KINDS])


reduce_cs = [_reduce_contract(op) for op in ("mean", "sum", "std")]


# ---- flatten: a (time x latitude) layout with symbolic sizes n1 x n2; C-order pairing of every spectrum with its coordinates
LAT = "latitude"


def _grid_spectrum(mk, kind):
    """spectrum of the real class over two leading dimensions (time: n1, latitude: n2), both coordinates; depth and
    longitude vary over the grid"""
    n1, n2, nf = mk.size("n1"), mk.size("n2"), mk.size("nf")
    f, t, la = mk.array("f", (nf,)), mk.array("time", (n1,)), mk.array("lat", (n2,))
    lead = {P: t, LAT: la}
    coords = {P: t, LAT: la, NAME_F: f}
    sd, ss = (NAME_F,), (nf,)
    if kind == "2d":
        nd = mk.size("nd")
        coords[NAME_D] = mk.array("theta", (nd,))
        sd, ss = (NAME_F, NAME_D), (nf, nd)
    vs = {}
    for v in SPECV[kind]:
        vs[v] = _xa(mk, (P, LAT) + sd, mk.array(v if v != NAME_E else "E", (n1, n2) + ss), mk.array(v + "_nan", (n1, n2) + ss, "bool"), coords)
    vs["depth"] = _xa(mk, (P, LAT), mk.array("depth", (n1, n2)), mk.array("depth_nan", (n1, n2), "bool"), lead)
    vs["longitude"] = _xa(mk, (P, LAT), mk.array("longitude", (n1, n2)), None, lead)
    ds = mk.st.alloc(Obj("Dataset", {"vars": vs, "coords": {k: mk.st.deref(v) for k, v in coords.items()}}), "dataset")
    return mk.instance(S + ("FrequencySpectrum" if kind == "1d" else "FrequencyDirectionSpectrum"), {"dataset": ds})


def _p_flatten(kind):
    def p(mk):
        return _record(mk, ("self",))({"self": _grid_spectrum(mk, kind)})
    return p


def _native_grid(kw, inst):
    import numpy as np, xarray
    from ocean_science_utilities.wavespectra.spectrum import FrequencySpectrum, FrequencyDirectionSpectrum
    d = kw["self"]
    vs, cs = d["dataset"]["vars"], d["dataset"]["coords"]

    def arr(x):
        a = np.asarray(x["arr"], dtype="float64")
        return np.where(np.asarray(x["nan"], dtype=bool), np.nan, a) if x.get("nan") is not None else a
    two_d = NAME_D in cs
    n1, n2 = arr(vs["depth"]).shape
    coords = {"time": np.arange(n1).astype("datetime64[s]"), LAT: np.asarray(cs[LAT], dtype="float64"), NAME_F: np.asarray(cs[NAME_F], dtype="float64")}
    sd = (NAME_F,)
    if two_d:
        coords[NAME_D] = np.asarray(cs[NAME_D], dtype="float64")
        sd = (NAME_F, NAME_D)
    data = {v: (("time", LAT) + sd, arr(vs[v])) for v in SPECV["2d" if two_d else "1d"]}
    data["depth"] = (("time", LAT), arr(vs["depth"]))
    data["longitude"] = (("time", LAT), arr(vs["longitude"]))
    return {"self": (FrequencyDirectionSpectrum if two_d else FrequencySpectrum)(xarray.Dataset(data_vars=data, coords=coords))}


def _wit_grid(kind, n1=3, n2=2):
    def w():
        import numpy as np, xarray
        from ocean_science_utilities.wavespectra.spectrum import FrequencySpectrum, FrequencyDirectionSpectrum
        rng = np.random.default_rng(n1 * 10 + n2)
        f = np.array([0.03, 0.05, 0.08, 0.1, 0.2])
        th = np.array([0.0, 90.0, 180.0, 270.0])
        sd, ss = ((NAME_F,), (5,)) if kind == "1d" else ((NAME_F, NAME_D), (5, 4))
        data = {v: (("time", LAT) + sd, rng.random((n1, n2) + ss)) for v in SPECV[kind]}
        data[NAME_E][1][0, 0, 1] = np.nan
        dep = rng.uniform(5, 100, (n1, n2))
        dep[0, 0] = np.nan
        data["depth"] = (("time", LAT), dep)
        data["longitude"] = (("time", LAT), rng.uniform(-180, 180, (n1, n2)))
        coords = {"time": (np.arange(n1) * 3600).astype("datetime64[s]"), LAT: np.linspace(-10, 10, n2), NAME_F: f}
        if kind == "2d":
            coords[NAME_D] = th
        return (kind, {"self": (FrequencySpectrum if kind == "1d" else FrequencyDirectionSpectrum)(xarray.Dataset(data_vars=data, coords=coords))})
    return w


def _flat_sizes(a):
    if not hasattr(a.self, "_o"):
        return a.self.dataset["depth"].shape
    d = a.self.dataset.vars["depth"].arr
    return d.shape[0], d.shape[1]


def _flatten_count(a, r):
    if not hasattr(r, "_o"):
        s = a.self
        n1, n2 = s.dataset["depth"].shape
        return bool(type(r) is type(s) and len(r) == n1 * n2 and r.dataset[NAME_E].dims[0] == "linear_index" and r.dataset[NAME_E].shape[0] == n1 * n2
                    and _native_eq(r.dataset[NAME_F].values, s.dataset[NAME_F].values))
    n1, n2 = _flat_sizes(a)
    kind = _kind_of(a)
    vs = r.dataset.vars
    cs = [_same_class(a, r), set(vs) == set(SPECV[kind]) | {"depth", "longitude", "time", LAT},
          r.dataset.coords[NAME_F]._a is a.self.dataset.coords[NAME_F]._a]
    for v in SPECV[kind]:
        cs += [vs[v].dims == ("linear_index",) + SDIMS[kind], eq(vs[v].arr.shape[0], n1 * n2)]
    for v in ("depth", "longitude", "time", LAT):
        cs += [vs[v].dims == ("linear_index",), eq(vs[v].arr.shape[0], n1 * n2)]
    return And(*cs)


def _flatten_pairing(which, form):
    """C order: the flattened member q is the grid member unravel_index(q, (n1, n2)) = (q // n2, q % n2) [form 'unravel'];
    equivalently the grid member (i, j) is the flattened member i*n2 + j [form 'ravel']"""
    def clause(a, r):
        if not hasattr(r, "_o"):
            import numpy as np
            s = a.self
            n1, n2 = s.dataset["depth"].shape
            ok = True
            for q in range(n1 * n2):
                i, j = (int(x) for x in np.unravel_index(q, (n1, n2)))
                if which == "time":
                    ok = ok and _native_eq(r.dataset["time"].values[q], s.dataset["time"].values[i])
                elif which == LAT:
                    ok = ok and _native_eq(r.dataset[LAT].values[q], s.dataset[LAT].values[j])
                elif which in s.dataset:
                    ok = ok and _native_eq(r.dataset[which].values[q], s.dataset[which].values[i, j])
            return bool(ok)
        sp = Spec(a.self)
        n1, n2 = _flat_sizes(a)
        kind = _kind_of(a)
        vs, src = r.dataset.vars, a.self.dataset.vars

        def pair(q, i, j):
            if which == "time":
                return eq(vs["time"].arr[q], a.self.dataset.coords["time"][i])
            if which == LAT:
                return eq(vs[LAT].arr[q], a.self.dataset.coords[LAT][j])
            if which in ("depth", "longitude"):
                return _cell(vs[which], (q,), src[which], (i, j))
            return _over_spectral(sp, lambda ix: _cell(vs[which], (q,) + ix, src[which], (i, j) + ix))
        if which not in SPECV[kind] and which in SPECV["1d"]:
            return True
        if form == "unravel":
            return forall(0, n1 * n2, lambda q: pair(q, floordiv(q, n2), mod(q, n2)), "q")
        return forall(0, n1, lambda i: forall(0, n2, lambda j: pair(i * n2 + j, i, j), "j"), "i")
    return _structural(clause)


_FLAT_VARS = SPECV["1d"] + ("depth", "longitude", "time", LAT)
flatten_c = Contract(S + "WaveSpectrum.flatten", instances=[(k, _p_flatten(k)) for k in KINDS],
                     requires=[("sizes", lambda a: And(_flat_sizes(a)[0] >= 0, _flat_sizes(a)[1] >= 0, Spec(a.self).nf >= 0, (Spec(a.self).nd >= 0) if Spec(a.self).two_d else True))],
                     ensures=[("operand_unchanged_result_new", frame(("self",))),
                              ("same_kind_one_leading_dimension_of_n1_times_n2_spectra_spectral_grid_kept", _structural(_flatten_count))] +
                             [(f"member_q_is_grid_member_unravel_index_q.{v}", _flatten_pairing(v, "unravel"), {"1d"} if v in SPECV["1d"][1:] else {"1d", "2d"}) for v in _FLAT_VARS] +
                             [(f"grid_member_i_j_is_member_i_times_n2_plus_j.{v}", _flatten_pairing(v, "ravel"), {"1d", "2d"}) for v in (NAME_E, "depth", "time", LAT)],
                     native=_native_grid, witness=[_wit_grid(k, n1, n2) for k in KINDS for n1, n2 in ((3, 2), (2, 3), (1, 4))])


# ---- concatenate N spectra along a new dimension, select the i-th: returns the i-th input
from pyvc.values import CArr as _CArr
import z3 as _z3
OPS = "wavespectra/operations.py::"


def _scalar_spectrum(mk, kind, tag, coords_spec):
    """a single spectrum (no leading dimension) with its own density / moments / depth / position and its own time (a scalar
    coordinate, as left by isel(time=k)), on the common spectral grid"""
    st = mk.st
    sd = SDIMS[kind]
    ss = tuple(coords_spec[d].shape[0] for d in sd)
    tcell = _CArr((), {(): _z3.Real(f"{tag}_time")})

    def xa(dims, arr, nan, coords):
        r = pyvc.models.xr.mk_xa(st, dims, arr, nan, coords)
        st.deref(r).fields["scoords"] = {P: tcell}
        return r
    vs = {}
    for v in SPECV[kind]:
        vs[v] = xa(sd, st.deref(mk.array(f"{tag}_{v}", ss)), st.deref(mk.array(f"{tag}_{v}_nan", ss, "bool")), coords_spec)
    vs["depth"] = xa((), _CArr((), {(): _z3.Real(f"{tag}_depth")}), _CArr((), {(): _z3.Bool(f"{tag}_depth_nan")}, "bool"), {})
    for v in ("latitude", "longitude"):
        vs[v] = xa((), _CArr((), {(): _z3.Real(f"{tag}_{v}")}), None, {})
    ds = st.alloc(Obj("Dataset", {"vars": vs, "coords": {**coords_spec, P: tcell}}), "dataset")
    return mk.instance(S + ("FrequencySpectrum" if kind == "1d" else "FrequencyDirectionSpectrum"), {"dataset": ds})


def _p_concat(kind, N):
    def p(mk):
        cs = {NAME_F: mk.st.deref(mk.array("f", (mk.size("nf"),)))}
        if kind == "2d":
            cs[NAME_D] = mk.st.deref(mk.array("theta", (mk.size("nd"),)))
        args = {f"s{k}": _scalar_spectrum(mk, kind, f"s{k}", cs) for k in range(N)}
        return _record(mk, tuple(args))(args)
    return p


def _concat_call(interp, st, fv, args):
    """concatenate_spectra([s0, .., s_{N-1}], dim='time') followed by isel(time=k) for every k -> (cat, sel_0, ..)"""
    names = sorted(args)
    cat = interp.call_function(st, fv, [], {"spectra": st.alloc([args[n] for n in names], "list"), "dim": P})
    return (cat,) + tuple(interp.call(st, interp.getattr(st, cat, "isel"), [], {P: k}) for k in range(len(names)))


def _concat_native(kw, inst):
    from ocean_science_utilities.wavespectra.operations import concatenate_spectra
    names = sorted(kw)
    cat = concatenate_spectra([kw[n] for n in names], dim="time")
    return (cat,) + tuple(cat.isel(time=k) for k in range(len(names)))


def _concat_frame(a, r):
    names = sorted(k for k in a.__dict__ if k.startswith("s") and k[1:].isdigit())
    if hasattr(a, "_snap"):
        st = a._snap
        refs = list(a._result_raw)
        ok = all(operand_unchanged(a, n) for n in names)
        for x in refs:
            ok = ok and all(x.id != a._raw[n].id and _ds_ref(st, x).id != a._ghost["pre_ds_" + n] for n in names)
        return bool(ok)
    ok = True
    for n in names:
        ok = ok and _values_equal_native(a.old[n] if isinstance(a.old, dict) else getattr(a.old, n), getattr(a, n))
        ok = ok and all(x is not getattr(a, n) and x.dataset is not getattr(a, n).dataset for x in r)
    return bool(ok)


def _concat_select(k, which):
    """selecting element k of the concatenation returns input k: variance density, moments, depth, position, time"""
    def clause(a, r):
        names = sorted(n for n in a.__dict__ if n.startswith("s") and n[1:].isdigit())
        src = getattr(a, names[k])
        sel = r[1 + k]
        if not hasattr(sel, "_o"):
            if which == "layout":
                return bool(type(sel) is type(src) and type(r[0]) is type(src) and r[0].dataset[NAME_E].dims[0] == "time" and r[0].dataset[NAME_E].shape[0] == len(names)
                            and _native_eq(sel.dataset[NAME_F].values, src.dataset[NAME_F].values))
            if which not in src.dataset and which != "time":
                return True
            return _native_eq(sel.dataset[which].values, src.dataset[which].values)
        sp = Spec(src)
        kind = "2d" if sp.two_d else "1d"
        vs, sv = sel.dataset.vars, src.dataset.vars
        if which == "layout":
            cat = r[0].dataset.vars
            cs = [sel._o.cls is src._o.cls, r[0]._o.cls is src._o.cls, set(vs) == _names(kind), set(cat) == _names(kind),
                  sel.dataset.coords[NAME_F]._a is src.dataset.coords[NAME_F]._a]
            cs += [cat[v].dims == (P,) + SDIMS[kind] and cat[v].arr.shape[0] == len(names) and vs[v].dims == SDIMS[kind] for v in SPECV[kind]]
            cs += [cat[v].dims == (P,) and cat[v].arr.shape[0] == len(names) and vs[v].dims == () for v in SCALV]
            return And(*cs)
        if which == "time":
            return eq(_time_of(sel, ()), src.dataset.coords["time"][()])
        if which in SCALV:
            return _cell(vs[which], (), sv[which], ())
        if which not in SPECV[kind]:
            return True
        return _over_spectral(sp, lambda ix: _cell(vs[which], ix, sv[which], ix))
    return _structural(clause)


def _wit_concat(kind, N):
    def w():
        s1, s2 = _wit_spectra()
        s = s1 if kind == "1d" else s2
        n = len(s.dataset["time"])
        return (f"{kind},N={N}", {f"s{k}": s.isel(time=(k + 1) % n) for k in range(N)})
    return w


def _concat_contract():
    insts = [(f"{k},N={N}", _p_concat(k, N)) for k in KINDS for N in (2, 3)]
    ens = [("every_input_unchanged_results_new", _concat_frame)]
    for k in range(3):
        only = {lab for lab, _ in insts if k < int(lab.split("N=")[1])}
        ens.append((f"select_{k}.same_kind_new_leading_dimension_of_length_N", _concat_select(k, "layout"), only))
        for v in SPECV["1d"] + SCALV + ("time",):
            o2 = {lab for lab in only if v in SPECV[lab.split(",")[0]] or v in SCALV or v == "time"}
            ens.append((f"select_{k}.returns_input_{k}.{v}", _concat_select(k, v), o2))
    return Contract(OPS + "concatenate_spectra", label="concatenate_then_select", instances=insts, ensures=ens, call=_concat_call,
                    requires=[("sizes", lambda a: And(Spec(a.s0).nf >= 0, (Spec(a.s0).nd >= 0) if Spec(a.s0).two_d else True))],
                    options={"native_call": _concat_native}, witness=[_wit_concat(k, N) for k in KINDS for N in (2, 3)])


concat_c = _concat_contract()

NEW = [isel_int, isel_slice] + getitem_cs + reduce_cs + [flatten_c, concat_c]

def _bounded_restructure(tier, seed):
    """concatenate/select, flatten pairing, netCDF round trip and random operation sequences with bitwise operand snapshots
    (functions outside the verified subset: np.unravel_index / reshape / xarray.concat / file I/O)"""
    import numpy as np, os, tempfile
    from ocean_science_utilities.wavespectra.spectrum import create_1d_spectrum, create_2d_spectrum, load_spectrum_from_netcdf
    from ocean_science_utilities.wavespectra.operations import concatenate_spectra
    rng = np.random.default_rng(seed + 9)
    fails, samples, evals = [], [], 0
    f = np.array([0.03, 0.05, 0.08, 0.1, 0.15, 0.22, 0.3, 0.45])
    d = np.linspace(0, 360, 12, endpoint=False)

    def mk1(nt, nlat=None):
        shape = (nt,) if nlat is None else (nt, nlat)
        E = rng.random(shape + (len(f),)) + 0.01
        if nlat is None:
            return create_1d_spectrum(f, E, np.arange(nt) * 3600.0, rng.uniform(-60, 60, nt), rng.uniform(-180, 180, nt), a1=E * 0 + 0.1, b1=E * 0 + 0.2, a2=E * 0, b2=E * 0,
                                      depth=np.where(rng.random(nt) < 0.3, np.inf, rng.uniform(5, 100, nt)))
        import xarray
        from ocean_science_utilities.wavespectra.spectrum import FrequencySpectrum
        ds = xarray.Dataset({"variance_density": (("time", "latitude", "frequency"), E), "a1": (("time", "latitude", "frequency"), E * 0 + 0.1),
                             "b1": (("time", "latitude", "frequency"), E * 0 + 0.2), "a2": (("time", "latitude", "frequency"), E * 0), "b2": (("time", "latitude", "frequency"), E * 0),
                             "depth": (("time", "latitude"), rng.uniform(5, 100, shape)), "longitude": (("time", "latitude"), rng.uniform(-180, 180, shape))},
                            coords={"time": (np.arange(nt) * 3600).astype("datetime64[s]"), "latitude": np.linspace(-10, 10, nlat), "frequency": f})
        return FrequencySpectrum(ds)

    def snap(s):
        return {v: s.dataset[v].values.copy() for v in s.dataset.variables}

    def same(a_, b_):
        return all(np.array_equal(a_[v], b_[v], equal_nan=True) if a_[v].dtype.kind == "f" else np.array_equal(a_[v], b_[v]) for v in a_)
    n = 14 if tier == "quick" else 56
    for k in range(n):
        # concatenate N spectra along a new dimension, select the i-th
        N = int(rng.integers(1, 7))
        batch = mk1(N)
        parts = [batch.isel(time=i) for i in range(N)]          # N scalar spectra (the supported input of concatenate)
        before = [snap(p_) for p_ in parts]
        cat = concatenate_spectra(parts, dim="time")
        for i in range(N):
            evals += 1
            sel = cat.isel(time=i)
            for v in ("variance_density", "a1", "b1", "depth", "latitude", "longitude"):
                if not np.array_equal(sel.dataset[v].values, parts[i].dataset[v].values, equal_nan=True):
                    fails.append({"case": k, "what": f"concatenate/select: element {i} variable {v} differs"})
        if not all(same(b_, snap(p_)) for b_, p_ in zip(before, parts)):
            fails.append({"case": k, "what": "concatenate modified an input"})
        # flatten keeps the C-order pairing
        nt, nlat = int(rng.integers(2, 4)), int(rng.integers(2, 4))
        s2 = mk1(nt, nlat)
        b2 = snap(s2)
        fl = s2.flatten()
        evals += 1
        ok = len(fl) == nt * nlat
        for l in range(nt * nlat):
            i, j = divmod(l, nlat)
            ok = ok and np.array_equal(fl.dataset["variance_density"].values[l], s2.dataset["variance_density"].values[i, j])
            ok = ok and fl.dataset["time"].values[l] == s2.dataset["time"].values[i] and fl.dataset["latitude"].values[l] == s2.dataset["latitude"].values[j]
            ok = ok and fl.dataset["depth"].values[l] == s2.dataset["depth"].values[i, j]
        if not ok or not same(b2, snap(s2)):
            fails.append({"case": k, "what": "flatten: pairing of spectra with coordinates broken or operand modified", "shape": [nt, nlat]})
        # random operation sequences with operand snapshots
        s = mk1(3)
        s.dataset["variance_density"].values[0, 2] = np.nan
        other = mk1(3)
        ops = [lambda x: x + other, lambda x: x - other, lambda x: -x, lambda x: x.bandpass(), lambda x: x.bandpass(0.05, 0.3), lambda x: x.copy(deep=True), lambda x: x.copy(deep=False),
               lambda x: x.multiply(np.full(x.shape(), 2.0)), lambda x: x.isel(time=slice(0, 2)), lambda x: x.mean(dim="time"), lambda x: x.sum(dim="time"),
               lambda x: x.interpolate_frequency(np.linspace(0.04, 0.4, 7)), lambda x: x.interpolate_frequency(np.linspace(0.04, 0.4, 7), method="nearest"),
               lambda x: x.interpolate_frequency(np.linspace(0.04, 0.4, 7), method="spline")]
        cur = s
        chain = [(s, snap(s)), (other, snap(other))]
        nsteps = int(rng.integers(1, 7))
        for step in range(nsteps):
            # every operation is used as the first step of some round, the rest is random
            op = ops[k % len(ops)] if step == 0 else ops[int(rng.integers(0, len(ops)))]
            try:
                nxt = op(cur)
            except Exception:
                # an operation that fails (e.g. the spline method without its optional solver) must still leave its operand alone
                evals += 1
                break
            evals += 1
            if nxt is cur or nxt.dataset is cur.dataset:
                fails.append({"case": k, "what": "operation returned its operand (or a wrapper around the operand's dataset)"})
            nxt_probe = nxt.copy(deep=False)
            chain.append((nxt, snap(nxt)))
            cur = nxt
        if len(chain) > 2:
            try:
                cur.fillna(0.0)          # in-place change of the LAST result must not reach any earlier object
            except Exception:
                pass
        for obj, b_ in (chain[:-1] if len(chain) > 2 else chain):
            if not same(b_, snap(obj)):
                fails.append({"case": k, "what": "an operand was modified by a later operation / by an in-place change of a result"})
                break
        # netCDF round trip
        tmp = tempfile.mkdtemp(prefix="c15_")
        try:
            pth = os.path.join(tmp, "s.nc")
            s.save_as_netcdf(pth)
            back = load_spectrum_from_netcdf(pth)
            evals += 1
            if type(back) is not type(s) or not all(np.array_equal(back.dataset[v].values, s.dataset[v].values, equal_nan=True) if s.dataset[v].values.dtype.kind == "f"
                                                     else np.array_equal(back.dataset[v].values, s.dataset[v].values) for v in s.dataset.variables):
                fails.append({"case": k, "what": "netCDF round trip changed kind, coordinates or values"})
        except Exception as e:
            fails.append({"case": k, "what": f"netCDF round trip raised {type(e).__name__}: {e}"[:200]})
        finally:
            import shutil
            shutil.rmtree(tmp, ignore_errors=True)
        if len(samples) < 2:
            samples.append({"case": k, "N": N, "flatten_shape": [nt, nlat]})
    return {"evaluations": evals, "distinct": evals, "failures": fails[:6], "samples": samples,
            "domain": f"{n} rounds: concatenate 1..6 spectra + select every index; flatten of (time,latitude) layouts; random operation sequences of length <= 6 with bitwise snapshots; netCDF round trip incl. NaN and infinite depth"}



def _bounded_reductions_antimeridian(tier, seed):
    """operands of mean / sum / std bit-for-bit unchanged when positions straddle the antimeridian or span more than 180 degrees (added after
    seeded change C15-3 - an in-place longitude unwrap inside mean() - was first missed: the executor refuses a store through `.values`)"""
    import numpy as np
    from ocean_science_utilities.wavespectra.spectrum import create_1d_spectrum, create_2d_spectrum
    rng = np.random.default_rng(seed + 733)
    fails, evals = [], 0
    f = np.linspace(0.05, 0.5, 6)
    d = np.linspace(0, 360, 8, endpoint=False)
    for case in range(4 if tier == "quick" else 40):
        n = int(rng.integers(2, 6))
        lons = [np.array([179.25, 179.75, -179.75, -179.25, 178.0])[:n], rng.uniform(-180, 180, n), np.linspace(-170, 170, n), rng.uniform(0, 360, n)][case % 4]
        lats = rng.uniform(-60, 60, n)
        t = np.arange(n) * 3600.0
        for kind in ("1d", "2d"):
            if kind == "1d":
                sp = create_1d_spectrum(f, rng.random((n, 6)), t, lats, lons.copy(), a1=rng.uniform(-.5, .5, (n, 6)), b1=rng.uniform(-.5, .5, (n, 6)),
                                        a2=rng.uniform(-.5, .5, (n, 6)), b2=rng.uniform(-.5, .5, (n, 6)), depth=rng.uniform(5, 500, n))
            else:
                sp = create_2d_spectrum(f, d, rng.random((n, 6, 8)), t, lats, lons.copy(), depth=rng.uniform(5, 500, n))
            for op in ("mean", "sum", "std"):
                before = {str(k): np.array(v.values, copy=True) for k, v in sp.dataset.variables.items()}
                evals += 1
                try:
                    res = getattr(sp, op)(dim="time")
                except Exception as e:
                    fails.append({"what": f"{op} raised {type(e).__name__}: {e}"[:160], "kind": kind})
                    continue
                for k, v in sp.dataset.variables.items():
                    b = before[str(k)]
                    same = b.shape == v.values.shape and (np.array_equal(b, v.values, equal_nan=True) if b.dtype.kind == "f" else np.array_equal(b, v.values))
                    if not same:
                        fails.append({"what": f"{op}(dim='time') modified its operand's variable {k!s}", "kind": kind, "longitudes_before": lons.tolist(),
                                      "after": np.asarray(v.values).tolist() if str(k) == "longitude" else None})
                if res is sp or res.dataset is sp.dataset:
                    fails.append({"what": f"{op} returned its operand", "kind": kind})
    seen, keep = set(), []
    for x in fails:
        if x["what"] not in seen:
            seen.add(x["what"])
            keep.append(x)
    return {"evaluations": evals, "distinct": evals, "failures": keep[:4], "samples": [],
            "domain": "mean / sum / std over time of 1D and 2D spectra with 2..5 members whose longitudes straddle the antimeridian, span > 180 degrees or lie in [0, 360)"}


BOUNDED = [Bounded("restructuring_and_sequences", _bounded_restructure),
           Bounded("reductions_across_the_antimeridian", _bounded_reductions_antimeridian)]

CONTRACTS = [add_c, sub_c, neg_c, copy_deep, copy_shallow, bandpass_c, multiply_c, multiply_inplace, as1d_c, bandpass_then_fillna, copy_then_fillna] + NEW
TRUSTED = ["effect model of xarray in pyvc/models/xr.py: DataArray objects are immutable buffers (a store through .values is refused as unsupported), Dataset.__setitem__ mutates only the mapping it is called on, "
           "copy(deep=True) allocates new buffers, copy()/assign share them, every arithmetic / selection method returns a new DataArray",
           "xarray.DataArray.isel / __getitem__ with an integer or a slice (step 1) on a dimension: integer drops the dimension and keeps its coordinate value as a scalar coordinate, slice keeps members lo..hi-1 in order with "
           "the coordinate sliced alike; the result is a NEW DataArray object (real xarray returns a view of the operand's buffer: no disjointness is claimed for selections, only that the call writes nothing)",
           "xarray.Dataset.assign collects dimension and scalar coordinates of the assigned variables; Dataset.dims = dimension names of the variables; Dataset.reset_coords(name) turns a scalar (non-index) coordinate into a data variable, ValueError for an index coordinate",
           "xarray.DataArray.mean / sum / std(dim, skipna=False): sum resp. sum/n resp. sqrt(mean((x-mean)^2)) (ddof=0) over the named dimension, missing iff a contribution is missing (mean/std: or the dimension is empty)",
           "xarray.concat(list of DataArrays of one layout on identical dimension coordinates, dim=new name): new leading dimension, member k = k-th argument, the arguments' scalar coordinate `dim` becomes the new dimension coordinate "
           "(differing coordinates / concatenation along an existing dimension: unsupported -> undecided)",
           "xarray.Dataset[name] = list of scalars: dimension coordinate `name`; Dataset[name] = DataArray brings its dimension coordinates along; an assignment that would re-align the variable to an index set from a list "
           "(coordinate values not identical) is unsupported -> undecided (xarray re-orders / NaN-fills there)",
           "pyvc/models/npshape.py: np.prod(tuple of ints); np.unravel_index(ind, (n1, n2)) = (ind // n2, ind % n2) with the in-range obligation; ndarray.reshape merging one or two leading axes in C order "
           "(new[q, r] = old[q // n2, q % n2, r]; sizes must provably agree)",
           "iteration over an instance of a repository class that defines __iter__ iterates the value returned by its __iter__"]
EXPLANATION = ("frame conditions proved on a symbolic heap: operands keep their Dataset object, its variable bindings and buffers, nothing is assigned into them, results are new objects around new "
               "mappings; deep copies share no buffer; in-place multiply writes only self's density; an in-place change of a result does not reach the operand. "
               "Extension: the same frame clause plus VALUE clauses for isel (integer / slice on the leading dimension), __getitem__ (leading integer / slice, frequency slice), mean / sum / std over the leading dimension "
               "(per variable: value and missing flag; time = mean time), flatten on an n1 x n2 (time x latitude) grid with symbolic sizes (count n1*n2; flattened member q = grid member (q // n2, q % n2) and grid member (i, j) = "
               "flattened member i*n2+j for density, moments, depth, longitude, time, latitude) and concatenate_spectra of N = 2, 3 single spectra with their own time / position / depth followed by isel(time=k): "
               "returns input k, every input unchanged. Selections are views in real xarray: 'unchanged operand, new object' is claimed, disjointness is not. "
               "Still bounded only: sel (nearest-label lookup), where / drop_invalid (boolean filters with reindex_like), create_1d/2d_spectrum, netCDF round trip, random operation sequences")
