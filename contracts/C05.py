"""C05 — directional estimators return valid distributions (non-negative, unit integral), batch independence."""
from fractions import Fraction
from pyvc.api import *
from pyvc.api import CalleeContract
from pyvc.loops import LoopContract
from pyvc.run import Lemma, Bounded

PROPERTY = "C05"
LEVEL = "other"
E = "wavespectra/estimators/"


def _n(x):
    return x.n if hasattr(x, "n") else len(x)


# ------------------------------------------------------------------ the distribution builder
def _p_dist(mk):
    N = mk.size("N")
    return {"lagrange_multiplier": mk.carray("lam", 4), "direction_increment": mk.array("dtheta", (N,)),
            "twiddle_factors": mk.array("tw", (4, N))}


def valid_distribution(D, dtheta, rtol=1e-9):
    n = _n(dtheta)
    return And(forall(0, n, lambda j: D[j] >= 0),
               eq(Sum(0, n, lambda j: D[j] * dtheta[j]), 1, rtol=rtol, atol=rtol))


DIST_REQ = [("grid", lambda a: And(_n(a.direction_increment) >= 1,
                                   forall(0, _n(a.direction_increment), lambda j: a.direction_increment[j] > 0)))]

distribution = Contract(
    E + "mem2.py::mem2_directional_distribution",
    params=_p_dist,
    requires=DIST_REQ,
    ensures=[("nonneg", lambda a, r: forall(0, _n(a.direction_increment), lambda j: r[j] >= 0)),
             ("unit", lambda a, r: eq(Sum(0, _n(a.direction_increment), lambda j: r[j] * a.direction_increment[j]), 1))],
    options={"result": lambda mk, a: mk.array("D", mk.st.deref(a.direction_increment).shape)},
)

# ------------------------------------------------------------------ Cholesky: the only abnormal exit is the explicit ValueError
cholesky = Contract(
    E + "mem2.py::solve_cholesky",
    params=lambda mk: {"matrix": mk.array("A", (4, 4)), "rhs": mk.array("b", (4,))},
    ensures=[("shape", lambda a, r: _n(r) == 4)],
    raises={"ValueError": lambda a: True},
    # at call sites: returns a length-4 vector or raises ValueError (exactly what is verified above)
    options={"result": lambda mk, a: mk.array("x", (4,)), "may_raise": ["ValueError"]},
)


# ------------------------------------------------------------------ Newton solver: every return path is a valid distribution
def _fresh_vec(name, n):
    return lambda mk, a: mk.array(name, (n,))


MOMENT_CONSTRAINTS = CalleeContract(E + "mem2.py::moment_constraints", _fresh_vec("F", 4),
                                    note="only the shape of the residual vector is used here (its value is the subject of C06)")
JACOBIAN = CalleeContract(E + "mem2.py::mem2_jacobian", lambda mk, a: mk.array("J", (4, 4)),
                          note="only the shape of the Jacobian is used here")
NUMBA_MEM = CalleeContract(E + "mem.py::numba_mem", lambda mk, a: mk.array("Dmem", mk.st.deref(a.directions_radians).shape),
                           assumed=True, note="returns an array of the grid's length without raising (bounded on compiled code); its value is overwritten")

CONFIG_FIELDS = {"max_iter": "int", "rcond": "real", "atol": "real", "max_line_search_depth": "int",
                 "use_mem_when_failing_to_converge": "real"}


def _p_solver(inst):
    def p(mk):
        N = mk.size("N")
        d = {"moments": mk.carray("m", 4), "guess": mk.carray("g", 4), "direction_increment": mk.array("dtheta", (N,)),
             "twiddle_factors": mk.array("tw", (4, N)), "config": None, "approximate": inst == "approximate"}
        if inst == "config":
            d["config"] = mk.record("config", CONFIG_FIELDS)
        return d
    return p


def _native_solver(kw, inst):
    import numpy as np
    out = dict(kw)
    for k in ("moments", "guess", "direction_increment", "twiddle_factors"):
        out[k] = np.ascontiguousarray(out[k], dtype="float64")
    out["approximate"] = bool(out.get("approximate", False))
    cfg = out.get("config")
    if isinstance(cfg, dict) and not hasattr(cfg, "_numba_type_"):
        import numba
        d = numba.typed.Dict.empty(key_type=numba.core.types.unicode_type, value_type=numba.core.types.float64)
        for k, v in cfg.items():
            d[k] = float(v)
        out["config"] = d
    return out


def _grid(N, rng=None):
    import numpy as np
    th = np.linspace(0, 2 * np.pi, N, endpoint=False)
    if rng is not None:
        th = (th + rng.uniform(0, 2 * np.pi)) % (2 * np.pi)
    tw = np.array([np.cos(th), np.sin(th), np.cos(2 * th), np.sin(2 * th)])
    return th, np.full(N, 2 * np.pi / N), tw


def von_mises_moments(rng, nlobes=None):
    """moments of a mixture of 1-2 von-Mises lobes plus an isotropic background (realisable)"""
    import numpy as np
    nlobes = nlobes or int(rng.integers(1, 3))
    th = np.linspace(0, 2 * np.pi, 7200, endpoint=False)
    D = np.full_like(th, rng.uniform(0, 0.3) / (2 * np.pi))
    for _ in range(nlobes):
        kappa = 10 ** rng.uniform(-1, np.log10(400))
        mu = rng.uniform(0, 2 * np.pi)
        lobe = np.exp(kappa * (np.cos(th - mu) - 1))
        D = D + rng.uniform(0.2, 1) * lobe / lobe.sum() * len(th) / (2 * np.pi)
    D = D / (D.sum() * (th[1] - th[0]))
    dth = th[1] - th[0]
    return tuple(float((D * f).sum() * dth) for f in (np.cos(th), np.sin(th), np.cos(2 * th), np.sin(2 * th)))


def unrealisable_moments(rng):
    import numpy as np
    r = np.sqrt(rng.uniform(0, 0.98))
    ph = rng.uniform(0, 2 * np.pi)
    a2, b2 = rng.uniform(-0.9, 0.9, 2)
    return float(r * np.cos(ph)), float(r * np.sin(ph)), float(a2), float(b2)


def _samples_solver(rng, tier):
    import numpy as np
    from ocean_science_utilities.wavespectra.estimators.mem2 import initial_value, NUMERICS
    out = []
    for k in range(24 if tier == "quick" else 240):
        N = int(rng.choice([8, 24, 36, 72]))
        th, dth, tw = _grid(N, rng)
        m = von_mises_moments(rng) if k % 2 == 0 else unrealisable_moments(rng)
        g = initial_value(*[np.array([v]) for v in m])[0]
        inst = ["default", "approximate", "config"][k % 3]
        kw = {"moments": np.array(m), "guess": g, "direction_increment": dth, "twiddle_factors": tw,
              "config": None, "approximate": inst == "approximate"}
        if inst == "config":
            kw["config"] = {k_: float(v) for k_, v in NUMERICS.items()}
        out.append((inst, _native_solver(kw, inst)))
    return out


def _raise_allowed(a):
    if a.config is None:
        return False
    return a.config["use_mem_when_failing_to_converge"] <= 0


solver = Contract(
    E + "mem2.py::mem2_newton_solver",
    instances=[(i, _p_solver(i)) for i in ("default", "approximate", "config")],
    requires=DIST_REQ + [("config", lambda a: True if a.config is None else And(a.config["max_iter"] >= 0, a.config["max_line_search_depth"] >= 0))],
    ensures=[("nonneg", lambda a, r: forall(0, _n(a.direction_increment), lambda j: r[j] >= 0)),
             ("unit", lambda a, r: eq(Sum(0, _n(a.direction_increment), lambda j: r[j] * a.direction_increment[j]), 1, rtol=1e-7, atol=1e-7))],
    raises={"ValueError": _raise_allowed},
    callees={distribution.target: distribution, MOMENT_CONSTRAINTS.target: MOMENT_CONSTRAINTS, JACOBIAN.target: JACOBIAN,
             NUMBA_MEM.target: NUMBA_MEM, cholesky.target: cholesky},
    loops={1: LoopContract(invariant=[]), 2: LoopContract(invariant=[])},
    native=_native_solver,
    options={"samples": _samples_solver},
)

# ------------------------------------------------------------------ direction increments (midpoint rule on the circle)
import pyvc.terms as T


def wrap_pi(x):
    """(x + pi) % (2 pi) - pi: the wrapped difference into [-pi, pi)"""
    if is_symbolic(x):
        return T.sub(T.mod(T.add(x, T.PI), T.mul(2, T.PI)), T.PI)
    import math
    return (x + math.pi) % (2 * math.pi) - math.pi


def increment_spec(d, n, j):
    """half the sum of the wrapped forward and backward differences at grid point j"""
    if is_symbolic(j, n) or hasattr(d, "_a"):
        nxt = If(j + 1 < n, d[If(j + 1 < n, j + 1, 0)], d[0])
        prv = If(j >= 1, d[If(j >= 1, j - 1, 0)], d[n - 1])
        return (wrap_pi(nxt - d[j]) + wrap_pi(d[j] - prv)) / 2
    n = int(n)
    return (wrap_pi(float(d[(j + 1) % n]) - float(d[j])) + wrap_pi(float(d[j]) - float(d[(j - 1) % n]))) / 2


def _wit_increment():
    import numpy as np
    out = [("", {"directions_radians": np.linspace(0, 2 * np.pi, 24, endpoint=False)}),
           ("", {"directions_radians": np.array([0.1, 0.5, 2.0, 3.0, 4.5, 6.0])}),
           ("", {"directions_radians": np.array([1.0])}),
           ("", {"directions_radians": (np.linspace(0, 2 * np.pi, 7, endpoint=False) + 5.0) % (2 * np.pi)})]
    return [(lambda w=w: w) for w in out]


direction_increment = Contract(
    E + "utils.py::get_direction_increment",
    params=lambda mk: {"directions_radians": mk.array("d", (mk.size("N"),))},
    requires=[("grid", lambda a: _n(a.directions_radians) >= 1)],
    ensures=[("mean_of_wrapped_forward_and_backward_difference",
              lambda a, r: And(_n(r) == _n(a.directions_radians),
                               forall(0, _n(a.directions_radians), lambda j: eq(r[j], increment_spec(a.directions_radians, _n(a.directions_radians), j)))))],
    witness=_wit_increment(),
    options={"result": lambda mk, a: mk.array("dtheta", mk.st.deref(a.directions_radians).shape)},
)

# ---- lemmas over the spec function of the increments (mirroring C02's bin-width lemmas)
class _GridView:
    def __init__(self, fn):
        self._fn = fn
        self._a = None      # marks a symbolic grid for increment_spec

    def __getitem__(self, j):
        return self._fn(T.to_z3(j))


def _lemma_uniform_increments():
    """on the uniform grid g_j = (theta_0 + j 360/N) pi/180 with N >= 3 every midpoint increment is (360/N) pi/180"""
    import z3
    N, j = z3.Ints("N_l j_l")
    th0 = z3.Real("theta0_l")
    g = _GridView(lambda k: (th0 + z3.ToReal(k) * (z3.RealVal(360) / z3.ToReal(N))) * (T.PI / 180))
    return [N >= 3, j >= 0, j < N], eq(increment_spec(g, N, j), step_rad(N))


def _lemma_step_is_two_pi_over_n():
    import z3
    N = z3.Int("N_l")
    return [N >= 1], eq(step_rad(N), 2 * T.PI / z3.ToReal(N))


def _asc_hyps(d, N):
    import z3
    j = z3.Int("gj")
    return [N >= 3, z3.ForAll([j], z3.Implies(z3.And(0 <= j, j < N - 1), z3.And(d(j + 1) - d(j) > 0, d(j + 1) - d(j) < T.PI))),
            d(N - 1) - d(0) < 2 * T.PI, d(N - 1) - d(0) > T.PI]


def _asc_setup():
    import z3
    d = z3.Function("d_l", T.IntS, T.RealS)
    N, n = z3.Ints("N_l n_l")
    g = _GridView(lambda k: d(k))
    S_ = SumOf(lambda j: increment_spec(g, N, j))
    closed = lambda m: (d(m) + d(m - 1) - d(0) - d(N - 1) + 2 * T.PI) / 2
    return d, N, n, (lambda m: S_(0, m)), closed


def _lemma_increments_prefix_base():
    d, N, n, pref, closed = _asc_setup()
    return _asc_hyps(d, N), And(eq(pref(0), 0), eq(pref(1), closed(1)))      # both applications, so that the empty-sum and split-last schemas relate them


def _lemma_increments_prefix_step():
    """induction step of  sum_{j<n} increment_j = (d_n + d_{n-1} - d_0 - d_{N-1} + 2 pi) / 2  for 1 <= n <= N-1"""
    d, N, n, pref, closed = _asc_setup()
    return _asc_hyps(d, N) + [n >= 1, n + 1 <= N - 1, pref(n) == closed(n)], eq(pref(n + 1), closed(n + 1))


def _lemma_increments_total():
    d, N, n, pref, closed = _asc_setup()
    return _asc_hyps(d, N) + [pref(N - 1) == closed(N - 1)], eq(pref(N), 2 * T.PI)


LEMMAS = [Lemma("direction_increment.uniform_grid_all_increments_equal_the_step", _lemma_uniform_increments,
                "uniform ascending grid of N >= 3 directions: every midpoint increment is (360/N) pi/180"),
          Lemma("direction_increment.step_is_two_pi_over_n", _lemma_step_is_two_pi_over_n, "(360/N) (pi/180) = 2 pi / N"),
          Lemma("direction_increment.prefix_sum_base", _lemma_increments_prefix_base, "n = 1"),
          Lemma("direction_increment.prefix_sum_step", _lemma_increments_prefix_step, "induction step on an ascending grid with gaps < pi covering the circle"),
          Lemma("direction_increment.increments_sum_to_two_pi", _lemma_increments_total, "with the prefix identity at n = N-1: the increments sum to 2 pi")]

# ------------------------------------------------------------------ estimate.py: dispatch, reshape, degrees Jacobian
# The point estimators are modelled as uninterpreted functions of the direction index and of ONE row's own four moments (for
# the direction grid of the call): a row of the result can then only be shown to be "the estimator applied to that row's
# moments" if the code hands every row its own inputs (batch independence), as in C08's batch loops.
import z3 as _z3
import pyvc.models.npshape_est   # noqa  (assumed contracts: ndarray.reshape, numpy.prod; separate from C15's npshape.py: two builders wrote one each)
from pyvc.values import Arr as _Arr

_R5 = [T.IntS] + [T.RealS] * 4
EST_UF = {v: _z3.Function("estimator_" + v, *_R5, T.RealS) for v in ("mem", "scipy", "newton", "approximate")}


def est_term(variant, j, m):
    """density (per radian) at direction index j of the estimate for the moment quadruple m = (a1, b1, a2, b2)"""
    return EST_UF[variant](T.to_z3(j), *[T.to_real(T.to_z3(x)) for x in m])


def step_rad(N):
    """the uniform bin width in radians, written as (bin width in degrees) * pi / 180  (= 2 pi / N, lemma below)"""
    if is_symbolic(N):
        return T.mul(T.div(360, N), T.div(T.PI, 180))
    import math
    return 360.0 / N * math.pi / 180


def uniform_degrees(direction, N):
    """ascending uniform grid: direction[j] = direction[0] + j * 360 / N"""
    if hasattr(direction, "_a") or is_symbolic(N):
        return forall(0, N, lambda j: eq(direction[j], direction[0] + j * T.div(360, N)), "ju")
    import numpy as np
    d = np.asarray(direction, dtype="float64")
    return bool(np.allclose(d, d[0] + np.arange(len(d)) * 360.0 / len(d), rtol=0, atol=1e-9))


def _variant_of(method, solution_method):
    m = method.lower() if isinstance(method, str) else None
    if m in ("maximum_entropy_method", "mem"):
        return "mem"
    if m in ("maximum_entrophy_method2", "mem2"):
        return solution_method if solution_method in ("scipy", "newton", "approximate") else None
    return None


class EstimatorModel:
    """result builder of the callee contracts of `mem` / `mem2` (signature: directions_radians, a1, b1, a2, b2, progress, ...).

    Call-site obligations: the grid handed over is the caller's direction grid times pi/180, the four moment arrays have one
    (points, frequencies) shape.  Result: array (points, frequencies, N) whose cell [p, i, j] is the estimator function at j of
    the moments the CALLEE received in cell [p, i].  Assumed (the estimator's own contract, on a uniform grid with N >= 3 and for
    a1^2 + b1^2 < 1): every row is non-negative and sums to one with the uniform bin width in radians."""

    def __init__(self, which):
        self.which = which

    def variant(self, mk, a):
        if self.which == "mem":
            return "mem"
        sm = mk.st.deref(a.solution_method)
        if sm not in ("scipy", "newton", "approximate"):
            from pyvc.interp import PyRaise
            from pyvc.values import ExcVal
            raise PyRaise(ExcVal("ValueError", ("Unknown method",)))
        return sm

    def __call__(self, mk, a):
        st, ctx = mk.st, mk.ctx
        v = self.variant(mk, a)
        direction = st.deref(ctx.args["direction"])
        N = direction.shape[0]
        g = st.deref(a.directions_radians)
        ok = isinstance(g, _Arr) and g.ndim == 1
        ctx.oblige(st, f"pre.{self.which}.grid_is_the_callers_direction_grid_in_radians",
                   And(eq(g.shape[0], N), forall(0, N, lambda j: eq(g.get((j,)), direction.get((j,)) * T.div(T.PI, 180)), "jg")) if ok else False)
        ms = [st.deref(x) for x in (a.a1, a.b1, a.a2, a.b2)]
        ok = all(isinstance(x, _Arr) and x.ndim == 2 for x in ms)
        ctx.oblige(st, f"pre.{self.which}.moments_are_points_by_frequencies_arrays_of_one_shape",
                   And(*[And(eq(x.shape[0], ms[0].shape[0]), eq(x.shape[1], ms[0].shape[1])) for x in ms[1:]]) if ok else False)
        if not ok:
            raise Unsupported("estimator called with something that is not a 2-d array")
        npnt, nf = ms[0].shape
        res = _Arr((npnt, nf, N), lambda ix, ms=ms, v=v: est_term(v, ix[2], [x.get((ix[0], ix[1])) for x in ms]), (), "real")
        D = lambda p, i, j: res.get((p, i, j))
        inside = lambda p, i: ms[0].get((p, i)) * ms[0].get((p, i)) + ms[1].get((p, i)) * ms[1].get((p, i)) < 1
        st.assume(T.to_z3(forall(0, npnt, lambda p: forall(0, nf, lambda i: implies(inside(p, i), And(
            forall(0, N, lambda j: D(p, i, j) >= 0, "jn"),
            eq(Sum(0, N, lambda j: D(p, i, j) * step_rad(N)), 1))), "ie"), "pe")))
        return st.alloc(res, "estimate")


MEM_BATCH = CalleeContract(E + "mem.py::mem", EstimatorModel("mem"), assumed=True,
                           note="MEM (Lygre & Krogstad): each (point, frequency) row is a function of that row's own moments, >= 0 with unit integral "
                                "(2 pi / N bins) for a1^2+b1^2 < 1 - bounded on the real code (complex arithmetic)")
MEM2_BATCH = CalleeContract(E + "mem2.py::mem2", EstimatorModel("mem2"), assumed=True,
                            note="MEM2: each row is a function of that row's own moments (the batch loops and the dispatch on solution_method are verified below; "
                                 "the distribution constructor and every exit of the Newton solver are verified >= 0 with unit integral; scipy's root finder is a library)")


def _p_estimate(method, kwargs, rank):
    def p(mk):
        N, nf = mk.size("N"), mk.size("nf")
        if rank == 1:
            shape = (nf,)
        elif rank == 2:
            shape = (mk.size("np"), nf)
        else:
            shape = (mk.size("np"), 3, nf)
        d = {k: mk.array(k, shape) for k in ("a1", "b1", "a2", "b2")}
        d["direction"] = mk.array("direction", (N,))
        d["method"] = method
        d.update(kwargs)
        return d
    return p


def _lead(a):
    """index tuples of the leading (batch) dimensions -> (ranges, cell getter)"""
    return a.a1.shape[:-1]


def _forall_rows(a, fn):
    """fn(lead index tuple, frequency index) for every row of the batch"""
    shape = a.a1.shape if hasattr(a.a1, "shape") else None
    lead, nf = tuple(shape[:-1]), shape[-1]

    def rec(k, ix):
        if k == len(lead):
            return forall(0, nf, lambda i: fn(ix, i), "i")
        return forall(0, lead[k], lambda p: rec(k + 1, ix + (p,)), "p%d" % k)
    return rec(0, ())


def _row_m(a, ix, i):
    return [x[ix + (i,)] for x in (a.a1, a.b1, a.a2, a.b2)]


def _native_row(a, variant, ix, i):
    """the estimator applied to this row alone (real code): per-radian density over the grid"""
    import numpy as np
    from ocean_science_utilities.wavespectra.estimators.mem import mem
    from ocean_science_utilities.wavespectra.estimators.mem2 import mem2
    cache = a.__dict__.setdefault("_rowcache", {})
    key = (variant, ix, i)
    if key not in cache:
        m = [np.array([[float(x[ix + (i,)])]]) for x in (a.a1, a.b1, a.a2, a.b2)]
        g = np.asarray(a.direction, dtype="float64") * (np.pi / 180)      # exactly the product estimate.py forms (the Newton iteration is sensitive to the last bit)

        class _P:
            def update(self, n):
                pass
        cache[key] = (mem(g, *m, _P()) if variant == "mem" else mem2(g, *m, _P() if variant == "scipy" else None, solution_method=variant))[0, 0, :]
    return cache[key]


def _est_variant(a):
    return _variant_of(a.method, a.__dict__.get("solution_method", "newton"))


def _post_rows(a, r):
    v = _est_variant(a)
    N = _n(a.direction)
    if hasattr(a.a1, "_a"):
        return _forall_rows(a, lambda ix, i: forall(0, N, lambda j: eq(r[ix + (i, j)], est_term(v, j, _row_m(a, ix, i)) * T.div(T.PI, 180)), "j"))
    import numpy as np
    return _forall_rows(a, lambda ix, i: bool(np.allclose(np.asarray(r)[ix + (i,)], _native_row(a, v, ix, i) * np.pi / 180, rtol=1e-9, atol=1e-12)))


def _inside(a, ix, i):
    m = _row_m(a, ix, i)
    return m[0] * m[0] + m[1] * m[1] < 1


def _post_nonneg(a, r):
    N = _n(a.direction)
    return _forall_rows(a, lambda ix, i: implies(_inside(a, ix, i), forall(0, N, lambda j: r[ix + (i, j)] >= 0, "j")))


def _post_unit(a, r):
    N = _n(a.direction)
    step = T.div(360, N) if is_symbolic(N) else 360.0 / N
    return _forall_rows(a, lambda ix, i: implies(_inside(a, ix, i), eq(Sum(0, N, lambda j: r[ix + (i, j)] * step), 1, rtol=1e-6, atol=1e-6)))


def _post_shape(a, r):
    want = tuple(a.a1.shape) + (_n(a.direction),)
    got = tuple(r.shape)
    return len(got) == len(want) and And(*[eq(x, y) for x, y in zip(got, want)])


EST_INST = [("mem", "mem", {}, 2), ("maximum_entropy_method", "maximum_entropy_method", {}, 2),
            ("mem2/default", "mem2", {}, 2), ("mem2/scipy", "mem2", {"solution_method": "scipy"}, 2),
            ("mem2/newton", "mem2", {"solution_method": "newton"}, 2), ("mem2/approximate", "mem2", {"solution_method": "approximate"}, 2),
            ("MEM2/scipy", "MEM2", {"solution_method": "scipy"}, 2), ("maximum_entrophy_method2/newton", "maximum_entrophy_method2", {"solution_method": "newton"}, 2),
            ("mem2/scipy,one_spectrum", "mem2", {"solution_method": "scipy"}, 1), ("mem,one_spectrum", "mem", {}, 1),
            ("mem2/newton,two_leading_dims", "mem2", {"solution_method": "newton"}, 3), ("mem,two_leading_dims", "mem", {}, 3)]
EST_BAD = [("unknown_method", "mem3", {}, 2), ("mem2/unknown_solution_method", "mem2", {"solution_method": "secant"}, 2)]
_GOOD = {lab for lab, *_ in EST_INST}
# with two leading dimensions (merged by reshape: div / mod index arithmetic) the shape and the row clause are proved; non-negativity and the unit integral
# of a row follow from the row clause and the estimator's contract exactly as in the other instances and are not re-derived through the index arithmetic
_GOOD12 = {lab for lab, _, _, rank in EST_INST if rank != 3}

EST_REQ = [("uniform_grid_of_at_least_three_directions", lambda a: And(_n(a.direction) >= 3, uniform_degrees(a.direction, _n(a.direction)))),
           ("dims", lambda a: And(*[d >= 0 for d in a.a1.shape]))]


import os as _os
_ONLY = _os.environ.get("C05_ONLY")      # debugging / mutant runs: restrict the instance lists below to labels containing this text


def _sel(insts):
    return [x for x in insts if _ONLY is None or _ONLY in x[0]]


def _wit_estimate():
    import numpy as np
    rng = np.random.default_rng(11)
    out = []
    for lab, method, kw, rank in _sel(EST_INST):
        N = int(rng.choice([8, 24, 36]))
        shape = {1: (4,), 2: (2, 3), 3: (2, 3, 2)}[rank]
        # Newton: realisable quadruples only.  On unrealisable ones the iteration does not converge and amplifies last-bit differences between
        # the batch and the single-row call of the COMPILED code to O(1e-2) (NOTES-C05.md, finding "Newton batch bits"); over the reals, which is
        # what the row clause proves, there is no such dependence
        newton = _variant_of(method, kw.get("solution_method", "newton")) == "newton"
        quads = np.array([von_mises_moments(rng) if (k % 2 == 0 or newton) else unrealisable_moments(rng) for k in range(int(np.prod(shape)))])
        d = {n_: quads[:, k].reshape(shape).copy() for k, n_ in enumerate(("a1", "b1", "a2", "b2"))}
        d["direction"] = np.linspace(0, 360, N, endpoint=False) + (0.0 if rank != 2 else float(rng.uniform(0, 20)))
        d["method"] = method
        d.update(kw)
        out.append((lab, d))
    return [(lambda w=w: w) for w in out]


estimate = Contract(
    E + "estimate.py::estimate_directional_distribution",
    instances=[(lab, _p_estimate(m, kw, rank)) for lab, m, kw, rank in _sel(EST_INST + EST_BAD)],
    requires=EST_REQ,
    ensures=[("leading_shape_of_the_input_plus_directions", _post_shape, _GOOD),
             ("each_row_is_the_estimator_of_its_own_moments_per_degree", _post_rows, _GOOD),
             ("non_negative", _post_nonneg, _GOOD12),
             ("unit_integral_in_degrees", _post_unit, _GOOD12)],
    raises={"ValueError": lambda a: _variant_of(a.method, a.__dict__.get("solution_method", "newton")) is None,
            "Exception": lambda a: _variant_of(a.method, "newton") is None},
    callees={MEM_BATCH.target: MEM_BATCH, MEM2_BATCH.target: MEM2_BATCH},
    witness=_wit_estimate(),
)

# ------------------------------------------------------------------ 1D -> 2D (-> 1D): FrequencySpectrum.as_frequency_direction_spectrum
from contracts.spec_common import spectrum as _spectrum, Spec as _Spec, native_spectrum as _native_spectrum, NAME_F, NAME_D, NAME_E, P as _P, S as _S, fill0 as _fill0
import contracts.C01 as _C01
import pyvc.models.xr as _xr   # noqa


def _estimate_result(mk, a):
    """call-site model of estimate_directional_distribution (its contract above): array of the leading shape + (N,) whose rows are the
    estimator of the row's own moments per degree, non-negative with unit integral in degrees for a1^2+b1^2 < 1"""
    st = mk.st
    ms = [st.deref(x) for x in (a.a1, a.b1, a.a2, a.b2)]
    direction = st.deref(a.direction)
    N = direction.shape[0]
    kw = st.deref(a.kwargs) if hasattr(a, "kwargs") else {}
    v = _variant_of(st.deref(a.method), st.deref(kw.get("solution_method", "newton")) if isinstance(kw, dict) else "newton")
    if v is None or not all(isinstance(x, _Arr) and x.ndim == 2 for x in ms):
        raise Unsupported("estimate_directional_distribution called outside the instances of its contract")
    shape = tuple(ms[0].shape) + (N,)
    res = _Arr(shape, lambda ix, ms=ms, v=v: T.mul(est_term(v, ix[2], [x.get((ix[0], ix[1])) for x in ms]), T.div(T.PI, 180)), (), "real")
    return st.alloc(res, "distribution")


class _EstArgs:
    """view of the callee's arguments for the clauses of `estimate` used at a call site (method / solution_method as attributes)"""

    def __init__(self, a):
        self.__dict__.update(a.__dict__)
        kw = a.__dict__.get("kwargs") or {}
        if isinstance(kw, dict) and "solution_method" in kw:
            self.__dict__["solution_method"] = kw["solution_method"]


estimate_at_call_sites = Contract(
    estimate.target,
    requires=[(lab, (lambda fn: lambda a: fn(_EstArgs(a)))(fn)) for lab, fn in EST_REQ],
    ensures=[("non_negative", lambda a, r: _post_nonneg(_EstArgs(a), r)), ("unit_integral_in_degrees", lambda a, r: _post_unit(_EstArgs(a), r))],
    options={"result": _estimate_result},
)


def _p_as2d(method, solution_method):
    def p(mk):
        return {"self": _spectrum(mk, "1d", nan=False, moments=True), "number_of_directions": mk.size("N"), "method": method, "solution_method": solution_method}
    return p


AS2D_INST = [("mem", "mem", "scipy"), ("mem2/scipy", "mem2", "scipy"), ("mem2/newton", "mem2", "newton"), ("mem2/approximate", "mem2", "approximate")]


def _src(a):
    return a.self.dataset.vars


def _as2d_density(a, r):
    v = _variant_of(a.method, a.solution_method)
    sp = _Spec(a.self)
    vs = _src(a)
    E2 = r.dataset.vars[NAME_E].arr
    N = a.number_of_directions
    return forall(0, sp.np_, lambda p: forall(0, sp.nf, lambda i: forall(0, N, lambda j: eq(
        E2[p, i, j], est_term(v, j, [vs[m].arr[p, i] for m in ("a1", "b1", "a2", "b2")]) * T.div(T.PI, 180) * vs[NAME_E].arr[p, i]), "j"), "i"), "p")


def _as2d_grid(a, r):
    N = a.number_of_directions
    th = r.dataset.coords[NAME_D]
    f2, f1 = r.dataset.coords[NAME_F], a.self.dataset.coords[NAME_F]
    E2 = r.dataset.vars[NAME_E]
    return And(eq(th.shape[0], N), forall(0, N, lambda j: eq(th[j], j * T.div(360, N)), "j"),
               eq(f2.shape[0], f1.shape[0]), forall(0, f1.shape[0], lambda i: eq(f2[i], f1[i]), "i"),
               tuple(E2.dims) == (_P, NAME_F, NAME_D), E2.nan is None,
               r._o.cls.qualname == "FrequencyDirectionSpectrum")


def _as2d_rest(a, r):
    vs, src = r.dataset.vars, _src(a)
    npnt = src[NAME_E].arr.shape[0]
    t2, t1 = r.dataset.coords[_P], a.self.dataset.coords[_P]

    def same(v):
        x, y = vs[v], src[v]
        flags = (x.nan is None and y.nan is None) or (x.nan is not None and y.nan is not None and forall(0, npnt, lambda p: x.nan[p] == y.nan[p], "p"))
        return And(tuple(x.dims) == (_P,), eq(x.arr.shape[0], npnt), forall(0, npnt, lambda p: eq(x.arr[p], y.arr[p]), "p"), flags)
    return And(set(vs) == {NAME_E, "depth", "latitude", "longitude"}, *[same(v) for v in ("depth", "latitude", "longitude")],
               eq(t2.shape[0], npnt), forall(0, npnt, lambda p: eq(t2[p], t1[p]), "p"))


def _as2d_native(a, r):
    """executable twin: the result against the row-by-row estimate of the real code, the grid, the carried variables and the round trip"""
    import numpy as np
    s1 = a.self
    N = int(a.number_of_directions)
    v = _variant_of(a.method, a.solution_method)
    ok = type(r).__name__ == "FrequencyDirectionSpectrum"
    ok = ok and np.allclose(r.dataset[NAME_D].values, np.arange(N) * 360.0 / N) and np.array_equal(r.dataset[NAME_F].values, s1.dataset[NAME_F].values)
    E1 = s1.dataset[NAME_E].values
    lead = E1.shape[:-1]
    rows = type("A", (), {})()
    rows.__dict__.update({m: s1.dataset[m].values for m in ("a1", "b1", "a2", "b2")})
    rows.__dict__["direction"] = r.dataset[NAME_D].values
    E2 = r.dataset[NAME_E].values
    for ix in np.ndindex(*lead):
        for i in range(E1.shape[-1]):
            ok = ok and np.allclose(E2[ix + (i,)], _native_row(rows, v, ix, i) * np.pi / 180 * E1[ix + (i,)], rtol=1e-9, atol=1e-12)
    for name in ("depth", "latitude", "longitude"):
        ok = ok and np.allclose(r.dataset[name].values, s1.dataset[name].values, equal_nan=True)
    ok = ok and np.array_equal(r.dataset["time"].values, s1.dataset["time"].values)
    ok = ok and np.allclose(r.e.values, E1, rtol=1e-9, atol=1e-12) and np.allclose(r.m0().values, s1.m0().values, rtol=1e-9, atol=1e-12)
    return bool(ok)


def _dual(fn):
    return lambda a, r: fn(a, r) if hasattr(r, "_o") else True


def _wit_as2d():
    import numpy as np
    from ocean_science_utilities.wavespectra.spectrum import create_1d_spectrum
    rng = np.random.default_rng(3)
    out = []
    for lab, method, sm in _sel(AS2D_INST):
        nf, npnt, N = 5, 2, int(rng.choice([12, 24, 36]))
        quads = np.array([von_mises_moments(rng) if (k % 2 == 0 or sm == "newton") else unrealisable_moments(rng) for k in range(nf * npnt)]).reshape(npnt, nf, 4)
        f = np.linspace(0.05, 0.5, nf)
        s1 = create_1d_spectrum(f, rng.random((npnt, nf)) + 0.1, np.arange(npnt) * 3600, np.array([10.0, 20.0]), np.array([-120.0, -121.0]),
                                a1=quads[..., 0], b1=quads[..., 1], a2=quads[..., 2], b2=quads[..., 3], depth=np.array([30.0, np.inf]))
        out.append((lab, {"self": s1, "number_of_directions": N, "method": method, "solution_method": sm}))
    return [(lambda w=w: w) for w in out]


AS2D_REQ = [("at_least_three_directions", lambda a: a.number_of_directions >= 3),
            ("dims", lambda a: And(_Spec(a.self).np_ >= 0, _Spec(a.self).nf >= 0))]


def _native_as2d(kw, inst):
    out = dict(kw)
    if isinstance(kw["self"], dict):
        out["self"] = _native_spectrum(kw["self"])
    return out


as_2d = Contract(
    _S + "FrequencySpectrum.as_frequency_direction_spectrum",
    instances=[(lab, _p_as2d(m, sm)) for lab, m, sm in _sel(AS2D_INST)],
    requires=AS2D_REQ,
    ensures=[("density_is_the_estimated_distribution_of_the_own_moments_times_e", _dual(_as2d_density)),
             ("uniform_direction_grid_same_frequencies", _dual(_as2d_grid)),
             ("time_position_depth_carried_over", _dual(_as2d_rest)),
             ("executable_twin", lambda a, r: True if hasattr(r, "_o") else _as2d_native(a, r))],
    callees={estimate.target: estimate_at_call_sites},
    native=_native_as2d, witness=_wit_as2d(),
)


# round trip: the 2D spectrum's own e (directional sum with its own bin widths: C01/C02 contracts of direction_step and e) applied to the result
def _round_trip_call(interp, st, fv, args):
    s2 = interp.call_function(st, fv, [], dict(args))
    return interp.getattr(st, s2, "e")


def _round_trip_native(kw, inst):
    return kw["self"].as_frequency_direction_spectrum(kw["number_of_directions"], method=kw["method"], solution_method=kw["solution_method"]).e


def _round_trip_post(a, r):
    sp = _Spec(a.self)
    if hasattr(r, "_o"):
        vs = _src(a)
        inside = lambda p, i: vs["a1"].arr[p, i] * vs["a1"].arr[p, i] + vs["b1"].arr[p, i] * vs["b1"].arr[p, i] < 1
        return forall(0, sp.np_, lambda p: forall(0, sp.nf, lambda i: implies(inside(p, i), And(
            Not(r.nan[p, i]) if r.nan is not None else True, eq(r.arr[p, i], vs[NAME_E].arr[p, i]))), "i"), "p")
    import numpy as np
    return bool(np.allclose(np.asarray(r.values), a.self.dataset[NAME_E].values, rtol=1e-9, atol=1e-12))


round_trip = Contract(
    _S + "FrequencySpectrum.as_frequency_direction_spectrum", label="round_trip_1d_2d_1d",
    instances=[(lab, _p_as2d(m, sm)) for lab, m, sm in _sel(AS2D_INST)],
    requires=AS2D_REQ,
    ensures=[("integrating_the_2d_spectrum_over_direction_returns_e", _round_trip_post)],
    call=_round_trip_call, callees={estimate.target: estimate_at_call_sites, _C01.direction_step.target: _C01.direction_step},
    native=_native_as2d, witness=_wit_as2d(), options={"native_call": _round_trip_native},
)

# ------------------------------------------------------------------ bounded: the four variants on compiled code
VARIANTS = [("mem", {}), ("mem2", {"solution_method": "scipy"}), ("mem2", {"solution_method": "newton"}),
            ("mem2", {"solution_method": "approximate"})]


def _bounded_variants(tier, seed):
    import numpy as np
    from ocean_science_utilities.wavespectra.estimators.estimate import estimate_directional_distribution as est
    rng = np.random.default_rng(seed + 5)
    reps = 1 if tier == "quick" else 8
    shapes = [(6,), (3, 5), (2, 2, 4)]
    failures, nfail, evals = [], {}, 0

    def fail(kind, **kw):
        nfail[kind] = nfail.get(kind, 0) + 1
        if sum(1 for f in failures if f["kind"] == kind) < 3:
            failures.append({"kind": kind, **kw})

    for method, kwargs in VARIANTS:
        vname = method + ("/" + kwargs["solution_method"] if kwargs else "")
        for N in (8, 24, 36, 72):
            direction = np.linspace(0, 360, N, endpoint=False)
            for shape in shapes * reps:
                n = int(np.prod(shape))
                quads = np.array([von_mises_moments(rng) if rng.random() < 0.5 else unrealisable_moments(rng) for _ in range(n)])
                a1, b1, a2, b2 = (quads[:, k].reshape(shape).copy() for k in range(4))
                evals += n
                try:
                    D = est(a1, b1, a2, b2, direction, method, **kwargs)
                except Exception as e:
                    fail(f"{vname}.raises", N=N, shape=list(shape), error=repr(e)[:160], moments=quads.tolist()[:8])
                    continue
                if D.shape != tuple(shape) + (N,):
                    fail(f"{vname}.shape", N=N, shape=list(shape), got=list(D.shape))
                    continue
                Df = D.reshape(n, N)
                integral = Df.sum(axis=-1) * (360.0 / N)
                neg = ~(Df >= 0).all(axis=-1)
                off = ~(np.abs(integral - 1) <= 1e-6)
                for r in np.nonzero(neg)[0][:2]:
                    fail(f"{vname}.negative", N=N, moments=quads[r].tolist(), minimum=float(np.nanmin(Df[r])))
                for r in np.nonzero(off)[0][:2]:
                    fail(f"{vname}.unit_integral_degrees", N=N, moments=quads[r].tolist(), integral=float(integral[r]))
                # batch independence: every spectrum alone gives the same row
                for r in range(n):
                    try:
                        alone = est(*[np.array([quads[r, k]]) for k in range(4)], direction, method, **kwargs)[0]
                    except Exception as e:
                        fail(f"{vname}.raises_alone", N=N, error=repr(e)[:160], moments=quads[r].tolist())
                        continue
                    if not np.allclose(alone, Df[r], rtol=1e-9, atol=1e-12, equal_nan=True):
                        fail(f"{vname}.batch_independence", N=N, shape=list(shape), row=int(r), moments=quads[r].tolist(),
                             max_abs_difference=float(np.nanmax(np.abs(alone - Df[r]))))
    for f in failures:
        f["count_of_this_kind"] = nfail[f["kind"]]
    return {"evaluations": int(evals), "distinct": int(evals), "failures": failures,
            "domain": ("estimate_directional_distribution on compiled code: variants mem, mem2/scipy, mem2/newton, mem2/approximate; N in {8,24,36,72} "
                       "uniform directions; leading batch shapes (), (nt,), (nt,nx); seeded von-Mises mixtures (kappa 0.1..400, 1-2 lobes + background) and "
                       "unrealisable quadruples with a1^2+b1^2<0.98; oracle: no exception, D>=0, sum D*360/N = 1 (1e-6), each row equals the result computed alone")}


def _bounded_newton_batch_bits(tier, seed):
    """runs the comparison in a FRESH interpreter: inside the check process (where the jitted solver has already been specialised for the witnesses) the two calls
    agree bit for bit; in a fresh process, i.e. as a user would call the library, they do not"""
    import json, subprocess, sys, os
    p = subprocess.run([sys.executable, "-c", "import json, contracts.C05 as C; print('RESULT ' + json.dumps(C._newton_batch_bits_core()))"],
                       capture_output=True, text=True, env=dict(os.environ), timeout=900)
    for line in p.stdout.splitlines():
        if line.startswith("RESULT "):
            return json.loads(line[len("RESULT "):])
    raise RuntimeError("fresh-interpreter run failed: " + (p.stderr or p.stdout)[-800:])


def _newton_batch_bits_core():
    """recorded finding (known_key C05-batch-float-nonconverging): on an unrealisable quadruple inside the unit disc the compiled MEM2-Newton estimate
    of a row computed in a batch of two differs from the same row computed alone (last-bit differences amplified by the non-converging iteration)"""
    import numpy as np
    from ocean_science_utilities.wavespectra.estimators.estimate import estimate_directional_distribution as est
    q0 = [0.6312672570054401, 0.07140273595466981, 0.6056061028216168, 0.1387758834666472]
    q1 = [0.1139165884539013, 0.757375170744544, -0.7789221416860909, -0.6700507784574791]
    cases = [(36, q0, q1), (8, q0, q1), (24, q0, q1), (36, q0, [v * 0.999 for v in q1]), (36, q1, q1), (72, q0, q1)]
    failures, evals = [], 0
    for N, first, second in cases:
        d = np.linspace(0, 360, N, endpoint=False)
        for sm in ("newton", "scipy"):
            evals += 1
            pair = est(*[np.array([first[k], second[k]]) for k in range(4)], d, "mem2", solution_method=sm)
            alone = est(*[np.array([second[k]]) for k in range(4)], d, "mem2", solution_method=sm)
            if not np.allclose(pair[1], alone[0], rtol=1e-9, atol=1e-12):
                failures.append({"kind": f"mem2/{sm}.batch_independence", "known_key": "C05-batch-float-nonconverging",
                                 "inputs": {"N": N, "first_row": first, "second_row": second, "solution_method": sm, "a1^2+b1^2_of_second_row": second[0] ** 2 + second[1] ** 2},
                                 "max_abs_difference_per_degree": float(np.abs(pair[1] - alone[0]).max()), "peak_density_per_degree": float(alone[0].max())})
    return {"evaluations": evals, "distinct": evals, "failures": failures,
            "domain": "estimate_directional_distribution(mem2, newton | scipy) on compiled code: the second row of a batch of two against the same row alone, one recorded "
                      "unrealisable quadruple (a1^2+b1^2 = 0.587) and neighbours, N in {8, 24, 36, 72}; oracle: equal within rtol 1e-9"}


BOUNDED = [Bounded("estimators.compiled", _bounded_variants, "validity, returns-without-raising and batch independence of the four variants as they run"),
           Bounded("batch_independence_nonconverging_newton", _bounded_newton_batch_bits,
                   "recorded input on which the compiled Newton variant is not batch independent in floating point (known finding C05-batch-float-nonconverging)")]

CONTRACTS = [distribution, cholesky, solver, direction_increment, estimate, as_2d, round_trip]
TRUSTED = ["ndarray.reshape in C order (same shape / leading unit axis added or removed / two leading axes merged or split) and numpy.prod of a shape tuple: pyvc/models/npshape_est.py",
           "the point estimators at the call site of estimate_directional_distribution (mem, mem2) are functions of one row's own moments on the call's grid, each row >= 0 with "
           "sum D * (360/N)(pi/180) = 1 for a1^2+b1^2 < 1 on a uniform grid of N >= 3 directions: verified for the MEM2 distribution constructor and every exit of the Newton solver, "
           "ASSUMED for MEM (complex arithmetic) and scipy's root finder; the batch loops of mem.py / mem2.py themselves are NOT under contract (stores through views) - bounded check",
           "xarray library contracts of pyvc/models/xr.py; direction_step of the 2D spectrum by its C01 contract",
           "finite e(f) and moments in the 1D spectrum (NaN cells: bounded check only); leading dimensions collapsed into one (rank-1 and (n, 3, nf) inputs of estimate.py as extra instances)"]
EXPLANATION = ("mem2_directional_distribution proved non-negative with unit integral for any finite multipliers; every return path of the MEM2 Newton solver proved to return such a distribution; "
               "get_direction_increment proved to be the mean of the wrapped forward and backward differences, = (360/N) pi/180 = 2 pi/N on a uniform grid of N >= 3 directions and summing to 2 pi on any "
               "ascending grid covering the circle (induction lemmas); estimate_directional_distribution (12 method / solution_method / rank instances) proved to hand the estimator the caller's grid in radians "
               "and every row its own moments, to return the leading shape + (N,), each row = estimator of that row's moments times pi/180, >= 0, sum D * 360/N = 1, unknown method / solution method raise; "
               "FrequencySpectrum.as_frequency_direction_spectrum proved to return D[p,f,j] e[p,f] on the uniform N-grid with time / position / depth carried over, and the 2D spectrum's own e(f) of the result "
               "proved equal to the source e(f) (round trip); the row loops of mem / mem2_newton / mem2_scipy_root_finder, MEM's formula and scipy are a bounded check on compiled code, which also records the "
               "known floating-point finding C05-batch-float-nonconverging")
