"""Symbolic executor for the Python subset of DESIGN §2.3.

Path exploration is by decision replay: one path is executed at a time with ordinary Python
control flow; at a symbolic branch the current Explorer decides (and schedules the
alternative).  Loops with symbolic trip count are summarised (map / reduction loops, with
solver-checked side conditions) or handled with a hand-written invariant from the contract.
"""
import ast
from fractions import Fraction
import z3
from . import terms as T
from . import source
from .terms import Unsupported, is_sym
from .values import (Ref, Arr, CArr, Obj, FuncVal, ClassVal, BoundMethod, LibFunc, ModVal,
                     ExcVal, ExcType, Poison, Opaque, materialise, carr_from_list)


class PathInfeasible(Exception):
    pass


class ReturnSig(Exception):
    def __init__(self, value):
        self.value = value


class BreakSig(Exception):
    pass


class ContinueSig(Exception):
    pass


class PyRaise(Exception):
    def __init__(self, exc):
        self.exc = exc


class Slice:
    def __init__(self, lo, hi, step):
        self.lo, self.hi, self.step = lo, hi, step


class Env:
    def __init__(self, vars=None, parent=None, module=None):
        self.vars = dict(vars or {})
        self.parent = parent
        self.module = module
        self.global_names = None      # names declared `global` in this function scope (set, shared by copies)

    def lookup(self, name):
        e = self
        while e is not None:
            if name in e.vars:
                return e.vars[name]
            e = e.parent
        raise KeyError(name)

    def copy(self):
        e = Env(self.vars, self.parent.copy() if self.parent else None, self.module)
        e.global_names = self.global_names
        return e


def _copy_heap_obj(o):
    if isinstance(o, list):
        return list(o)
    if isinstance(o, dict):
        return dict(o)
    if isinstance(o, Obj):
        return o.copy()
    return o


class State:
    def __init__(self):
        self.env = Env()
        self.heap = {}
        self.pc = []
        self.ghost = {}
        self.globals = {}      # (module name, variable) -> value of module-level variables written through `global`

    def snapshot(self):
        s = State()
        s.env = self.env.copy()
        s.heap = {k: _copy_heap_obj(v) for k, v in self.heap.items()}
        s.pc = list(self.pc)
        s.ghost = dict(self.ghost)
        s.globals = dict(self.globals)
        return s

    def restore(self, snap):
        c = snap.snapshot()
        self.env, self.heap, self.pc, self.ghost, self.globals = c.env, c.heap, c.pc, c.ghost, c.globals

    def alloc(self, obj, hint=""):
        r = Ref(hint)
        self.heap[r.id] = obj
        return r

    def deref(self, v):
        if isinstance(v, Ref):
            try:
                return self.heap[v.id]
            except KeyError:
                raise Unsupported(f"stale heap reference {v!r} (object created on another path)")
        return v

    def assume(self, c):
        if c is True:
            return
        if c is False:
            raise PathInfeasible()
        self.pc.append(c)


class MergeAbort(Exception):
    pass


_SIMPLE_STMTS = (ast.Assign, ast.AugAssign, ast.AnnAssign, ast.Pass, ast.Expr)


def _mergeable_if(node):
    """syntactic gate for if-conversion: both branches are assignments / expression statements / nested ifs of that kind"""
    def ok(body):
        for s_ in body:
            if isinstance(s_, ast.If):
                if not (ok(s_.body) and ok(s_.orelse)):
                    return False
            elif not isinstance(s_, _SIMPLE_STMTS):
                return False
        return True
    return ok(node.body) and ok(node.orelse)


def _merge_val(c, a, b, what):
    if a is b:
        return a
    if isinstance(a, Ref) and isinstance(b, Ref):
        if a.id == b.id:
            return a
        raise MergeAbort(what)
    if isinstance(a, bool) and isinstance(b, bool) and a == b:
        return a
    if (T.is_num(a) or T.is_boolish(a) or isinstance(a, T.XR)) and (T.is_num(b) or T.is_boolish(b) or isinstance(b, T.XR)):
        if is_sym(a) and is_sym(b) and a.eq(b):
            return a
        if T.is_boolish(a) != T.is_boolish(b):
            raise MergeAbort(what)
        return T.ite(c, a, b)
    if isinstance(a, tuple) and isinstance(b, tuple) and len(a) == len(b):
        return tuple(_merge_val(c, x, y, what) for x, y in zip(a, b))
    if isinstance(a, str) and isinstance(b, str) and a == b:
        return a
    if a is None and b is None:
        return None
    raise MergeAbort(what)


def _merge_heap_obj(c, a, b, what):
    if a is b:
        return a
    if isinstance(a, list) and isinstance(b, list) and len(a) == len(b):
        return [_merge_val(c, x, y, what) for x, y in zip(a, b)]
    if isinstance(a, dict) and isinstance(b, dict) and list(a) == list(b):
        return {k: _merge_val(c, a[k], b[k], what) for k in a}
    if isinstance(a, Obj) and isinstance(b, Obj) and a.cls is b.cls and list(a.fields) == list(b.fields):
        return Obj(a.cls, {k: _merge_val(c, a.fields[k], b.fields[k], what) for k in a.fields})
    if isinstance(a, Arr) and isinstance(b, Arr) and a.shape == b.shape and a.sort == b.sort:
        return Arr(a.shape, lambda idx, a=a, b=b: T.ite(c, a.get(idx), b.get(idx)), (), a.sort, a.name)
    raise MergeAbort(what)


def _merge_states(s0, s1, s2, c):
    """join of the two branch states of an if with condition c (both started from s0)"""
    if s1.ghost != s2.ghost:
        raise MergeAbort("ghost")
    m = s1.snapshot()
    e1, e2 = s1.env, s2.env
    names = list(dict.fromkeys(list(e1.vars) + list(e2.vars)))
    for n in names:
        if n in e1.vars and n in e2.vars:
            m.env.vars[n] = _merge_val(c, e1.vars[n], e2.vars[n], n)
        else:
            v = e1.vars[n] if n in e1.vars else e2.vars[n]
            # bound on one side only: reading it on the other side would be an UnboundLocalError; the merged value is
            # unconstrained there (a proof that depends on it fails instead of passing silently)
            if T.is_num(v) or T.is_boolish(v):
                fresh = T.Fresh.bool(n + "_unbound") if T.is_boolish(v) else (T.Fresh.int(n + "_unbound") if isinstance(v, int) or (is_sym(v) and z3.is_int(v)) else T.Fresh.real(n + "_unbound"))
                m.env.vars[n] = T.ite(c, v, fresh) if n in e1.vars else T.ite(c, fresh, v)
            else:
                raise MergeAbort(n)
    p1, p2 = s1.env.parent, s2.env.parent
    while p1 is not None or p2 is not None:
        if p1 is None or p2 is None or list(p1.vars) != list(p2.vars) or any(p1.vars[k] is not p2.vars[k] for k in p1.vars):
            raise MergeAbort("enclosing scope modified")
        p1, p2 = p1.parent, p2.parent
    for k in list(dict.fromkeys(list(s1.heap) + list(s2.heap))):
        if k in s1.heap and k in s2.heap:
            m.heap[k] = _merge_heap_obj(c, s1.heap[k], s2.heap[k], f"heap {k}")
        else:
            m.heap[k] = s1.heap[k] if k in s1.heap else s2.heap[k]     # allocated in one branch: reachable only through merged refs, which abort
    n0 = len(s0.pc)
    m.pc = list(s0.pc) + [z3.Implies(c, e) for e in s1.pc[n0 + 1:]] + [z3.Implies(z3.Not(c), e) for e in s2.pc[n0 + 1:]]
    return m


class Explorer:
    """Depth-first enumeration of the feasible paths of `thunk` from the current state."""
    MAX_PATHS = 400

    def __init__(self, interp, st):
        self.interp, self.st = interp, st
        self.script, self.pos = [], 0
        self.stack = []

    def decide(self, cond):
        """Returns the truth value chosen for symbolic condition `cond` on this path."""
        if getattr(self.interp, "_merging", 0):
            raise MergeAbort("fork inside a branch that is being if-converted")
        st = self.st
        if self.pos < len(self.script):
            d = self.script[self.pos]
        else:
            ft = self.interp.feasible(st, cond)
            ff = self.interp.feasible(st, z3.Not(cond))
            if ft and ff:
                self.stack.append(self.script[: self.pos] + [False])
                d = True
            elif ft:
                d = True
            elif ff:
                d = False
            else:
                raise PathInfeasible()
            self.script = self.script[: self.pos] + [d]
        self.pos += 1
        st.assume(cond if d else z3.Not(cond))
        return d

    def run(self, thunk):
        """thunk() executes one path (mutating self.st).  Returns [(state_snapshot, kind, payload)]
        with kind in ok / return / break / continue / raise."""
        snap = self.st.snapshot()
        results = []
        self.stack = [[]]
        prev = self.interp.explorer
        self.interp.explorer = self
        try:
            while self.stack:
                self.script, self.pos = self.stack.pop(), 0
                self.st.restore(snap)
                try:
                    v = thunk()
                    out = ("ok", v)
                except PathInfeasible:
                    continue
                except ReturnSig as r:
                    out = ("return", r.value)
                except BreakSig:
                    out = ("break", None)
                except ContinueSig:
                    out = ("continue", None)
                except PyRaise as e:
                    out = ("raise", e.exc)
                results.append((self.st.snapshot(), out[0], out[1]))
                if len(results) > (self.interp.ctx.contract.options.get("max_paths", self.MAX_PATHS) if getattr(self.interp.ctx, "contract", None) is not None else self.MAX_PATHS):
                    raise Unsupported("path explosion")
        finally:
            self.interp.explorer = prev
        return results


BUILTIN_EXC = set(ExcType.HIER)
_GEN_CACHE = {}


def _is_generator(fn_node):
    k = id(fn_node)
    if k not in _GEN_CACHE:
        found = False
        stack = list(fn_node.body)
        while stack and not found:
            n = stack.pop()
            if isinstance(n, (ast.Yield, ast.YieldFrom)):
                found = True
            elif isinstance(n, (ast.FunctionDef, ast.Lambda, ast.ClassDef)):
                continue
            else:
                stack.extend(ast.iter_child_nodes(n))
        _GEN_CACHE[k] = found
    return _GEN_CACHE[k]


class Interp:
    def __init__(self, ctx):
        self.ctx = ctx            # verification context: contracts, obligations, options
        self.explorer = None
        self.depth = 0
        self._feas_cache = {}
        from . import lib
        self.lib = lib
        self.stats = {"feasibility_queries": 0, "loops_summarised": 0, "loops_unrolled": 0,
                      "loops_invariant": 0, "calls_inlined": 0, "calls_by_contract": 0}

    # ------------------------------------------------------------------ solver helpers
    def feasible(self, st, cond):
        if isinstance(cond, bool):
            return cond
        self.stats["feasibility_queries"] += 1
        s = z3.Solver()
        fs = list(st.pc) + [cond]
        opt = self.ctx.contract.options.get("feasibility") if self.ctx is not None and getattr(self.ctx, "contract", None) is not None else None
        if opt == "abstract":
            # branch-heavy code over nonlinear terms: feasibility is decided on the nonlinear abstraction (products as
            # uninterpreted functions) with a short budget.  `unsat` there is `unsat` of the original; anything else keeps
            # the path (an infeasible path kept only adds obligations with an inconsistent hypothesis set).
            s.set("timeout", 400)
            s.add(*T.abstract_nonlinear(fs))
            return s.check() != z3.unsat
        s.set("timeout", 1500)
        s.add(*fs)
        s.add(*T.theory_axioms(fs))
        r = s.check()
        return r != z3.unsat

    def valid(self, st, goal, timeout=5000, extra=()):
        """Is pc => goal valid?  (used for side conditions of loop summaries)"""
        if goal is True:
            return True
        if goal is False:
            return False
        s = z3.Solver()
        s.set("timeout", timeout)
        fs = list(st.pc) + list(extra) + [z3.Not(goal)]
        s.add(*fs)
        s.add(*T.theory_axioms(fs))
        s.add(*T.sum_axioms(fs))
        s.add(*T.ext_axioms(fs))
        return s.check() == z3.unsat

    def concrete_int(self, st, n, limit=64):
        """The integer c in [0, limit] with pc => n == c, if there is one (a symbolic size that the path condition pins down,
        e.g. the length of x[i:min(i + 3, n)] when i + 3 <= n is known); otherwise None.  The candidate comes from a model
        of the path condition, the equality is then proved - nothing is assumed."""
        if isinstance(n, int):
            return n
        if not (is_sym(n) and z3.is_int(n)):
            return None
        n = z3.simplify(n)
        if z3.is_int_value(n):
            return n.as_long()
        # only the quantifier-free linear part of the path condition is used (a subset of the hypotheses: sound, and the
        # answer does not depend on how long the solver spends on unrelated nonlinear / quantified facts)
        def isnum(x):
            return z3.is_rational_value(x) or z3.is_int_value(x)

        def integer_only(f):
            if not z3.is_expr(f) or z3.is_quantifier(f):
                return False
            for x in T.subterms(f).values():
                if z3.is_quantifier(x):
                    return False
                if z3.is_app(x):
                    k = x.decl().kind()
                    if k == z3.Z3_OP_POWER or (k == z3.Z3_OP_MUL and sum(1 for c in x.children() if not isnum(c)) >= 2) \
                            or (k in (z3.Z3_OP_DIV, z3.Z3_OP_IDIV, z3.Z3_OP_MOD) and not isnum(x.arg(1))):
                        return False
            return True
        hyps = [f for f in st.pc if integer_only(f)]
        s = z3.Solver()
        s.set("timeout", 3000)
        s.add(*hyps)
        if s.check() != z3.sat:
            return None
        c = s.model().eval(n, model_completion=True)
        if not z3.is_int_value(c) or not (0 <= c.as_long() <= limit):
            return None
        c = c.as_long()
        s.add(n != c)
        return c if s.check() == z3.unsat else None

    def truth(self, st, v):
        """Python truthiness of v on this path (forks on symbolic booleans)."""
        v = st.deref(v)
        if isinstance(v, bool):
            return v
        if v is None:
            return False
        if is_sym(v):
            if z3.is_bool(v):
                v = z3.simplify(v)
                if z3.is_true(v):
                    return True
                if z3.is_false(v):
                    return False
                if self.explorer is None:
                    raise Unsupported("symbolic branch outside exploration")
                return self.explorer.decide(v)
            return self.truth(st, v != 0)
        if isinstance(v, (int, Fraction)):
            return v != 0
        if isinstance(v, (str, tuple, list, dict)):
            return len(v) > 0
        if isinstance(v, Arr):
            raise Unsupported("truth value of an array")
        if isinstance(v, T.XR):
            raise Unsupported("truth value of a possibly-NaN number")
        return True

    # ------------------------------------------------------------------ names
    def lookup(self, st, name):
        try:
            return st.env.lookup(name)
        except KeyError:
            pass
        e = st.env
        mod = None
        while e is not None:
            if e.module is not None:
                mod = e.module
                break
            e = e.parent
        if mod is not None:
            if (mod.name, name) in st.globals:
                return st.globals[(mod.name, name)]
            v = self.module_attr(st, mod, name, missing=KeyError)
            if v is not KeyError:
                return v
        if name in self.lib.BUILTINS:
            return self.lib.BUILTINS[name]
        if name in BUILTIN_EXC:
            return ExcType(name)
        if name in ("IOError", "EnvironmentError"):      # aliases of OSError
            return ExcType("OSError")
        if name in ("__name__", "__package__") and mod is not None:
            return mod.name if name == "__name__" else mod.name.rsplit(".", 1)[0]
        raise Unsupported(f"unresolved name {name}")

    def module_attr(self, st, mod, name, missing=None):
        """Resolve a module-level name of a repository module (lazily, memoised)."""
        if name in mod.cache:
            cached = mod.cache[name]
            # module-level objects (e.g. AIR = FluidProperties(...)) live on the heap of the state that first
            # evaluated them: re-evaluate when the current heap does not hold the object
            if not (isinstance(cached, Ref) and cached.id not in st.heap):
                return cached
        v = missing
        if name in mod.defs:
            node = mod.defs[name]
            if isinstance(node, ast.FunctionDef):
                v = FuncVal(mod, node, name)
            else:
                v = self.make_class(st, mod, node)
        elif name in mod.assigns:
            sub = State()
            sub.env = Env(module=mod)
            sub.heap = st.heap
            v = self.ev(mod.assigns[name], sub)
        elif name in mod.imports:
            imp = mod.imports[name]
            if imp[0] == "module":
                v = self.import_module(imp[1])
            else:
                m2 = source.load_module(imp[1]) if imp[1].startswith(source.PKG) else None
                if m2 is not None:
                    v = self.module_attr(st, m2, imp[2], missing=KeyError)
                    if v is KeyError:
                        sm = source.load_module(imp[1] + "." + imp[2])
                        if sm is None:
                            raise Unsupported(f"cannot resolve {imp[1]}.{imp[2]}")
                        v = sm
                else:
                    v = self.lib.lookup(imp[1] + "." + imp[2])
        if v is not missing:
            mod.cache[name] = v
        return v

    def import_module(self, name):
        if name.startswith(source.PKG):
            m = source.load_module(name)
            if m is not None:
                return m
        return ModVal(name)

    def make_class(self, st, mod, node):
        c = ClassVal(mod, node, node.name)
        mod.cache[node.name] = c
        for b in node.bases:
            try:
                sub = State()
                sub.env = Env(module=mod)
                sub.heap = st.heap
                c.bases.append(self.ev(b, sub))
            except Unsupported:
                c.bases.append(Opaque("base"))
        return c

    def class_lookup(self, cls, name, want_setter=False):
        """(FuncVal, kind) of attribute `name` along the MRO (single inheritance chain)."""
        seen = []
        work = [cls]
        while work:
            c = work.pop(0)
            if not isinstance(c, ClassVal):
                continue
            found = None
            for stn in c.node.body:
                if isinstance(stn, ast.FunctionDef) and stn.name == name:
                    decos = [ast.unparse(d) for d in stn.decorator_list]
                    is_setter = any(d.endswith(".setter") for d in decos)
                    if is_setter != want_setter:
                        continue
                    kind = "method"
                    if "property" in decos or is_setter:
                        kind = "property"
                    elif "staticmethod" in decos:
                        kind = "static"
                    elif "classmethod" in decos:
                        kind = "classmethod"
                    found = (FuncVal(c.module, stn, f"{c.qualname}.{name}", cls=c), kind)
                elif isinstance(stn, ast.Assign) and len(stn.targets) == 1 and isinstance(
                        stn.targets[0], ast.Name) and stn.targets[0].id == name and not want_setter:
                    found = (stn.value, "classattr", c)
                elif isinstance(stn, ast.AnnAssign) and isinstance(stn.target, ast.Name) and stn.target.id == name \
                        and stn.value is not None and not want_setter:
                    found = (stn.value, "classattr", c)        # annotated class attribute / dataclass field default
            if found:
                return found
            work = list(c.bases) + work
        return None

    # ------------------------------------------------------------------ expressions
    def ev(self, node, st):
        m = getattr(self, "ev_" + type(node).__name__, None)
        if m is None:
            raise Unsupported(f"expression {type(node).__name__}")
        return m(node, st)

    def ev_Constant(self, node, st):
        v = node.value
        if isinstance(v, float):
            return T.from_float(v)
        if isinstance(v, complex):
            r = self.lib._hook("complex_literal")(self, st, v)      # pyvc/models/cplx.py when a contract imports it
            if r is not NotImplemented:
                return r
            raise Unsupported("complex literal")
        return v

    def ev_Name(self, node, st):
        v = self.lookup(st, node.id)
        if isinstance(v, Poison):
            raise Unsupported(f"use of {node.id}: {v.why}")
        return v

    def ev_Tuple(self, node, st):
        out = []
        for e in node.elts:
            if isinstance(e, ast.Starred):
                out.extend(self.iterate(st, self.ev(e.value, st)))
            else:
                out.append(self.ev(e, st))
        return tuple(out)

    def ev_List(self, node, st):
        return st.alloc(list(self.ev_Tuple(node, st)), "list")

    def ev_Dict(self, node, st):
        d = {}
        for k, v in zip(node.keys, node.values):
            if k is None:
                d.update(st.deref(self.ev(v, st)))
            else:
                d[self.ev(k, st)] = self.ev(v, st)
        return st.alloc(d, "dict")

    def ev_Set(self, node, st):
        return frozenset(self.ev(e, st) for e in node.elts)

    def ev_JoinedStr(self, node, st):
        parts = []
        for v in node.values:
            if isinstance(v, ast.Constant):
                parts.append(v.value)
            else:
                try:
                    x = st.deref(self.ev(v.value, st))
                except Unsupported:
                    x = Opaque("fmt")
                if isinstance(x, (str, int)) and not isinstance(x, bool) and v.format_spec is None:
                    parts.append(str(x))
                else:
                    return Opaque("fstring")
        return "".join(parts)

    def ev_Lambda(self, node, st):
        fn = ast.FunctionDef(name="<lambda>", args=node.args, body=[ast.Return(value=node.body)],
                             decorator_list=[], returns=None, type_comment=None, type_params=[])
        ast.copy_location(fn, node)
        ast.fix_missing_locations(fn)
        return FuncVal(self.cur_module(st), fn, "<lambda>", closure=st.env)

    def cur_module(self, st):
        e = st.env
        while e is not None:
            if e.module is not None:
                return e.module
            e = e.parent
        return None

    def ev_IfExp(self, node, st):
        c = self.ev(node.test, st)
        c = st.deref(c)
        if is_sym(c) and z3.is_bool(c):
            # pure conditional expression: merge instead of forking when both sides are scalars
            snap_pc = len(st.pc)
            try:
                a = self.ev(node.body, st)
                b = self.ev(node.orelse, st)
                if T.is_val(a) and T.is_val(b) and len(st.pc) == snap_pc:
                    return T.ite(c, a, b)
            except Unsupported:
                pass
        if self.truth(st, c):
            return self.ev(node.body, st)
        return self.ev(node.orelse, st)

    def ev_BoolOp(self, node, st):
        is_and = isinstance(node.op, ast.And)
        acc = None
        for i, e in enumerate(node.values):
            v = st.deref(self.ev(e, st))
            if isinstance(v, bool) or not (is_sym(v) and z3.is_bool(v)):
                t = v if isinstance(v, bool) else self.truth(st, v)
                if is_and and not t:
                    return v if acc is None else (False if isinstance(v, bool) else v)
                if (not is_and) and t:
                    return v if acc is None else (True if isinstance(v, bool) else v)
                continue
            acc = v if acc is None else (z3.And(acc, v) if is_and else z3.Or(acc, v))
        if acc is None:
            return is_and if True else None
        return acc

    def ev_UnaryOp(self, node, st):
        v = st.deref(self.ev(node.operand, st))
        if isinstance(node.op, ast.Not):
            if isinstance(v, Arr):
                raise Unsupported("not array")
            if is_sym(v) and z3.is_bool(v):
                return z3.Not(v)
            return not self.truth(st, v)
        if isinstance(v, (Arr, self.lib.MaskedSel)):
            if isinstance(node.op, ast.USub):
                return self.lib.ew(st, T.neg, v)
            if isinstance(node.op, ast.Invert):
                return self.lib.ew(st, T.lnot, v, sort="bool")
            raise Unsupported("unary op on array")
        if isinstance(v, Obj):
            r = self.lib.obj_binop(self, st, "ufunc:" + {"USub": "neg", "Invert": "invert", "UAdd": "pos"}[type(node.op).__name__], v, None)
            if r is not NotImplemented:
                return r
            name = {"USub": "__neg__", "Invert": "__invert__", "UAdd": "__pos__"}[type(node.op).__name__]
            return self.call_method(st, v, name, [], {})
        if isinstance(node.op, ast.USub) and T.is_val(v):
            return T.neg(v)
        if isinstance(node.op, ast.UAdd):
            return v
        if isinstance(node.op, ast.Invert):
            if T.is_boolish(v):
                return T.lnot(v)
        raise Unsupported("unary operator")

    BINOPS = {"Add": T.add, "Sub": T.sub, "Mult": T.mul, "Div": T.div, "FloorDiv": T.floordiv,
              "Mod": T.mod, "Pow": T.power}
    DUNDER = {"Add": "add", "Sub": "sub", "Mult": "mul", "Div": "truediv", "FloorDiv": "floordiv",
              "Mod": "mod", "Pow": "pow", "BitAnd": "and", "BitOr": "or"}

    def binop(self, st, opname, a, b):
        a, b = st.deref(a), st.deref(b)
        for x in (a, b):
            if isinstance(x, Poison):
                raise Unsupported(x.why)
        if isinstance(a, Obj) or isinstance(b, Obj):
            r = self.lib.obj_binop(self, st, opname, a, b)
            if r is not NotImplemented:
                return r
            if isinstance(a, Obj):
                return self.call_method(st, a, f"__{self.DUNDER[opname]}__", [b], {})
            return self.call_method(st, b, f"__r{self.DUNDER[opname]}__", [a], {})
        arrish = (Arr, self.lib.MaskedSel)
        if opname in ("BitAnd", "BitOr"):
            f = T.land if opname == "BitAnd" else T.lor
            if isinstance(a, arrish) or isinstance(b, arrish):
                return self.lib.ew(st, f, a, b, sort="bool")
            if T.is_boolish(a) and T.is_boolish(b):
                return f(a, b)
            raise Unsupported("bitwise operator on numbers")
        if isinstance(a, arrish) or isinstance(b, arrish):
            if opname not in self.BINOPS:
                raise Unsupported(f"operator {opname} on arrays")
            return self.lib.ew(st, self.BINOPS[opname], a, b)
        if isinstance(a, str) and isinstance(b, str) and opname == "Add":
            return a + b
        if isinstance(a, str) and opname == "Mod":
            return Opaque("str%")
        if opname == "Mult" and (isinstance(a, str) or isinstance(b, str)):
            s_, k_ = (a, b) if isinstance(a, str) else (b, a)
            if isinstance(k_, int) and not isinstance(k_, bool):
                return s_ * k_
            if is_sym(k_) and z3.is_int(k_):
                return Opaque("str*")         # repetition of a string a symbolic number of times: some string
        if isinstance(a, Opaque) and a.what.startswith(("str", "fstring")) and isinstance(b, (str, Opaque)) and opname == "Add":
            return Opaque("str+")
        if isinstance(a, (tuple, list)) and isinstance(b, (tuple, list)) and opname == "Add":
            return tuple(a) + tuple(b) if isinstance(a, tuple) else st.alloc(list(a) + list(b))
        if isinstance(a, (tuple, list)) and isinstance(b, int) and opname == "Mult":
            return a * b if isinstance(a, tuple) else st.alloc(list(a) * b)
        if opname not in self.BINOPS:
            raise Unsupported(f"operator {opname}")
        if not T.is_val(a) or not T.is_val(b):
            r = self.lib.special_binop(self, st, opname, a, b)
            if r is not NotImplemented:
                return r
            raise Unsupported(f"operator {opname} on {type(a).__name__},{type(b).__name__}")
        return self.BINOPS[opname](a, b)

    def ev_BinOp(self, node, st):
        a = self.ev(node.left, st)
        b = self.ev(node.right, st)
        return self.binop(st, type(node.op).__name__, a, b)

    CMPS = {"Lt": "<", "LtE": "<=", "Gt": ">", "GtE": ">=", "Eq": "==", "NotEq": "!="}

    def compare(self, st, opn, a, b):
        a, b = st.deref(a), st.deref(b)
        if opn in ("Is", "IsNot"):
            if a is None or b is None:
                r = (a is None) and (b is None)
            elif isinstance(a, (Obj, Arr, list, dict)) or isinstance(b, (Obj, Arr, list, dict)):
                r = a is b
            else:
                r = self.compare(st, "Eq", a, b)
                if not isinstance(r, bool):
                    raise Unsupported("identity of symbolic values")
            return r if opn == "Is" else (not r)
        if opn in ("In", "NotIn"):
            r = self.contains(st, b, a)
            return r if opn == "In" else T.lnot(r)
        op = self.CMPS[opn]
        if isinstance(a, (Arr, self.lib.MaskedSel)) or isinstance(b, (Arr, self.lib.MaskedSel)):
            return self.lib.ew(st, lambda x, y: T.cmp(op, x, y), a, b, sort="bool")
        if isinstance(a, Obj) or isinstance(b, Obj):
            r = self.lib.obj_compare(self, st, op, a, b)
            if r is not NotImplemented:
                return r
        if T.is_val(a) and T.is_val(b):
            return T.cmp(op, a, b)
        if a is None or b is None:
            if op == "==":
                return a is None and b is None
            if op == "!=":
                return not (a is None and b is None)
        if isinstance(a, (str, tuple, frozenset, ExcType)) or isinstance(b, (str, tuple, frozenset)):
            if isinstance(a, Opaque) or isinstance(b, Opaque):
                raise Unsupported("comparison with opaque value")
            if type(a) != type(b) and op in ("==", "!="):
                if is_sym(a) or is_sym(b):
                    raise Unsupported("comparison of symbolic and structured value")
                return op == "!="
            return {"<": lambda: a < b, "<=": lambda: a <= b, ">": lambda: a > b,
                    ">=": lambda: a >= b, "==": lambda: a == b, "!=": lambda: a != b}[op]()
        r = self.lib.special_compare(self, st, op, a, b)
        if r is not NotImplemented:
            return r
        raise Unsupported(f"comparison {op} of {type(a).__name__} and {type(b).__name__}")

    def contains(self, st, container, item):
        container, item = st.deref(container), st.deref(item)
        if isinstance(container, dict):
            return item in container
        if isinstance(container, (list, tuple, frozenset)):
            acc = False
            for x in container:
                x = st.deref(x)
                if isinstance(x, str) or isinstance(item, str) or x is None or item is None:
                    e = (x == item) if type(x) == type(item) else False
                else:
                    e = self.compare(st, "Eq", item, x)
                acc = T.lor(acc, e)
            return acc
        if isinstance(container, str) and isinstance(item, str):
            return item in container
        r = self.lib.special_contains(self, st, container, item)
        if r is not NotImplemented:
            return r
        raise Unsupported("membership test")

    def ev_Compare(self, node, st):
        left = self.ev(node.left, st)
        acc = True
        for op, comp in zip(node.ops, node.comparators):
            right = self.ev(comp, st)
            r = self.compare(st, type(op).__name__, left, right)
            if isinstance(r, Arr):
                if len(node.ops) > 1:
                    raise Unsupported("chained array comparison")
                return r
            acc = T.land(acc, r) if not isinstance(r, Ref) else r
            left = right
        return acc

    def ev_Attribute(self, node, st):
        obj = self.ev(node.value, st)
        return self.getattr(st, obj, node.attr)

    def getattr(self, st, obj, name):
        o = st.deref(obj)
        if isinstance(o, source.Module):
            v = self.module_attr(st, o, name, missing=KeyError)
            if v is KeyError:
                sm = source.load_module(o.name + "." + name)
                if sm is not None:
                    return sm
                raise Unsupported(f"module attribute {o.name}.{name}")
            return v
        if isinstance(o, ModVal):
            return self.lib.lookup(o.name + "." + name)
        if isinstance(o, Obj):
            if name in o.fields:
                return o.fields[name]
            if name == "__class__" and isinstance(o.cls, ClassVal):
                return o.cls
            r = self.lib.obj_getattr(self, st, obj, o, name)
            if r is not NotImplemented:
                return r
            if isinstance(o.cls, ClassVal):
                found = self.class_lookup(o.cls, name)
                if found:
                    if found[1] == "property":
                        return self.call_function(st, found[0], [obj], {})
                    if found[1] == "static":
                        return found[0]
                    if found[1] == "classattr":
                        sub = State()
                        sub.env = Env(module=found[2].module)
                        sub.heap = st.heap
                        return self.ev(found[0], sub)
                    return BoundMethod(found[0], obj)
            raise Unsupported(f"attribute {name} of {getattr(o.cls, 'qualname', o.cls)}")
        if isinstance(o, ClassVal):
            found = self.class_lookup(o, name)
            if found:
                if found[1] == "classattr":
                    sub = State()
                    sub.env = Env(module=found[2].module)
                    sub.heap = st.heap
                    return self.ev(found[0], sub)
                if found[1] == "classmethod":
                    return BoundMethod(found[0], o)
                return found[0]
            raise Unsupported(f"class attribute {name}")
        r = self.lib.value_getattr(self, st, obj, o, name)
        if r is not NotImplemented:
            return r
        raise Unsupported(f"attribute {name} of {type(o).__name__}")

    def ev_Slice(self, node, st):
        return Slice(self.ev(node.lower, st) if node.lower else None,
                     self.ev(node.upper, st) if node.upper else None,
                     self.ev(node.step, st) if node.step else None)

    def ev_Subscript(self, node, st):
        obj = self.ev(node.value, st)
        idx = self.ev(node.slice, st)
        return self.getitem(st, obj, idx)

    def getitem(self, st, obj, idx):
        o = st.deref(obj)
        idx = st.deref(idx) if isinstance(idx, Ref) and isinstance(st.deref(idx), Arr) else idx
        if isinstance(o, Arr):
            return self.lib.arr_getitem(self, st, o, idx)
        if isinstance(o, self.lib.MaskedSel):
            return self.lib.sel_getitem(self, st, o, idx)
        if isinstance(o, dict):
            k = st.deref(idx)
            if k not in o:
                if is_sym(k):
                    raise Unsupported("symbolic dict key")
                raise PyRaise(ExcVal("KeyError", (k,)))
            return o[k]
        if isinstance(o, (list, tuple, str)):
            if isinstance(idx, Slice):
                lo, hi, step = idx.lo, idx.hi, idx.step
                if any(is_sym(x) for x in (lo, hi, step)):
                    raise Unsupported("symbolic slice of a sequence")
                r = o[slice(lo, hi, step)]
                return st.alloc(list(r), "list") if isinstance(o, list) else r
            if isinstance(idx, int):
                try:
                    return o[idx]
                except IndexError:
                    raise PyRaise(ExcVal("IndexError", ()))
            if is_sym(idx) and isinstance(o, (list, tuple)) and o and all(T.is_num(st.deref(x)) for x in o):
                v = None
                for k, x in enumerate(o):
                    v = x if v is None else T.ite(idx == k, x, v)
                return v
            raise Unsupported("sequence index")
        r = self.lib.special_getitem(self, st, obj, o, idx)
        if r is not NotImplemented:
            return r
        raise Unsupported(f"subscript of {type(o).__name__}")

    def ev_ListComp(self, node, st):
        out = []
        self._comp(node, st, 0, lambda: out.append(self.ev(node.elt, st)))
        return st.alloc(out, "list")

    ev_GeneratorExp = ev_ListComp

    def ev_DictComp(self, node, st):
        out = {}

        def add():
            out[self.ev(node.key, st)] = self.ev(node.value, st)
        self._comp(node, st, 0, add)
        return st.alloc(out, "dict")

    def _comp(self, node, st, k, emit):
        if k == len(node.generators):
            emit()
            return
        g = node.generators[k]
        it = self.iterate(st, self.ev(g.iter, st))
        saved = dict(st.env.vars)
        for x in it:
            self.assign(st, g.target, x)
            if all(self.truth(st, self.ev(c, st)) for c in g.ifs):
                self._comp(node, st, k + 1, emit)
        # comprehension variables do not leak
        for n in list(st.env.vars):
            if n not in saved:
                del st.env.vars[n]

    def ev_NamedExpr(self, node, st):
        v = self.ev(node.value, st)
        self.assign(st, node.target, v)
        return v

    def ev_Starred(self, node, st):
        raise Unsupported("starred expression")

    # ---- generators: the body is run to completion at the call and the yielded values are returned as a
    # list.  Same values in the same order as lazy evaluation provided generator and consumer do not
    # interfere (the generator reads nothing the consuming loop writes, and has no effects of its own);
    # every generator function used this way is listed in the run's library/assumption list.
    def ev_Yield(self, node, st):
        sink = st.ghost.get("__yield_sink__")
        if sink is None:
            raise Unsupported("yield outside a generator call")
        v = self.ev(node.value, st) if node.value is not None else None
        st.deref(sink).append(v)
        return None

    def ev_YieldFrom(self, node, st):
        sink = st.ghost.get("__yield_sink__")
        if sink is None:
            raise Unsupported("yield from outside a generator call")
        st.deref(sink).extend(self.iterate(st, self.ev(node.value, st)))
        return None

    # ------------------------------------------------------------------ iteration
    def iterate(self, st, v):
        """Concrete-length iteration: returns a Python list of element values."""
        o = st.deref(v)
        if isinstance(o, (list, tuple)):
            return list(o)
        if isinstance(o, dict):
            return list(o.keys())
        if isinstance(o, str):
            return list(o)
        if isinstance(o, frozenset):
            return sorted(o, key=repr)
        if isinstance(o, self.lib.RangeVal):
            if all(isinstance(x, int) for x in (o.lo, o.hi, o.step)):
                return list(range(o.lo, o.hi, o.step))
            raise Unsupported("symbolic range in a concrete iteration context")
        if isinstance(o, Arr):
            if isinstance(o.shape[0], int):
                return [self.lib.arr_getitem(self, st, o, i) for i in range(o.shape[0])]
            raise Unsupported("iteration over an array of symbolic length")
        r = self.lib.special_iterate(self, st, v, o)
        if r is not NotImplemented:
            return r
        raise Unsupported(f"iteration over {type(o).__name__}")

    # ------------------------------------------------------------------ calls
    def ev_Call(self, node, st):
        f = self.ev(node.func, st)
        args = []
        for a in node.args:
            if isinstance(a, ast.Starred):
                args.extend(self.iterate(st, self.ev(a.value, st)))
            else:
                args.append(self.ev(a, st))
        kwargs = {}
        for k in node.keywords:
            if k.arg is None:
                d = st.deref(self.ev(k.value, st))
                if not isinstance(d, dict):
                    raise Unsupported("** of non-dict")
                kwargs.update(d)
            else:
                kwargs[k.arg] = self.ev(k.value, st)
        return self.call(st, f, args, kwargs, node)

    def call(self, st, f, args, kwargs, node=None):
        f = st.deref(f)
        if isinstance(f, LibFunc):
            return f.impl(self, st, args, kwargs)
        if isinstance(f, BoundMethod):
            return self.call(st, f.func, [f.self_val] + list(args), kwargs, node)
        if isinstance(f, FuncVal):
            return self.call_function(st, f, args, kwargs)
        if isinstance(f, ClassVal):
            return self.instantiate(st, f, args, kwargs)
        if isinstance(f, ExcType):
            return ExcVal(f.name, tuple(args))
        if isinstance(f, self.lib.TypeTag):
            if f.ctor is None:
                c = self.lib.BUILTINS.get(f.name)
                if c is not None:
                    return c.impl(self, st, args, kwargs)
                raise Unsupported(f"constructor of {f.name}")
            self.lib.USED.add(f.name)
            return f.ctor(self, st, args, kwargs)
        if callable(f) and not isinstance(f, (Obj,)):
            return f(self, st, args, kwargs)
        if isinstance(f, Obj):
            return self.call_method(st, f, "__call__", args, kwargs)
        raise Unsupported(f"call of {type(f).__name__}")

    def call_method(self, st, objv, name, args, kwargs):
        o = st.deref(objv)
        m = self.getattr(st, objv if isinstance(objv, Ref) else o, name)
        return self.call(st, m, args, kwargs)

    def instantiate(self, st, cls, args, kwargs):
        r = self.lib.special_instantiate(self, st, cls, args, kwargs)
        if r is not NotImplemented:
            return r
        ref = st.alloc(Obj(cls), cls.qualname)
        init = self.class_lookup(cls, "__init__")
        if init:
            self.call_function(st, init[0], [ref] + list(args), kwargs)
        elif args or kwargs:
            # TypedDict / dataclass-like: keep keyword fields
            st.heap[ref.id].fields.update(kwargs)
        return ref

    def bind(self, st, fv, args, kwargs):
        a = fv.node.args
        params = [p.arg for p in a.posonlyargs + a.args]
        env = {}
        args = list(args)
        if len(args) > len(params) and a.vararg is None:
            raise PyRaise(ExcVal("TypeError", ("too many positional arguments",)))
        for p, v in zip(params, args):
            env[p] = v
        if a.vararg is not None:
            env[a.vararg.arg] = tuple(args[len(params):])
        kw = dict(kwargs)
        for p in params[len(args):] + [k.arg for k in a.kwonlyargs]:
            if p in kw:
                env[p] = kw.pop(p)
        if kw:
            if a.kwarg is not None:
                env[a.kwarg.arg] = st.alloc(dict(kw), "kwargs")
            else:
                dup = [k for k in kw if k in env]
                raise PyRaise(ExcVal("TypeError", (f"unexpected keyword {sorted(kw)}" if not dup else f"multiple values for {dup}",)))
        elif a.kwarg is not None:
            env[a.kwarg.arg] = st.alloc({}, "kwargs")
        # defaults
        defaults = a.defaults
        dpos = params[len(params) - len(defaults):] if defaults else []
        for p, d in zip(dpos, defaults):
            if p not in env:
                env[p] = self.eval_default(st, fv, d)
        for k, d in zip(a.kwonlyargs, a.kw_defaults):
            if k.arg not in env and d is not None:
                env[k.arg] = self.eval_default(st, fv, d)
        for p in params + [k.arg for k in a.kwonlyargs]:
            if p not in env:
                raise PyRaise(ExcVal("TypeError", (f"missing argument {p}",)))
        return env

    def eval_default(self, st, fv, d):
        sub = State()
        sub.env = Env(parent=fv.closure, module=fv.module)
        sub.heap = st.heap
        return self.ev(d, sub)

    def call_function(self, st, fv, args, kwargs):
        c = self.ctx.callee_contract(fv) if self.ctx is not None else None
        if c is not None:
            self.stats["calls_by_contract"] += 1
            return c.apply(self, st, fv, args, kwargs)
        if self.depth > 40:
            raise Unsupported("call depth")
        self.stats["calls_inlined"] += 1
        if self.ctx is not None:
            self.ctx.note_inlined(fv)
        env = self.bind(st, fv, args, kwargs)
        old = st.env
        st.env = Env(env, parent=fv.closure, module=fv.module if fv.closure is None else None)
        if fv.closure is not None and st.env.module is None:
            st.env.module = None
            # module comes through the closure chain; make sure the chain ends in the module
            e = st.env
            while e.parent is not None:
                e = e.parent
            if e.module is None:
                e.module = fv.module
        self.depth += 1
        is_gen = _is_generator(fv.node)
        if is_gen:
            self.lib.USED.add(f"generator evaluated eagerly: {fv.qualname}")
            prev_sink = st.ghost.get("__yield_sink__")
            sink = st.alloc([], "generator")
            st.ghost["__yield_sink__"] = sink
        try:
            self.exec_block(fv.node.body, st)
            self._expose_locals(st)
            return sink if is_gen else None
        except ReturnSig as r:
            self._expose_locals(st)
            return sink if is_gen else r.value
        finally:
            self.depth -= 1
            st.env = old
            if is_gen:
                st.ghost["__yield_sink__"] = prev_sink

    def _expose_locals(self, st):
        """contract option "expose_locals": the local variables of the function under verification at its normal exit are kept
        as ghost state (postconditions may then speak about, e.g., the previous iterate of a solver)"""
        ctx = self.ctx
        if self.depth == 1 and ctx is not None and getattr(ctx, "contract", None) is not None and ctx.contract.options.get("expose_locals"):
            st.ghost["locals"] = dict(st.env.vars)

    # ------------------------------------------------------------------ statements
    def exec_block(self, body, st):
        for s in body:
            self.ex(s, st)

    def ex(self, node, st):
        m = getattr(self, "ex_" + type(node).__name__, None)
        if m is None:
            raise Unsupported(f"statement {type(node).__name__} [line {getattr(node, 'lineno', '?')}]")
        try:
            return m(node, st)
        except Unsupported as e:
            # diagnostics only: the innermost statement's line goes into the message once
            if e.args and isinstance(e.args[0], str) and "[line " not in e.args[0] and hasattr(node, "lineno"):
                e.args = (f"{e.args[0]} [line {node.lineno}]",) + tuple(e.args[1:])
            raise

    def ex_Expr(self, node, st):
        if isinstance(node.value, ast.Constant):
            return
        self.ev(node.value, st)

    def ex_Pass(self, node, st):
        pass

    def ex_Import(self, node, st):
        for a in node.names:
            st.env.vars[a.asname or a.name.split(".")[0]] = self.import_module(a.name)

    def ex_ImportFrom(self, node, st):
        for a in node.names:
            mod = node.module or ""
            m2 = source.load_module(mod) if mod.startswith(source.PKG) else None
            if m2 is not None:
                st.env.vars[a.asname or a.name] = self.module_attr(st, m2, a.name)
            else:
                st.env.vars[a.asname or a.name] = self.lib.lookup(mod + "." + a.name)

    def ex_Global(self, node, st):
        # the names refer to the module-level variables of the function's module from here on: reads fall through to
        # State.globals / the module's initial assignment (lookup), writes go to State.globals (assign)
        if st.env.global_names is None:
            st.env.global_names = set()
        st.env.global_names.update(node.names)

    def ex_Nonlocal(self, node, st):
        raise Unsupported("nonlocal statement")

    def ex_FunctionDef(self, node, st):
        st.env.vars[node.name] = FuncVal(self.cur_module(st), node, node.name, closure=st.env)

    def ex_Return(self, node, st):
        raise ReturnSig(self.ev(node.value, st) if node.value is not None else None)

    def ex_Break(self, node, st):
        raise BreakSig()

    def ex_Continue(self, node, st):
        raise ContinueSig()

    def ex_Assert(self, node, st):
        if not self.truth(st, self.ev(node.test, st)):
            raise PyRaise(ExcVal("AssertionError", ()))

    def ex_Raise(self, node, st):
        if node.exc is None:
            cur = st.ghost.get("__current_exc__")
            if cur is None:
                raise Unsupported("bare raise outside handler")
            raise PyRaise(cur)
        v = self.ev(node.exc, st)
        v = st.deref(v)
        if isinstance(v, ExcType):
            v = ExcVal(v.name, ())
        if isinstance(v, ClassVal):
            v = self.instantiate(st, v, [], {})
        if isinstance(v, Ref):
            v = st.deref(v)
        if isinstance(v, Obj):
            raise PyRaise(v)
        if not isinstance(v, ExcVal):
            raise Unsupported("raise of non-exception")
        raise PyRaise(v)

    def exc_matches(self, st, exc, typ):
        typ = st.deref(typ)
        if isinstance(typ, tuple):
            return any(self.exc_matches(st, exc, t) for t in typ)
        if isinstance(exc, ExcVal):
            if isinstance(typ, ExcType):
                return ExcType(exc.typ).issub(typ.name)
            return False
        if isinstance(exc, Obj):
            if isinstance(typ, ExcType):
                return typ.name in ("Exception", "BaseException") or self.lib.obj_isinstance(self, st, exc, typ)
            if isinstance(typ, ClassVal):
                return self.lib.obj_isinstance(self, st, exc, typ)
        return False

    def ex_Try(self, node, st):
        try:
            try:
                self.exec_block(node.body, st)
            except PyRaise as e:
                for h in node.handlers:
                    if h.type is None or self.exc_matches(st, e.exc, self.ev(h.type, st)):
                        if h.name:
                            st.env.vars[h.name] = e.exc
                        prev = st.ghost.get("__current_exc__")
                        st.ghost["__current_exc__"] = e.exc
                        try:
                            self.exec_block(h.body, st)
                        finally:
                            st.ghost["__current_exc__"] = prev
                        break
                else:
                    raise
            else:
                self.exec_block(node.orelse, st)
        finally:
            if node.finalbody:
                self.exec_block(node.finalbody, st)

    def ex_With(self, node, st):
        for item in node.items:
            try:
                v = self.ev(item.context_expr, st)
            except Unsupported:
                v = Opaque("context")
            v = self.lib.enter_context(self, st, v)
            if item.optional_vars is not None:
                self.assign(st, item.optional_vars, v)
        self.exec_block(node.body, st)

    def ex_If(self, node, st):
        c = self.ev(node.test, st)
        if self._merge_enabled() and self.explorer is not None:
            cz = st.deref(c)
            if is_sym(cz) and z3.is_bool(cz):
                cz = z3.simplify(cz)
                if not (z3.is_true(cz) or z3.is_false(cz)) and _mergeable_if(node) and self._merged_if(node, st, cz):
                    return
        if self.truth(st, c):
            self.exec_block(node.body, st)
        else:
            self.exec_block(node.orelse, st)

    # ---- if-conversion (option "merge_ifs"): straight-line branches are executed both and joined with ite, so that
    # branch-heavy numeric code yields a number of paths that is additive, not multiplicative, in its if-statements
    def _merge_enabled(self):
        ctx = self.ctx
        return ctx is not None and getattr(ctx, "contract", None) is not None and ctx.contract.options.get("merge_ifs", False)

    def _merged_if(self, node, st, cz):
        snap0 = st.snapshot()
        self._merging = getattr(self, "_merging", 0) + 1
        try:
            st.assume(cz)
            self.exec_block(node.body, st)
            s1 = st.snapshot()
            st.restore(snap0)
            st.assume(z3.Not(cz))
            self.exec_block(node.orelse, st)
            s2 = st.snapshot()
            merged = _merge_states(snap0, s1, s2, cz)
        except (MergeAbort, BreakSig, ContinueSig, ReturnSig, PyRaise, PathInfeasible, Unsupported):
            st.restore(snap0)
            return False
        finally:
            self._merging -= 1
        st.restore(merged)
        self.stats["ifs_merged"] = self.stats.get("ifs_merged", 0) + 1
        return True

    def ex_Delete(self, node, st):
        for t in node.targets:
            if isinstance(t, ast.Name):
                st.env.vars.pop(t.id, None)
            elif isinstance(t, ast.Subscript):
                o = st.deref(self.ev(t.value, st))
                k = self.ev(t.slice, st)
                if isinstance(o, dict):
                    if k not in o:
                        raise PyRaise(ExcVal("KeyError", (k,)))
                    del o[k]
                elif isinstance(o, list) and isinstance(k, int):
                    del o[k]
                else:
                    r = self.lib.special_delitem(self, st, o, k)
                    if r is NotImplemented:
                        raise Unsupported("del subscript")
            else:
                raise Unsupported("del target")

    # ---- assignment
    def ex_Assign(self, node, st):
        v = self.ev(node.value, st)
        for t in node.targets:
            self.assign(st, t, v)

    def ex_AnnAssign(self, node, st):
        if node.value is not None:
            self.assign(st, node.target, self.ev(node.value, st))

    def ex_AugAssign(self, node, st):
        opn = type(node.op).__name__
        t = node.target
        if isinstance(t, ast.Name):
            cur = self.ev(t, st)
            curd = st.deref(cur)
            rhs = self.ev(node.value, st)
            if isinstance(curd, Arr) and isinstance(cur, Ref):
                # in-place update of an array object
                new = self.binop(st, opn, curd, rhs)
                newd = st.deref(new)
                st.heap[cur.id] = newd
                self.ctx.note_write(cur) if self.ctx else None
                return
            if isinstance(curd, list) and opn == "Add":
                curd.extend(self.iterate(st, rhs))
                return
            self.assign(st, t, self.binop(st, opn, cur, rhs))
        elif isinstance(t, ast.Subscript):
            obj = self.ev(t.value, st)
            idx = self.ev(t.slice, st)
            cur = self.getitem(st, obj, idx)
            rhs = self.ev(node.value, st)
            self.setitem(st, obj, idx, self.binop(st, opn, cur, rhs))
        elif isinstance(t, ast.Attribute):
            obj = self.ev(t.value, st)
            cur = self.getattr(st, obj, t.attr)
            rhs = self.ev(node.value, st)
            self.setattr(st, obj, t.attr, self.binop(st, opn, cur, rhs))
        else:
            raise Unsupported("augmented assignment target")

    def assign(self, st, target, v):
        if isinstance(target, ast.Name):
            if st.env.global_names and target.id in st.env.global_names:
                mod = self.cur_module(st)
                if mod is None:
                    raise Unsupported("global statement outside a repository module")
                st.globals[(mod.name, target.id)] = v
                return
            st.env.vars[target.id] = v
        elif isinstance(target, (ast.Tuple, ast.List)):
            vals = self.iterate(st, v)
            if any(isinstance(e, ast.Starred) for e in target.elts):
                raise Unsupported("starred assignment")
            if len(vals) != len(target.elts):
                raise PyRaise(ExcVal("ValueError", ("unpack",)))
            for e, x in zip(target.elts, vals):
                self.assign(st, e, x)
        elif isinstance(target, ast.Subscript):
            obj = self.ev(target.value, st)
            idx = self.ev(target.slice, st)
            self.setitem(st, obj, idx, v)
        elif isinstance(target, ast.Attribute):
            obj = self.ev(target.value, st)
            self.setattr(st, obj, target.attr, v)
        else:
            raise Unsupported("assignment target")

    def setattr(self, st, obj, name, v):
        o = st.deref(obj)
        if isinstance(o, Obj):
            r = self.lib.obj_setattr(self, st, obj, o, name, v)
            if r is not NotImplemented:
                return
            if isinstance(o.cls, ClassVal):
                found = self.class_lookup(o.cls, name, want_setter=True)
                if found:
                    self.call_function(st, found[0], [obj, v], {})
                    return
                getter = self.class_lookup(o.cls, name)
                if getter and getter[1] == "property":
                    raise PyRaise(ExcVal("AttributeError", (f"property {name} has no setter",)))
            o.fields[name] = v
            return
        raise Unsupported(f"attribute store on {type(o).__name__}")

    def setitem(self, st, obj, idx, v):
        o = st.deref(obj)
        if isinstance(o, Arr):
            if not isinstance(obj, Ref):
                raise Unsupported("store into an array temporary (view semantics not modelled)")
            if getattr(o, "is_view", False):
                raise Unsupported("store through a view")
            st.heap[obj.id] = self.lib.arr_setitem(self, st, o, idx, v)
            if self.ctx:
                self.ctx.note_write(obj)
            return
        if isinstance(o, self.lib.MaskedSel):
            if not isinstance(obj, Ref):
                raise Unsupported("store into a temporary selection")
            st.heap[obj.id] = self.lib.sel_setitem(self, st, o, idx, v)
            return
        if isinstance(o, dict):
            k = st.deref(idx)
            if is_sym(k):
                raise Unsupported("symbolic dict key")
            o[k] = v
            return
        if isinstance(o, list):
            if isinstance(idx, int):
                try:
                    o[idx] = v
                except IndexError:
                    raise PyRaise(ExcVal("IndexError", ()))
                return
            raise Unsupported("list store with non-concrete index")
        r = self.lib.special_setitem(self, st, obj, o, idx, v)
        if r is not NotImplemented:
            return
        if isinstance(o, Obj) and isinstance(o.cls, ClassVal):
            found = self.class_lookup(o.cls, "__setitem__")
            if found:
                self.call_function(st, found[0], [obj, idx, v], {})
                return
            if all(isinstance(b, ClassVal) for b in o.cls.bases):
                # a plain class without __setitem__ (its bases are all repository classes or object)
                raise PyRaise(ExcVal("TypeError", (f"'{o.cls.qualname}' object does not support item assignment",)))
        raise Unsupported(f"subscript store on {type(o).__name__}")

    # ------------------------------------------------------------------ loops
    def ex_While(self, node, st):
        man = self.ctx.loop_contract(node) if self.ctx else None
        if man is not None:
            return self.loop_invariant(node, st, man, None, None)
        n = 0
        broke = False
        while True:
            if not self.truth(st, self.ev(node.test, st)):
                break
            n += 1
            if n > 200:
                raise Unsupported("while loop without invariant did not terminate in 200 unrollings")
            try:
                self.exec_block(node.body, st)
            except BreakSig:
                broke = True
                break
            except ContinueSig:
                continue
        if not broke:
            self.exec_block(node.orelse, st)

    def ex_For(self, node, st):
        itv = st.deref(self.ev(node.iter, st))
        man = self.ctx.loop_contract(node) if self.ctx else None
        if isinstance(itv, self.lib.RangeVal) and not all(isinstance(x, int) for x in (itv.lo, itv.hi, itv.step)):
            if itv.step != 1:
                raise Unsupported("symbolic range with step != 1")
            if man is not None:
                return self.loop_invariant(node, st, man, itv.lo, itv.hi)
            from .loops import summarise_for
            return summarise_for(self, node, st, itv.lo, itv.hi)
        if man is not None and isinstance(itv, self.lib.RangeVal):
            return self.loop_invariant(node, st, man, itv.lo, itv.hi)
        if isinstance(itv, self.lib.EnumVal):
            return self.for_enumerate(node, st, itv, man)
        items = self.iterate(st, itv)
        self.stats["loops_unrolled"] += 1
        broke = False
        for x in items:
            self.assign(st, node.target, x)
            try:
                self.exec_block(node.body, st)
            except BreakSig:
                broke = True
                break
            except ContinueSig:
                continue
        if not broke:
            self.exec_block(node.orelse, st)

    def for_enumerate(self, node, st, ev, man):
        """`for i, x in enumerate(a)` with len(a) symbolic  ==  `for i in range(len(a)): x = a[i]; ...`"""
        t = node.target
        if not (isinstance(t, (ast.Tuple, ast.List)) and len(t.elts) == 2 and all(isinstance(e, ast.Name) for e in t.elts)):
            raise Unsupported("enumerate over a symbolic-length array needs a `for i, x in` target")
        if man is not None:
            raise Unsupported("loop invariant on an enumerate loop")
        hidden = f"__enum_src_{id(node)}"
        st.env.vars[hidden] = ev.src
        first = ast.Assign(targets=[ast.Name(id=t.elts[1].id, ctx=ast.Store())],
                           value=ast.Subscript(value=ast.Name(id=hidden, ctx=ast.Load()),
                                               slice=ast.Name(id=t.elts[0].id, ctx=ast.Load()), ctx=ast.Load()))
        synth = ast.For(target=ast.Name(id=t.elts[0].id, ctx=ast.Store()), iter=node.iter,
                        body=[first] + list(node.body), orelse=list(node.orelse), type_comment=None)
        ast.copy_location(first, node)
        ast.copy_location(synth, node)
        ast.fix_missing_locations(synth)
        from .loops import summarise_for
        try:
            return summarise_for(self, synth, st, 0, st.deref(ev.src).shape[0])
        finally:
            st.env.vars.pop(hidden, None)

    def loop_invariant(self, node, st, man, lo, hi):
        from .loops import invariant_loop
        return invariant_loop(self, node, st, man, lo, hi)
