"""C10 — roughness lengths: formulas, NaN-or-positive Janssen estimate; Charnock implicit equation bounded.

Proved: drag_coefficient = (kappa/ln(z/z0))^2, roughness_wu positive with its closed form, _charnock_relation_point (capped
Charnock relation), _roughness_estimate_point returns NaN or exp(.) > 0 on every return path.
Bounded (never counted as proved): fixed_point_iteration / charnock_roughness_length(_from_u10) / drag_coefficient_charnock are
xarray + `global` code outside the verified subset; the implicit equation is checked at the returned value on the real functions."""
from fractions import Fraction
from pyvc.api import *
from pyvc.api import CalleeContract
from pyvc.values import Opaque
from pyvc.run import Lemma, Bounded

PROPERTY = "C10"
LEVEL = "other"
R = "wavephysics/roughness.py::"
B = "wavephysics/balance/"
KAPPA = Fraction(2, 5)


def _q(p, q, *like):
    return Fraction(p, q) if is_symbolic(*like) else p / q


def _is_nan(r):
    import pyvc.terms as _T
    if isinstance(r, _T.XR):
        return r.nan
    if isinstance(r, Opaque):
        return r.what == "nan"
    if is_symbolic(r):
        return False      # a real-sorted term: not NaN in the model
    try:
        return r != r
    except Exception:
        return False


# ------------------------------------------------------------------ formulas of roughness.py
drag = Contract(
    R + "drag_coefficient",
    params=lambda mk: {"u10": mk.real("u10"), "roughness": mk.real("z0")},
    requires=[("domain", lambda a: And(a.u10 > 0, a.roughness > 0, a.roughness < 10))],
    ensures=[("value", lambda a, r: eq(r, (_q(2, 5, r) / log(10 / a.roughness)) * (_q(2, 5, r) / log(10 / a.roughness)), rtol=1e-9))],
    witness=[lambda: ("", {"u10": 12.0, "roughness": 2e-4}), lambda: ("", {"u10": 0.3, "roughness": 3.0})],
)

wu = Contract(
    R + "roughness_wu",
    params=lambda mk: {"speed": mk.real("U")},
    requires=[("domain", lambda a: a.speed >= 0)],
    ensures=[("value", lambda a, r: eq(r, 10 / exp(_q(2, 5, r) / sqrt((_q(8, 10, r) + _q(65, 1000, r) * a.speed) / 1000)))),
             ("positive", lambda a, r: r > 0)],
    witness=[lambda: ("", {"speed": 0.0}), lambda: ("", {"speed": 25.0})],
)

CH_PARAMS = ["gravitational_acceleration", "charnock_constant", "charnock_maximum_roughness"]


def _minv(a, b):
    return If(a > b, b, a)


charnock_point = Contract(
    B + "wam_tail_stress.py::_charnock_relation_point",
    params=lambda mk: {"friction_velocity": mk.real("ustar"), "parameters": mk.record("parameters", {k: "real" for k in CH_PARAMS})},
    requires=[("positive", lambda a: And(a.parameters["gravitational_acceleration"] > 0, a.parameters["charnock_constant"] > 0,
                                         a.parameters["charnock_maximum_roughness"] > 0))],
    ensures=[("value", lambda a, r: eq(r, _minv(a.friction_velocity * a.friction_velocity / a.parameters["gravitational_acceleration"]
                                                * a.parameters["charnock_constant"], a.parameters["charnock_maximum_roughness"]))),
             ("nonneg", lambda a, r: r >= 0)],
)

# ------------------------------------------------------------------ Janssen estimate: NaN or positive
NEWTON = CalleeContract(B + "solvers.py::numba_newton_raphson", lambda mk, a: mk.real("log_root"), assumed=True,
                        note="the hybrid Newton solver returns a finite real (or raises); nothing about its value is assumed")


def _p_estimate(wtype):
    def p(mk):
        nf, nd = mk.size("nf"), mk.size("nd")
        return {"guess": mk.real("guess"), "variance_density": mk.array("E", (nf, nd)),
                "wind": (mk.real("U"), mk.real("wdir"), wtype), "depth": mk.real("depth"),
                "wind_source_term_function": None, "tail_stress_parametrization_function": None,
                "spectral_grid": mk.record("spectral_grid", {"radian_frequency": ("array", (nf,)), "radian_direction": ("array", (nd,)),
                                                             "frequency_step": ("array", (nf,)), "direction_step": ("array", (nd,))}),
                "parameters": mk.record("parameters", {k: "real" for k in CH_PARAMS + ["vonkarman_constant"]})}
    return p


estimate_point = Contract(
    B + "stress.py::_roughness_estimate_point",
    instances=[(w, _p_estimate(w)) for w in ("u10", "friction_velocity", "ustar", "other")],
    requires=[("dims", lambda a: And(a.variance_density.shape[0] >= 0, a.variance_density.shape[1] >= 0))],
    ensures=[("nan_or_positive", lambda a, r: Or(_is_nan(r), False if _is_nan(r) else r > 0))],
    raises={"ValueError": lambda a: And(a.guess < 0, a.wind[2] not in ("u10", "ustar", "friction_velocity"))},
    callees={NEWTON.target: NEWTON},
)


# ------------------------------------------------------------------ bounded: Charnock implicit equation on the real functions
def _bounded_charnock(tier, seed):
    import warnings
    import numpy as np
    import xarray
    from ocean_science_utilities.wavephysics import roughness as Rm
    g, kap, nu = 9.81, 0.4, 1.48e-5
    nU = 200 if tier == "quick" else 2000
    U = np.linspace(0.1, 80.0, nU)
    failures, evals = [], 0

    def fail(kind, **kw):
        if sum(1 for f in failures if f["kind"] == kind) < 3:
            failures.append({"kind": kind, **kw})

    def check(z, Uv, alpha, c, label):
        us = kap * Uv / np.log(10.0 / z)
        F = alpha * us ** 2 / g + c * nu / us
        bad = ~((z > 0) & (np.abs(F - z) <= 1e-4 * np.maximum(z, 1e-4)))
        bad &= ~np.isnan(Uv)
        if bad.any():
            j = int(np.argmax(bad))
            fail("implicit_equation." + label, U=float(Uv[j]), alpha=alpha, viscous_constant=c, z0=float(z[j]), F_of_z0=float(F[j]))

    with warnings.catch_warnings():
        warnings.simplefilter("ignore")
        for alpha in (0.005, 0.0085, 0.012, 0.0185, 0.03, 0.04):
            for c in (0.0, 0.11):
                kw = {"charnock_constant": alpha, "viscous_constant": c}
                for label, arg in (("DataArray", xarray.DataArray(U)), ("ndarray", U)):
                    evals += nU
                    try:
                        z = np.asarray(Rm.charnock_roughness_length_from_u10(arg, **kw))
                        cd = np.asarray(Rm.drag_coefficient_charnock(arg, **kw))
                    except Exception as e:
                        fail("raises." + label, alpha=alpha, viscous_constant=c, error=repr(e)[:200])
                        continue
                    check(z, U, alpha, c, label)
                    if not np.allclose(cd, (kap / np.log(10.0 / z)) ** 2, rtol=1e-3, atol=0):
                        fail("drag_coefficient." + label, alpha=alpha, viscous_constant=c)
                    if c == 0.0 and not (np.all(np.diff(z) > 0) and np.all(np.diff(cd) > 0)):
                        fail("monotone_in_U." + label, alpha=alpha)
                # missing in -> missing out, other elements unaffected
                Un = U.copy()
                Un[::7] = np.nan
                evals += nU
                try:
                    zn = np.asarray(Rm.charnock_roughness_length_from_u10(xarray.DataArray(Un), **kw))
                    cdn = np.asarray(Rm.drag_coefficient_charnock(xarray.DataArray(Un), **kw))
                    if not (np.isnan(zn[::7]).all() and np.isnan(cdn[::7]).all()):
                        fail("nan_in_nan_out", alpha=alpha, viscous_constant=c)
                    ok = ~np.isnan(Un)
                    if np.isnan(zn[ok]).any():
                        fail("nan_spreads", alpha=alpha, viscous_constant=c)
                    else:
                        check(np.where(ok, zn, 1.0), Un, alpha, c, "with_nan")
                except Exception as e:
                    fail("raises.with_nan", alpha=alpha, viscous_constant=c, error=repr(e)[:200])
                # scalars (python float, numpy scalar, 0-d DataArray)
                for Us in (0.1, 7.5, 33.0, 80.0):
                    for label, arg in (("float", float(Us)), ("float64", np.float64(Us)), ("DataArray0d", xarray.DataArray(Us))):
                        evals += 1
                        try:
                            z = np.atleast_1d(np.asarray(Rm.charnock_roughness_length_from_u10(arg, **kw), dtype="float64"))
                            cd = np.atleast_1d(np.asarray(Rm.drag_coefficient_charnock(arg, **kw), dtype="float64"))
                        except Exception as e:
                            fail("raises.scalar." + label, U=Us, alpha=alpha, viscous_constant=c, error=repr(e)[:200])
                            continue
                        check(z, np.array([Us]), alpha, c, "scalar." + label)
                        if not np.allclose(cd, (kap / np.log(10.0 / z)) ** 2, rtol=1e-3, atol=0):
                            fail("drag_coefficient.scalar." + label, U=Us, alpha=alpha)
    return {"evaluations": int(evals), "distinct": int(evals), "failures": failures,
            "domain": (f"charnock_roughness_length_from_u10 / drag_coefficient_charnock on {nU} wind speeds in [0.1,80] m/s x Charnock constants "
                       "{0.005,0.0085,0.012,0.0185,0.03,0.04} x viscous constant {0,0.11}; DataArray, ndarray, every 7th element NaN, python/numpy scalars and 0-d "
                       "DataArray; oracle |alpha u*^2/g + c nu/u* - z0| <= 1e-4 max(z0,1e-4) at the returned z0, Cd = (kappa/ln(10/z0))^2, NaN<->NaN, increasing in U without viscous term")}


BOUNDED = [Bounded("charnock.implicit_equation", _bounded_charnock, "residual of the implicit Charnock equation at the returned roughness; NaN handling; monotonicity")]
CONTRACTS = [drag, wu, charnock_point, estimate_point]
TRUSTED = ["A-table: exp(x) > 0; sqrt(x) > 0 for x > 0; log is an uninterpreted function (formula contracts are syntactic in log)",
           "np.nan is an opaque non-real value in the model (np.isnan of a real is False: NaN *inputs* are outside the real model and are sampled in the bounded stand-in)"]
EXPLANATION = ("formula fragments and the NaN-or-positive exit contract of the Janssen estimate are proved; the Charnock fixed point "
               "(fixed_point_iteration: xarray, module-global counter, f-string logging) is outside the subset: bounded residual check on the real functions")
