#!/bin/bash
# runs every seeded change under /verif/seeded against the check of its property (scratch copy of /repo + patch; removed afterwards)
# usage: ./run_seeds.sh [parallel jobs, default 2]
cd "$(dirname "$0")"
out=seeded/RESULTS.tsv
jobs=${1:-2}
only=${2:-}        # optional regex on the seed name: only these are run and merged into the existing table
tmp=$(mktemp -d /tmp/osu-seedrun-XXXXXX)
one() {
  d=$1; s=$(basename $d); p=${s%-*}
  extra=""
  [ "$p" = "C03" ] && extra="C04 C02"
  [ "$p" = "C02" ] && extra="C01"
  res=$(TAILN=400 ./mutant.sh $d/patch.diff $p $extra 2>&1)
  ex=$(echo "$res" | grep -E "^exit=" | tr '\n' ',' )
  ob=$(echo "$res" | grep "failed obligation" | head -1 | sed 's/.*failed obligation: //')
  conf=$(echo "$res" | grep "VIOLATION" | grep -v "no-failing-input-found" | head -1 | sed 's/.*replay=//')
  [ -z "$ob" ] && ob=$(echo "$res" | grep -E "UNDECIDED|patch failed" | head -1 | cut -c1-120)
  echo -e "$s\t$p $extra\t$ex\t$ob\t$conf" > $2/$s.tsv
}
export -f one
ls -d seeded/C*-*/ | grep -E "${only:-.}" | xargs -P $jobs -I{} bash -c "one {} $tmp"
if [ -n "$only" ] && [ -f $out ]; then
  tail -n +2 $out | while IFS= read -r line; do s=$(echo "$line" | cut -f1); [ -f $tmp/$s.tsv ] || echo "$line" > $tmp/$s.tsv; done
fi
echo -e "seed\tproperty\texit\tfirst_failed_obligation\tconfirmed_replay" > $out
cat $tmp/*.tsv | sort >> $out
rm -rf $tmp
